(* AsmM.v — executable model of the LINEAR path of FSolver::Static2D and of the per-label lines
   of FSolver::WriteStatic2D (cfemm/fsolver/static2d.cpp), statement by statement and in the same
   floating-point operation order, on the post-LoadMesh / post-Cuthill data the solver works on
   (lengths already in centimetres).  Also FSolver::GetFillFactor's bIsWound flag
   (cfemm/fsolver/fsolver.cpp:1083-1105; ProximityMu is only used by the harmonic solver for
   LamType > 2).
   NOT modelled (the generator of tools/props/c05_gen.py never produces them): air-gap elements
   (static2d.cpp:192-350), the Newton branch for BH curves (BHpoints <> 0, static2d.cpp:633-797;
   with BHpoints = 0 the do-while runs once, Mn = 0 and  be[j] += Mn[j][k]*L.V[n[k]]  adds +0),
   previous-solution runs (bIncremental), polar boundary coordinates (Coords = 1, lines 882-921).
   libm values come from the implementation: cos/sin of the magnetisation direction per element
   (static2d.cpp:593-595, also for Lua-expression directions) and cos(phi*DEG) per boundary
   property (line 867).  The element shape statements (p, q, l, a) and the loops
   Mx[j][k] += K*p[j]*p[k] are those of esolver.cpp, so AsmE.geom / AsmE.stiff_add are reused.
   No proofs in this file. *)
From Coq Require Import ZArith List Bool Arith.
From XF Require Import Arith Sparse AsmE.
Import ListNotations.

Section AsmM.
  Context {F : Type} (A : Arith F).
  Local Notation "x +. y" := (aadd A x y) (at level 50, left associativity).
  Local Notation "x -. y" := (asub A x y) (at level 50, left associativity).
  Local Notation "x *. y" := (amul A x y) (at level 40, left associativity).
  Local Notation "x /. y" := (adiv A x y) (at level 40, left associativity).
  Local Notation zero := (azero A).
  Local Notation one := (aone A).
  Local Notation "'#' z" := (aofZ A z) (at level 9).

  Record mnode := mkMNode { mx : F; my : F; mbm : option nat }.
  (* mcos/msin: cos(t*PI/180.), sin(t*PI/180.) for the element's magnetisation direction t *)
  Record melem := mkMElem { mp : nat * nat * nat; me : option nat * option nat * option nat;
                            mblk : nat; mlbl : nat; mcos : F; msin : F }.
  Record mblock := mkMBlock { bmux : F; bmuy : F; bHc : F; bJre : F; bJim : F; bCduct : F; bLamd : F;
                              bThx : F; bThy : F; bLamType : nat; bLamFill : F }.
  (* lcosphi = cos(phi*DEG); (lexre, leim) = exp(I*phi*DEG) (used by AsmMH) *)
  Record mline := mkMLine { mlfmt : nat; lA0 : F; lA1 : F; lA2 : F; lc0re : F; lc0im : F; lc1re : F; lc1im : F;
                            lcosphi : F; lexre : F; lexim : F }.
  Record mpoint := mkMPoint { pJre : F; pJim : F; pAre : F; pAim : F }.
  Record mcirc := mkMCirc { cType : nat; cAre : F; cAim : F; cdVre : F; cdVim : F }.
  Record mlabel := mkMLabel { lblk : nat; lcirc : option nat; lturns : Z }.
  Record mprob := mkMProb {
    unit_idx : nat;
    mnodes : list mnode; melems : list melem; mblocks : list mblock; mlines : list mline;
    mpoints : list mpoint; mcircs : list mcirc; mlabels : list mlabel;
    mpbcs : list (nat * nat * nat) }.

  Definition dmnode := mkMNode zero zero None.
  Definition dmblock := mkMBlock one one zero zero zero zero zero zero zero 0 one.
  Definition dmline := mkMLine 1 zero zero zero zero zero zero zero one one zero.
  Definition dmpoint := mkMPoint zero zero zero zero.
  Definition dmcirc := mkMCirc 0 zero zero zero zero.
  Definition dmlabel := mkMLabel 0 None 1%Z.

  (* double c=PI*4.e-05;  double units[]= {2.54,0.1,1.,100.,0.00254,1.e-04}; *)
  Definition c4pi : F := api A *. adec A 4 (-5).
  Definition munits : list F :=
    [adec A 254 (-2); adec A 1 (-1); one; #100; adec A 254 (-5); adec A 1 (-4)].
  Definition e4 : F := adec A 1 (-4).          (* 0.0001 *)
  Definition e2 : F := adec A 1 (-2).          (* 0.01 *)

  (* FSolver::GetFillFactor: bIsWound *)
  Definition is_wound (P : mprob) (l : mlabel) : bool :=
    Z.ltb 1 (Z.abs (lturns l)) || Nat.ltb 2 (bLamType (nth (lblk l) (mblocks P) dmblock)).

  Definition mel_geom (P : mprob) (el : melem) : egeom :=
    let nd := fun j => nth (tri_get (mp el) j) (mnodes P) dmnode in
    geom A (mx (nd 0)) (my (nd 0)) (mx (nd 1)) (my (nd 1)) (mx (nd 2)) (my (nd 2)).

  (* ---- circuit pre-pass (static2d.cpp:85-167) ---- *)
  Definition circ_step (P : mprob) (acc : list F * list F * list F) (el : melem) : list F * list F * list F :=
    let '(c1, c2, c3) := acc in
    let lab := nth (mlbl el) (mlabels P) dmlabel in
    match lcirc lab with
    | None => acc
    | Some ic =>
        let a := ga (mel_geom P el) in
        let blk := nth (mblk el) (mblocks P) dmblock in
        let Cduct := if is_wound P lab then zero else bCduct blk in
        (vset c1 ic (vget A c1 ic +. a),
         vset c2 ic (vget A c2 ic +. a *. Cduct),
         vset c3 ic (vget A c3 ic +. bJre blk *. a *. #100))
    end.

  Definition circ_ints (P : mprob) (nc : nat) : list F * list F * list F :=
    fold_left (circ_step P) (melems P) (repeat zero nc, repeat zero nc, repeat zero nc).

  (* result per circuit: (Case, J, dV) *)
  Definition circ_case (c : mcirc) (i1 i2 i3 : F) : nat * F * F :=
    if Nat.eqb (cType c) 0 then
      if aeqb A i2 zero then
        (1, (if aeqb A i1 zero then zero else e2 *. (cAre c -. i3) /. i1), zero)
      else (0, zero, aneg A e2 *. (cAre c -. i3) /. i2)
    else (0, zero, cdVre c).

  Definition circ_results (P : mprob) : list (nat * F * F) :=
    let nc := length (mcircs P) in
    let '(c1, c2, c3) := circ_ints P nc in
    map (fun ic => circ_case (snd ic) (vget A c1 (fst ic)) (vget A c2 (fst ic)) (vget A c3 (fst ic)))
        (combine (seq 0 nc) (mcircs P)).

  Definition dres : nat * F * F := (1, zero, zero).

  (* the circuit part  t  of the current density of an element (static2d.cpp:485-499) *)
  Definition circ_t (P : mprob) (res : list (nat * F * F)) (el : melem) : F :=
    match lcirc (nth (mlbl el) (mlabels P) dmlabel) with
    | None => zero
    | Some k =>
        let '(case, J, dV) := nth k res dres in
        let t := if Nat.eqb case 1 then J else zero in
        if Nat.eqb case 0 then aneg A dV *. bCduct (nth (mblk el) (mblocks P) dmblock) else t
    end.

  (* ---- element permeabilities, Iter == 0 (static2d.cpp:605-631); LoadMesh leaves -1 ---- *)
  Definition el_mu (b : mblock) : F * F :=
    let t := bLamFill b in
    let m := (aneg A one, aneg A one) in
    let m := if Nat.eqb (bLamType b) 0 then (bmux b *. t +. (one -. t), bmuy b *. t +. (one -. t)) else m in
    let m := if Nat.eqb (bLamType b) 1 then
               let mu := bmux b in (mu *. t +. (one -. t), mu /. (t +. mu *. (one -. t))) else m in
    let m := if Nat.eqb (bLamType b) 2 then
               let mu := bmuy b in (mu /. (t +. mu *. (one -. t)), mu *. t +. (one -. t)) else m in
    if Nat.ltb 2 (bLamType b) then (one, one) else m.

  (* Mxy[j][k] += K*(p[j]*q[k] + p[k]*q[j]) over j, k>=j, mirrored *)
  Definition xy_add (Me : list F) (K : F) (p q : list F) : list F :=
    fold_left (fun Me jk =>
      let '(j, k) := jk in
      let v := K *. (vget A p j *. vget A q k +. vget A p k *. vget A q j) in
      let Me := m3add A Me j k v in
      if Nat.eqb j k then Me else m3add A Me k j v)
      [(0,0);(0,1);(0,2);(1,1);(1,2);(2,2)] Me.

  (* contributions from derivative boundary conditions, BdryFormat 2 (static2d.cpp:460-480) *)
  Definition mixed_step (P : mprob) (g : egeom) (el : melem) (acc : list F * list F) (j : nat) : list F * list F :=
    match tri_get (me el) j with
    | None => acc
    | Some s =>
        let lp := nth s (mlines P) dmline in
        if Nat.eqb (mlfmt lp) 2 then
          let '(Me, be) := acc in
          let K := aneg A e4 *. c4pi *. lc0re lp *. vget A (gl g) j /. #6 in
          let k := nxt j in
          let Me := m3add A Me j j (K *. #2) in
          let Me := m3add A Me k k (K *. #2) in
          let Me := m3add A Me j k K in
          let Me := m3add A Me k j K in
          let K := (lc1re lp *. vget A (gl g) j /. #2) *. e4 in
          (Me, v3add A (v3add A be j K) k K)
        else acc
    end.

  (* contribution from magnetization (static2d.cpp:584-598) *)
  Definition magnet_step (P : mprob) (el : melem) (be : list F) (j : nat) : list F :=
    let k := nxt j in
    let nd := fun t => nth (tri_get (mp el) t) (mnodes P) dmnode in
    let blk := nth (mblk el) (mblocks P) dmblock in
    let K := e4 *. bHc blk *. (mcos el *. (mx (nd k) -. mx (nd j)) +. msin el *. (my (nd k) -. my (nd j))) /. #2 in
    v3add A (v3add A be j K) k K.

  (* Me[j][k] += Mx[j][k]/Re(mu2) + My[j][k]/Re(mu1) + Mxy[j][k]*Re(v12) + Mn[j][k];  v12 = 0, Mn = 0
     (static2d.cpp:800-805) *)
  Definition combine_me (Me Mx My Mxy : list F) (mu1 mu2 : F) : list F :=
    fold_left (fun Me jk =>
      let '(j, k) := jk in
      m3add A Me j k (m3get A Mx j k /. mu2 +. m3get A My j k /. mu1 +. m3get A Mxy j k *. zero +. zero))
      [(0,0);(0,1);(0,2);(1,0);(1,1);(1,2);(2,0);(2,1);(2,2)] Me.

  (* element matrices (Me, be) and the element's (mu1, mu2) *)
  Definition melem_matrices (P : mprob) (res : list (nat * F * F)) (el : melem) : list F * list F * (F * F) :=
    let g := mel_geom P el in
    let blk := nth (mblk el) (mblocks P) dmblock in
    let z9 := repeat zero 9 in
    let K := aneg A one /. (#4 *. ga g) in
    let Mx := stiff_add A z9 K (gp g) in
    let My := stiff_add A z9 K (gq g) in
    let Mxy := xy_add z9 K (gp g) (gq g) in
    let '(Me, be) := fold_left (mixed_step P g el) [0;1;2] (z9, repeat zero 3) in
    let t := circ_t P res el in
    let Kj := aneg A (bJre blk +. t) *. ga g /. #3 in
    let be := v3add A (v3add A (v3add A be 0 Kj) 1 Kj) 2 Kj in
    let be := fold_left (magnet_step P el) [0;1;2] be in
    let '(mu1, mu2) := el_mu blk in
    (combine_me Me Mx My Mxy mu1 mu2, be, (mu1, mu2)).

  (* L.AddTo(-Me[j][k],n[j],n[k]) for k>=j;  L.b[n[j]] -= be[j]  (static2d.cpp:807-815) *)
  Definition mscatter (n : nat * nat * nat) (Me be : list F) (M : list (list (nat * F))) (b : list F)
    : list (list (nat * F)) * list F :=
    fold_left (fun acc j =>
      let '(M, b) := acc in
      let nj := tri_get n j in
      let M := fold_left (fun M k => if Nat.leb j k then maddto A M (aneg A (m3get A Me j k)) nj (tri_get n k) else M) [0;1;2] M in
      (M, vset b nj (vget A b nj -. vget A be j))) [0;1;2] (M, b).

  Definition melem_step (P : mprob) (res : list (nat * F * F)) (s : list (list (nat * F)) * list F) (el : melem)
    : list (list (nat * F)) * list F :=
    let '(Me, be, _) := melem_matrices P res el in
    mscatter (mp el) Me be (fst s) (snd s).

  (* point currents (static2d.cpp:819-825) *)
  Definition point_currents (P : mprob) (b : list F) : list F :=
    fold_left (fun b in_ =>
      match mbm (snd in_) with
      | Some m => vset b (fst in_) (vget A b (fst in_) +. e2 *. pJre (nth m (mpoints P) dmpoint))
      | None => b end) (combine (seq 0 (length (mnodes P))) (mnodes P)) b.

  (* fixed boundary conditions at points (static2d.cpp:828-838) *)
  Definition fixed_points (P : mprob) (L : lin (F:=F)) : lin :=
    fold_left (fun L in_ =>
      match mbm (snd in_) with
      | Some m =>
          let pp := nth m (mpoints P) dmpoint in
          if aeqb A (pJre pp) zero && aeqb A (pJim pp) zero then setvalue A L (fst in_) (pAre pp /. c4pi) else L
      | None => L end) (combine (seq 0 (length (mnodes P))) (mnodes P)) L.

  (* the prescribed value of a BdryFormat-0 boundary at a node (static2d.cpp:859-868), before /c *)
  Definition seg_value (P : mprob) (lp : mline) (nd : mnode) : F :=
    let u := nth (unit_idx P) munits one in
    let x := mx nd /. u in
    let y := my nd /. u in
    let a := lA0 lp +. x *. lA1 lp +. y *. lA2 lp in
    a *. lcosphi lp.

  (* fixed boundary conditions along segments (static2d.cpp:841-926, Coords == 0) *)
  Definition fixed_segments (P : mprob) (L : lin (F:=F)) : lin :=
    fold_left (fun L el =>
      fold_left (fun L j =>
        match tri_get (me el) j with
        | Some s =>
            let lp := nth s (mlines P) dmline in
            if Nat.eqb (mlfmt lp) 0 then
              let pj := tri_get (mp el) j in
              let pk := tri_get (mp el) (nxt j) in
              let L := setvalue A L pj (seg_value P lp (nth pj (mnodes P) dmnode) /. c4pi) in
              setvalue A L pk (seg_value P lp (nth pk (mnodes P) dmnode) /. c4pi)
            else L
        | None => L end) [0;1;2] L) (melems P) L.

  Definition mapply_pbcs (P : mprob) (L : lin (F:=F)) : lin :=
    fold_left (fun L pbc =>
      let '(x, y, t) := pbc in
      let L := if Nat.eqb t 0 then periodicity A L x y else L in
      if Nat.eqb t 1 then antiperiodicity A L x y else L) (mpbcs P) L.

  (* the system handed to L.PCGSolve, and the circuit results *)
  Definition asmM (P : mprob) (bw : nat) (prec : F) : lin (F:=F) * list (nat * F * F) :=
    let nn := length (mnodes P) in
    let res := circ_results P in
    let L0 := lcreate A nn bw prec (adec A 15 (-1)) in
    let '(M, b) := fold_left (melem_step P res) (melems P) (lM L0, lb L0) in
    let b := point_currents P b in
    let L := lwithMb L0 M b in
    let L := fixed_points P L in
    let L := fixed_segments P L in
    let L := mapply_pbcs P L in
    (L, res).

  (* L.b[i] = L.V[i]*c  (static2d.cpp:1018-1021): the potentials WriteStatic2D prints *)
  Definition written_A (V : list F) : list F := map (fun v => v *. c4pi) V.

  (* the per-label circuit lines of WriteStatic2D (static2d.cpp:1125-1148): (flag, value) *)
  Definition written_label (res : list (nat * F * F)) (l : mlabel) : nat * F :=
    match lcirc l with
    | None => (1, zero)
    | Some i =>
        let '(case, J, dV) := nth i res dres in
        if Nat.eqb case 0 then (0, dV) else (1, J)
    end.

  (* what the correspondence compares besides the system *)
  Definition side_outputs (P : mprob) (res : list (nat * F * F)) : list F :=
    concat (map (fun r => let '(case, J, dV) := r in [#(Z.of_nat case); J; dV]) res)
    ++ concat (map (fun l => let '(f, v) := written_label res l in [#(Z.of_nat f); v]) (mlabels P))
    ++ map (fun l => if is_wound P l then one else zero) (mlabels P)
    ++ concat (map (fun el => let '(m1, m2) := el_mu (nth (mblk el) (mblocks P) dmblock) in [m1; m2]) (melems P)).
End AsmM.
