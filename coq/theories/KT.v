(* KT.v — executable model of CHMaterialProp::GetK (cfemm/libfemm/CMaterialProp.cpp:1388-1409):
   the thermal conductivity of a block at temperature t, piecewise linear in the T-k table
   Kn[0..npts-1] (Re = temperature, Im = conductivity), clamped outside the table.
   The CComplex result (Re = kx, Im = ky) is a pair; every CComplex operator of the C++
   expression is written out (femmcomplex.cpp).  No proofs in this file. *)
From Coq Require Import ZArith List Bool Arith.
From XF Require Import Arith.
Import ListNotations.

Section KT.
  Context {F : Type} (A : Arith F).
  Local Notation "x +. y" := (aadd A x y) (at level 50, left associativity).
  Local Notation "x -. y" := (asub A x y) (at level 50, left associativity).
  Local Notation "x *. y" := (amul A x y) (at level 40, left associativity).
  Local Notation "x /. y" := (adiv A x y) (at level 40, left associativity).
  Local Notation zero := (azero A).
  Local Notation one := (aone A).

  (* Kx+I*Ky :  I*Ky = CComplex(0,1)*double = (0*Ky, 1*Ky);  double + CComplex = (Kx + re, im) *)
  Definition k_linear (kx ky : F) : F * F := (kx +. zero *. ky, one *. ky).
  (* Im(Kn[i])*(1+I) :  double * CComplex(1,1) = (k*1, k*1) *)
  Definition k_both (k : F) : F * F := (k *. one, k *. one).
  (* (1+I)*(v) :  CComplex(1,1) * double = (1*v, 1*v) *)
  Definition k_both' (v : F) : F * F := (one *. v, one *. v).

  (* Im(Kn[i])+Im(Kn[j]-Kn[i])*Re(t-Kn[i])/Re(Kn[j]-Kn[i]) *)
  Definition k_interp (ti ki tj kj t : F) : F := ki +. (kj -. ki) *. (t -. ti) /. (tj -. ti).

  (* for(i=0,j=1;j<npts;i++,j++) if((t>=Re(Kn[i])) && (t<=Re(Kn[j]))) return ...;  *)
  Fixpoint getk_scan (t : F) (tk : list (F * F)) : option F :=
    match tk with
    | (ti, ki) :: (((tj, kj) :: _) as rest) =>
        if aleb A ti t && aleb A t tj then Some (k_interp ti ki tj kj t)
        else getk_scan t rest
    | _ => None
    end.

  Definition getk (kx ky : F) (tk : list (F * F)) (t : F) : F * F :=
    match tk with
    | [] => k_linear kx ky                                   (* npts==0 *)
    | [(t0, k0)] => k_both k0                                (* npts==1 *)
    | (t0, k0) :: _ =>
        if aleb A t t0 then k_both k0                        (* t<=Re(Kn[0]) *)
        else
          let '(tl, kl) := last tk (t0, k0) in
          if aleb A tl t then k_both kl                      (* t>=Re(Kn[npts-1]) *)
          else match getk_scan t tk with
               | Some v => k_both' v
               | None => k_linear kx ky                      (* fall-through return *)
               end
    end.
End KT.
