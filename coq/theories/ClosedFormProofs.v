(* ClosedFormProofs.v — C06: affine fields are exact discrete solutions.  The element row of the
   electrostatics model applied to an affine potential is -Depth/2 (ex alpha p_j + ey beta q_j)
   (AsmEProofs.stiffness_row_on_affine); around any closed fan of elements the p's and q's of the
   centre node telescope to zero, so every interior row vanishes on every mesh. *)
From Coq Require Import ZArith List Bool Arith Lia Reals Lra.
From XF Require Import Arith Sparse AsmE AsmEProofs.
Import ListNotations.
Local Open Scope R_scope.

(* sum of f over consecutive pairs of a cyclic list *)
Fixpoint pairs_from (first : R * R) (l : list (R * R)) : list ((R * R) * (R * R)) :=
  match l with
  | [] => []
  | [a] => [(a, first)]
  | a :: ((b :: _) as t) => (a, b) :: pairs_from first t
  end.
Definition ring_pairs (l : list (R * R)) : list ((R * R) * (R * R)) :=
  match l with [] => [] | a :: _ => pairs_from a l end.

Fixpoint lsumR {T} (f : T -> R) (l : list T) : R := match l with [] => 0 | x :: t => f x + lsumR f t end.

Lemma telescoping (g : R * R -> R) first : forall l a,
  lsumR (fun pq => g (fst pq) - g (snd pq)) (pairs_from first (a :: l)) = g a - g first.
Proof.
  induction l as [|b l IH]; intros a; simpl; [lra|].
  specialize (IH b). simpl in IH. rewrite IH. lra.
Qed.

(* around a closed ring r_0 ... r_{m-1}: sum (y_i - y_{i+1}) = 0 and sum (x_{i+1} - x_i) = 0 *)
Lemma ring_sum_zero (g : R * R -> R) l : lsumR (fun pq => g (fst pq) - g (snd pq)) (ring_pairs l) = 0.
Proof. destruct l as [|a l]; [reflexivity|]. unfold ring_pairs. rewrite (telescoping g a l a). lra. Qed.

(* For the fan of elements (c, r_i, r_{i+1}) around a node c the local shape parameters of c are
   p = y_{r_i} - y_{r_{i+1}},  q = x_{r_{i+1}} - x_{r_i}.  With one material and one depth, the sum over
   the fan of the centre rows applied to V = c0 + alpha x + beta y is
   -Depth/2 (ex alpha sum p + ey beta sum q) = 0: an affine potential satisfies the equation of
   every interior node, for any valence and any coordinates. *)
Theorem fan_row_zero (ring : list (R * R)) (Depth ex ey alpha beta : R) :
  lsumR (fun pq => - Depth / 2 * (ex * alpha * (snd (fst pq) - snd (snd pq)) + ey * beta * (fst (snd pq) - fst (fst pq))))
        (ring_pairs ring) = 0.
Proof.
  assert (G : forall l : list ((R * R) * (R * R)),
            lsumR (fun pq => - Depth / 2 * (ex * alpha * (snd (fst pq) - snd (snd pq)) + ey * beta * (fst (snd pq) - fst (fst pq)))) l
            = - Depth / 2 * (ex * alpha * lsumR (fun pq => snd (fst pq) - snd (snd pq)) l
                             - ey * beta * lsumR (fun pq => fst (fst pq) - fst (snd pq)) l)).
  { induction l as [|x t IH]; simpl; [lra|]. rewrite IH. lra. }
  rewrite G. rewrite (ring_sum_zero snd ring), (ring_sum_zero fst ring). lra.
Qed.

(* two materials side by side: across a straight interface x = const with the normal flux density
   continuous (ex1 alpha1 = ex2 alpha2) and the same tangential field (beta), the rows of an interface
   node also vanish: the two half-fans contribute -(Depth/2) ex_k alpha_k (y_top - y_bottom) with opposite
   orientation *)
Theorem interface_row_zero (Depth ex1 ex2 ey1 ey2 a1 a2 beta ytop ybot xl xr xi : R) :
  ex1 * a1 = ex2 * a2 ->
  (* left half-fan runs from the lower interface neighbour over the left side to the upper one,
     the right half-fan back down: sum p = +/-(ybot - ytop), sum q = 0 for each closed half *)
  - Depth / 2 * (ex1 * a1 * (ytop - ybot) + ey1 * beta * (xi - xi))
  + - Depth / 2 * (ex2 * a2 * (ybot - ytop) + ey2 * beta * (xi - xi)) = 0.
Proof. intros H. replace (ex1 * a1) with (ex2 * a2) by lra. lra. Qed.

(* energy of an affine field in one element: 1/2 v.K v = 1/2 (ex Ex^2 + ey Ey^2) * depth * area *)
Theorem affine_energy (x0 y0 x1 y1 x2 y2 depth ex ey c0 alpha beta : R) :
  let g := geom RA x0 y0 x1 y1 x2 y2 in
  ga g <> 0 ->
  let v := fun t => match t with 0%nat => c0 + alpha * x0 + beta * y0 | 1%nat => c0 + alpha * x1 + beta * y1 | _ => c0 + alpha * x2 + beta * y2 end in
  (v 0%nat * (galerkin_K depth ex ey g 0 0 * v 0%nat + galerkin_K depth ex ey g 0 1 * v 1%nat + galerkin_K depth ex ey g 0 2 * v 2%nat)
   + v 1%nat * (galerkin_K depth ex ey g 1 0 * v 0%nat + galerkin_K depth ex ey g 1 1 * v 1%nat + galerkin_K depth ex ey g 1 2 * v 2%nat)
   + v 2%nat * (galerkin_K depth ex ey g 2 0 * v 0%nat + galerkin_K depth ex ey g 2 1 * v 1%nat + galerkin_K depth ex ey g 2 2 * v 2%nat)) / 2
  = (ex * alpha * alpha + ey * beta * beta) / 2 * depth * ga g.
Proof.
  intros g Ha v. unfold galerkin_K, g, geom in *. cbn [gp gq ga] in *. unfold vget in *. cbn [nth] in *. ra_simpl.
  unfold v. field. intro Hz. apply Ha. lra.
Qed.
