(* SchemaGaps.v — the COMMITTED list of (class, key) pairs that a reader of /repo stores into a
   field which the writer never writes (property C14, defect D6), as found by the schema
   translator on the unchanged tree.  Properties_C14.v proves that the regenerated schemas are
   compatible EXCEPT for exactly these pairs (both directions: a pair listed here that the
   sources no longer exhibit fails the proof just like a new gap), and that each pair of
   [known_gaps] really loses information on a load -> save round trip.

   When a gap is repaired in /repo: delete its entry from [known_gaps] below together with its
   [C14_gap_..._refuted] lemma.  Nothing else changes.

   Classes: "Header.fem" / "Header.fee" / "Header.feh" = the global [Key] table of
   FemmReader::parse (+ XReader::handleToken) against FemmProblem::writeProblemDescription for
   the file type. *)
From Coq Require Import String List ZArith Bool.
From XF Require Import Arith Schema SchemaProofs.
From XF.gen Require Import Schemas.
Import ListNotations.
Local Open Scope string_scope.

(* D6: read by FemmReader, never written by writeProblemDescription.  [dt] was repaired in /repo
   (commit 056eb95); [dosmartmesh] / [forcemaxmesh] are recorded as known findings: writing them
   changes the saved .fem files that two enabled tests of the repository compare byte for byte. *)
Definition known_gaps : list (string * string) := [
  ("Header.fem", "[forcemaxmesh]"); ("Header.fem", "[dosmartmesh]");
  ("Header.fee", "[forcemaxmesh]"); ("Header.fee", "[dosmartmesh]");
  ("Header.feh", "[forcemaxmesh]"); ("Header.feh", "[dosmartmesh]")
].

(* keys the shared reader code accepts for every file type although they are no parameter of that
   physics (FEMM 4.2 neither writes nor reads them there); not written, and not a defect *)
Definition not_in_format : list (string * string) := [
  ("Header.fee", "[acsolver]"); ("Header.feh", "[acsolver]")
].

(* one witness per gap: the record equal to the constructor state except for the field of the
   key comes back from print-then-parse with that field changed *)
Lemma C14_gap_dosmartmesh_fem_refuted : gap_loses gen_schemas ("Header.fem", "[dosmartmesh]").
Proof. apply gap_check_sound. vm_compute. reflexivity. Qed.
Lemma C14_gap_dosmartmesh_fee_refuted : gap_loses gen_schemas ("Header.fee", "[dosmartmesh]").
Proof. apply gap_check_sound. vm_compute. reflexivity. Qed.
Lemma C14_gap_dosmartmesh_feh_refuted : gap_loses gen_schemas ("Header.feh", "[dosmartmesh]").
Proof. apply gap_check_sound. vm_compute. reflexivity. Qed.
Lemma C14_gap_forcemaxmesh_fem_refuted : gap_loses gen_schemas ("Header.fem", "[forcemaxmesh]").
Proof. apply gap_check_sound. vm_compute. reflexivity. Qed.
Lemma C14_gap_forcemaxmesh_fee_refuted : gap_loses gen_schemas ("Header.fee", "[forcemaxmesh]").
Proof. apply gap_check_sound. vm_compute. reflexivity. Qed.
Lemma C14_gap_forcemaxmesh_feh_refuted : gap_loses gen_schemas ("Header.feh", "[forcemaxmesh]").
Proof. apply gap_check_sound. vm_compute. reflexivity. Qed.
