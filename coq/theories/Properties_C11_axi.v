(* Properties_C11_axi.v — theorem statements about the AXISYMMETRIC magnetics solvers that belong to C11 (superposition, symmetry, harmonic at omega = 0).
   (the other parts are in Properties_C05_axi.v, Properties_C06_axi.v, Properties_C10_axi.v, Properties_C11_axi.v);
   they belong to (C05, C11, C06, C10).  Models: AsmMAxi.v (FSolver::StaticAxisymmetric; the solution is
   written by WriteStatic2D), AsmMHAxi.v (FSolver::HarmonicAxisymmetric; WriteHarmonic2D).
   Proofs: AsmMAxiProofs.v, AsmMAxiLinearProofs.v, AsmMHAxiProofs.v.  Real-number reading; complex numbers
   are pairs of reals.  Units: lengths in cm, V = A/c with c = 4 pi 1e-5, J in MA/m^2; the code's equations are
   2/(2 pi) times the SI weak form.  Names of the element data follow the code: rn[] = e_r, p[] = e_p, q[] = e_q,
   g[] = e_g (mid-side radii), R = e_R, a = e_a, a_hat = e_ah, R_hat = e_Rh, vol = e_vol = 2 R a_hat. *)
From Coq Require Import ZArith List Bool Arith Lia Reals Lra.
From XF Require Import Arith Sparse CSparse SparseProofs AsmOps AsmOpsProofs AsmE AsmEProofs AsmM AsmMProofs AsmMH AsmMHProofs
  ClosedFormProofs AsmMAxi AsmMAxiProofs AsmMAxiLinearProofs AsmMHAxi AsmMHAxiProofs.
Import ListNotations.
Local Open Scope R_scope.

(* ====================================================================================================== *)
(* C11 — superposition                                                                                    *)
(* ====================================================================================================== *)

(* (a) HEADLINE, through the whole of StaticAxisymmetric's assembly (circuit pre-pass, element loop, point
   currents, SetValue on the axis / at points / along segments, periodic pairs): for three problems with the
   same passive data (mesh, permeabilities, laminations, conductivities, circuit membership, boundary types, c0,
   which point properties prescribe A) whose excitations (J, H_c, circuit currents / voltage gradients, A0 A1 A2,
   c1, point currents, prescribed point A) satisfy S = a S1 + b S2, the systems handed to the linear solver have
   the SAME matrix and  b(S) = a b(S1) + b b(S2). *)
Theorem C11_axi_matrix_independent_rhs_linear :
  forall (a b : R) (AP1 AP2 AP : aprob (F:=R)) (bw : nat) (prec : R),
  exc_lin a b AP1 AP2 AP ->
  let L1 := fst (asmMAxi RA AP1 bw prec) in let L2 := fst (asmMAxi RA AP2 bw prec) in
  let L := fst (asmMAxi RA AP bw prec) in
  lM L = lM L1 /\ lM L = lM L2 /\ forall i, vget RA (lb L) i = a * vget RA (lb L1) i + b * vget RA (lb L2) i.
Proof. exact asmMAxi_matrix_independent_rhs_linear. Qed.
Print Assumptions C11_axi_matrix_independent_rhs_linear.

(* (b) zero excitation gives the zero right-hand side *)
Theorem C11_axi_zero_excitation_zero_rhs :
  forall (AP : aprob (F:=R)) (bw : nat) (prec : R),
  exc_lin 0 0 AP AP AP -> forall i, vget RA (lb (fst (asmMAxi RA AP bw prec))) i = 0.
Proof. exact asmMAxi_zero_excitation. Qed.
Print Assumptions C11_axi_zero_excitation_zero_rhs.

(* (c) element level: the element matrix and permeabilities do not depend on the excitations, the element load
   is the same combination as the excitations *)
Theorem C11_axi_element_linear_in_sources :
  forall (a b : R) (AP1 AP2 AP : aprob (F:=R)) (extRo extRi extZo : R) (res1 res2 res : list (nat * R * R))
         (ela : melem (F:=R) * alogs (F:=R)),
  exc_lin a b AP1 AP2 AP -> res_lin a b res1 res2 res ->
  let r1 := amelem_matrices RA AP1 extRo extRi extZo res1 ela in
  let r2 := amelem_matrices RA AP2 extRo extRi extZo res2 ela in
  let r := amelem_matrices RA AP extRo extRi extZo res ela in
  fst (fst r) = fst (fst r1) /\ fst (fst r) = fst (fst r2) /\ snd r = snd r1 /\ snd r = snd r2 /\
  length (snd (fst r1)) = length (snd (fst r2)) /\ snd (fst r) = vlin a b (snd (fst r1)) (snd (fst r2)).
Proof. intros. apply amelem_matrices_lin; assumption. Qed.
Print Assumptions C11_axi_element_linear_in_sources.

(* (d) the circuit pre-pass: Case is structure, the flat density J and the voltage gradient dV combine linearly *)
Theorem C11_axi_circuit_results_linear :
  forall (a b : R) (AP1 AP2 AP : aprob (F:=R)), exc_lin a b AP1 AP2 AP ->
  res_lin a b (acirc_results RA (ap AP1)) (acirc_results RA (ap AP2)) (acirc_results RA (ap AP)).
Proof. exact acirc_results_lin. Qed.
Print Assumptions C11_axi_circuit_results_linear.

(* (e) the stored matrix is symmetric by construction (one entry per unordered pair) *)
Theorem C11_axi_matrix_symmetric :
  forall (AP : aprob (F:=R)) (bw : nat) (prec : R) (i j : nat),
  mget RA (lM (fst (asmMAxi RA AP bw prec))) i j = mget RA (lM (fst (asmMAxi RA AP bw prec))) j i.
Proof. intros. apply mget_sym. Qed.
Print Assumptions C11_axi_matrix_symmetric.

(* ---- the harmonic axisymmetric solver at omega = 0 ---- *)
(* Each hypothesis names a real difference between the two solvers; outside them the statement is false:
   block_ok: real J, no permanent magnet (HarmonicAxisymmetric ignores H_c), LamType 1/2 refused, no hysteresis
   lag, LamType 0 with (Lam_d = 0 and LamFill = 1: the harmonic solvers ignore LamFill when Lam_d = 0, finding
   C05-2) or (Lam_d <> 0 and zero conductivity: the lamination formula divides by the skin depth);
   label_ok: ProximityMu = 1 (what GetFillFactor sets for Frequency == 0); lines_real: real c0, c1;
   res_embed: same circuit Case (0 or 1) with real J, dV — a "total current" circuit that contains conductivity is
   Case 2 in HarmonicAxisymmetric (its voltage gradient is an extra unknown whose row vanishes at omega = 0). *)

(* (f) element level: with w = 0 the element matrix and load of HarmonicAxisymmetric are those of
   StaticAxisymmetric, imaginary parts zero (emb x = (x, 0)) *)
Theorem C11_axi_harmonic_omega0_element :
  forall (AP : aprob (F:=R)) (X : list (hexp (F:=R))) (PM : list (R * R)) (extRo extRi extZo : R)
         (res : list (nat * R * R)) (hres : list (nat * (R * R) * (R * R))) (el : melem (F:=R)) (lg : alogs (F:=R)),
  res_embed res hres -> lines_real AP -> block_ok AP X (mblk el) -> label_ok AP PM el ->
  fst (e_mu AP extRo extRi extZo el) <> 0 -> snd (e_mu AP extRo extRi extZo el) <> 0 ->
  let h := haelem_matrices RA AP X PM 0 extRo extRi extZo hres (el, lg) in
  let r := amelem_matrices RA AP extRo extRi extZo res (el, lg) in
  fst (fst (fst h)) = map emb (fst (fst r)) /\ snd (fst (fst h)) = map emb (snd (fst r)).
Proof. intros. apply haelem_matrices_omega0; assumption. Qed.
Print Assumptions C11_axi_harmonic_omega0_element.

(* (g) the circuit pre-passes agree when the excitations are real and StaticAxisymmetric's CircInt2 vanishes for
   every "total current" circuit *)
Theorem C11_axi_harmonic_omega0_circuits :
  forall (P : mprob (F:=R)),
  (forall i, bJim (nth i (mblocks P) (dmblock RA)) = 0) ->
  (forall i, cAim (nth i (mcircs P) (dmcirc RA)) = 0 /\ cdVim (nth i (mcircs P) (dmcirc RA)) = 0) ->
  (forall i, (i < length (mcircs P))%nat -> cType (nth i (mcircs P) (dmcirc RA)) = 0%nat ->
     vget RA (snd (fst (acirc_ints RA P (length (mcircs P))))) i = 0) ->
  res_embed (acirc_results RA P) (hacirc_results RA P).
Proof. exact hacirc_results_embed. Qed.
Print Assumptions C11_axi_harmonic_omega0_circuits.

(* (h) system level, for every problem satisfying the hypotheses, any mesh: after the element loop, the point
   currents and the circuit constraints the harmonic system at Frequency = 0 is the NEGATED static system on the
   node block (HarmonicAxisymmetric assembles L += Me, b += be, StaticAxisymmetric L -= Me, b -= be): matrix
   real parts equal up to that sign, imaginary parts zero, right-hand side likewise.
   PARTIAL: the SetValue / periodicity stage that follows is not covered.  There the code differs:
   staticaxi.cpp:648 tests fabs(x) and :676 guards SetValue by x != 0, harmonicaxi.cpp:651,686 do neither (a node
   with x = 0 exactly is decoupled from all others — p_j r_j = q_j r_j = 0 — so the results do not differ). *)
Theorem C11_axi_harmonic_omega0_system_partial :
  forall (AP : aprob (F:=R)) (X : list (hexp (F:=R))) (PM : list (R * R)) (bw bw' : nat) (prec prec' : R),
  let P := ap AP in let nn := length (mnodes P) in let nc := length (mcircs P) in let u := aunit RA P in
  lines_real AP ->
  (forall i, bJim (nth i (mblocks P) (dmblock RA)) = 0) ->
  (forall i, cAim (nth i (mcircs P) (dmcirc RA)) = 0 /\ cdVim (nth i (mcircs P) (dmcirc RA)) = 0) ->
  (forall i, pJim (nth i (mpoints P) (dmpoint RA)) = 0) ->
  (forall i, (i < nc)%nat -> cType (nth i (mcircs P) (dmcirc RA)) = 0%nat -> vget RA (snd (fst (acirc_ints RA P nc))) i = 0) ->
  Forall (el_omega0_ok AP X PM (aRo_raw AP * u) (aRi_raw AP * u) (aZo_raw AP * u)) (combine (melems P) (alg AP)) ->
  Forall (fun ela : melem (F:=R) * alogs (F:=R) => elem_okM nn (fst ela)) (combine (melems P) (alg AP)) ->
  let Ls := asmMAxi_raw RA AP bw' prec' (acirc_results RA P) in
  let Lh := asmMHAxi_raw RA AP X PM 0 bw prec (hacirc_results RA P) in
  length (lM Ls) = nn -> length (lb Ls) = nn ->
  (forall i j, (i < nn)%nat -> (j < nn)%nat -> mget (CA RA) (CSparse.cM Lh) i j = (- mget RA (lM Ls) i j, 0)) /\
  (forall i, (i < nn)%nat -> vget (CA RA) (cb Lh) i = (- vget RA (lb Ls) i, 0)).
Proof. intros. apply asmMHAxi_raw_omega0_entries; assumption. Qed.
Print Assumptions C11_axi_harmonic_omega0_system_partial.

