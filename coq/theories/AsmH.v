(* AsmH.v — executable model of HSolver::AnalyzeProblem and HSolver::ChargeOnConductor
   (cfemm/hsolver/hsolver.cpp), statement by statement, on the post-LoadMesh / post-LoadPrev /
   post-Cuthill data the solver works on.  The statements that are character for character those
   of ESolver::AnalyzeProblem (book-keeping of prescribed values, element-level elimination
   with the condK/condB accumulators, the scatter into the global matrix with the
   floating-conductor redirection, the periodic boundary conditions) are NOT copied: AsmE's
   definitions are applied to the electrostatic "view" [eview] of the heat problem.
   No proofs in this file. *)
From Coq Require Import ZArith List Bool Arith.
From XF Require Import Arith Sparse AsmE KT.
Import ListNotations.

Section AsmH.
  Context {F : Type} (A : Arith F).
  Local Notation "x +. y" := (aadd A x y) (at level 50, left associativity).
  Local Notation "x -. y" := (asub A x y) (at level 50, left associativity).
  Local Notation "x *. y" := (amul A x y) (at level 40, left associativity).
  Local Notation "x /. y" := (adiv A x y) (at level 40, left associativity).
  Local Notation zero := (azero A).
  Local Notation one := (aone A).
  Local Notation "'#' z" := (aofZ A z) (at level 9).

  (* CHMaterialProp: Kx Ky Kt qv and the T-k table Kn[0..npts-1] (npts = length of the list) *)
  Record hblock := mkHBlock { hkx : F; hky : F; hkt : F; hqv : F; htk : list (F * F) }.
  (* CHBoundaryProp *)
  Record hline := mkHLine { hfmt : nat; hTset : F; hTinf : F; hqs : F; hbeta : F; hh : F }.
  Record hprob := mkHProb {
    haxi : bool; hdepth_raw : F; hunit_idx : nat; hextRo_raw : F; hextRi_raw : F; hextZo_raw : F;
    hdT : F; hprec : F;
    hnodes : list (enode (F:=F)); helems : list eelem; hblocks : list hblock; hlines : list hline;
    hpoints : list (epoint (F:=F)); hcircs : list (ecirc (F:=F)); hlabel_ext : list bool;
    hpbcs : list (nat * nat * nat);
    htprev : list F }.

  Definition dhblock := mkHBlock zero zero zero zero [].
  Definition dhline := mkHLine 0 zero zero zero zero zero.

  (* constexpr double units[]={0.0254,0.001,0.01,1,2.54e-5,1.e-6}; *)
  Definition hunits : list F :=
    [adec A 254 (-4); adec A 1 (-3); adec A 1 (-2); one; adec A 254 (-7); adec A 1 (-6)].
  (* #define Ksb 5.67032e-8 *)
  Definition ksb : F := adec A 567032 (-13).

  (* the part of the problem the statements shared with esolver.cpp read *)
  Definition eview (P : hprob) : eprob (F:=F) :=
    mkEProb (haxi P) (hdepth_raw P) (hunit_idx P) (hextRo_raw P) (hextRi_raw P) (hextZo_raw P) one
            (hnodes P) (helems P) []
            (map (fun l => mkELine (hfmt l) (hTset l) zero zero zero) (hlines P))
            (hpoints P) (hcircs P) (hlabel_ext P) (hpbcs P).

  (* ---- the scan for a nonlinear conductivity:
         for(i=0;i<BOUND;i++) if (blockproplist[meshele[i].blk].npts>0){IsNonlinear=true;break;}
     BOUND is NumNodes in hsolver.cpp as it is (although i indexes meshele); an index past the
     end of meshele is undefined behaviour in C++ and reads as "no table" here. ---- *)
  Definition elem_has_table (P : hprob) (i : nat) : bool :=
    match nth_error (helems P) i with
    | Some el => match nth_error (hblocks P) (eblk el) with
                 | Some blk => Nat.ltb 0 (length (htk blk))
                 | None => false
                 end
    | None => false
    end.
  Definition nonlinear_scan (P : hprob) (bound : nat) : bool := existsb (elem_has_table P) (seq 0 bound).
  Definition scan_bound_asis (P : hprob) : nat := length (hnodes P).      (* i<NumNodes *)
  Definition scan_bound_fixed (P : hprob) : nat := length (helems P).     (* i<NumEls   *)

  (* ---- book-keeping: L.V keeps its old entries where nothing is prescribed ---- *)
  Definition hbookkeeping (P : hprob) (nn ncirc : nat) (Vinit : list F) : list F * list Z :=
    let '(Vb, Q) := bookkeeping A (eview P) ncirc in
    (map (fun iv => let '(i, v) := iv in
                    if Nat.ltb i nn && negb (Z.eqb (nth i Q (-2)%Z) (-2)%Z) then vget A Vb i else v)
         (combine (seq 0 (length Vinit)) Vinit), Q).

  (* pow(x,3.) / pow(x,4.) when no libm value is supplied *)
  Definition pow3 (x : F) : F := x *. x *. x.
  Definition pow4 (x : F) : F := x *. x *. x *. x.

  (* kn = (GetK(Vo[n0]) + GetK(Vo[n1]) + GetK(Vo[n2]))/3. *)
  Definition kn_of (P : hprob) (Vo : list F) (el : eelem) : F * F :=
    let blk := nth (eblk el) (hblocks P) dhblock in
    let g := fun j => getk A (hkx blk) (hky blk) (htk blk) (vget A Vo (tri_get (ep el) j)) in
    let s := cadd A (cadd A (g 0) (g 1)) (g 2) in
    (fst s /. #3, snd s /. #3).

  (* one edge of one element; acc = (Depth, Me, be, unused libm values, radiation seen) *)
  Definition hedge_step (P : hprob) (Vo : list F) (xs : list F) (g : egeom) (el : eelem)
    (acc : F * list F * list F * list (F * F * F) * bool) (j : nat)
    : F * list F * list F * list (F * F * F) * bool :=
      let '(Depth, Me, be, pows, rad) := acc in
      match tri_get (ee el) j with
      | None => acc
      | Some e =>
          let k := nxt j in
          let lp := nth e (hlines P) dhline in
          let xj := vget A xs j in
          let xk := vget A xs k in
          let Depth := if haxi P then api A *. (xj +. xk) else Depth in
          let bf := hfmt lp in
          if Nat.eqb bf 1 || Nat.eqb bf 2 || Nat.eqb bf 3 then
            let '(c0, c1, pows, rad) :=
              if Nat.eqb bf 1 then (zero, hqs lp, pows, rad)
              else if Nat.eqb bf 2 then (hh lp, aneg A (hh lp) *. hTinf lp, pows, rad)
              else
                let Tlast := (vget A Vo (tri_get (ep el) j) +. vget A Vo (tri_get (ep el) k)) /. #2 in
                let '(p3, pi4, p4, pows) :=
                  match pows with
                  | (a, b, c) :: rest => (a, b, c, rest)
                  | [] => (pow3 Tlast, pow4 (hTinf lp), pow4 Tlast, [])
                  end in
                (#4 *. hbeta lp *. ksb *. p3, aneg A (hbeta lp *. ksb *. (pi4 +. #3 *. p4)), pows, true) in
            let l := vget A (gl g) j in
            let '(Me, be) :=
              if haxi P then
                let K := aneg A #2 *. api A *. c0 *. l /. #6 in
                let Me := m3add A Me j j (K *. #2 *. (#3 *. xj +. xk) /. #4) in
                let Me := m3add A Me k k (K *. #2 *. (xj +. #3 *. xk) /. #4) in
                let Me := m3add A Me j k (K *. (xj +. xk) /. #2) in
                let Me := m3add A Me k j (K *. (xj +. xk) /. #2) in
                let K := #2 *. api A *. c1 *. l /. #2 in
                let be := v3add A be j (K *. (#2 *. xj +. xk) /. #3) in
                let be := v3add A be k (K *. (xj +. #2 *. xk) /. #3) in
                (Me, be)
              else
                let K := aneg A Depth *. c0 *. l /. #6 in
                let Me := m3add A Me j j (K *. #2) in
                let Me := m3add A Me k k (K *. #2) in
                let Me := m3add A Me j k K in
                let Me := m3add A Me k j K in
                let K := Depth *. c1 *. l /. #2 in
                (Me, v3add A (v3add A be j K) k K) in
            (Depth, Me, be, pows, rad)
          else (Depth, Me, be, pows, rad)
      end.

  Definition hedge_terms (P : hprob) (Vo : list F) (xs : list F) (g : egeom) (el : eelem) (depth0 : F)
    (Me be : list F) (pows : list (F * F * F)) : F * list F * list F * list (F * F * F) * bool :=
    fold_left (hedge_step P Vo xs g el) [0;1;2] (depth0, Me, be, pows, false).

  (* the lumped time-transient term  K = -Depth*Kt*a/(3.*dT) *)
  Definition transient_K (P : hprob) (Depth : F) (blk : hblock) (a : F) : F :=
    aneg A Depth *. hkt blk *. a /. (#3 *. hdT P).

  (* element matrices before the prescribed-value processing:
     (Depth', kludge', Me, be, unused libm values, radiation seen) *)
  Definition helem_matrices (P : hprob) (Vo : list F) (extRo extRi extZo : F) (Depth0 kl0 : F)
    (pows : list (F * F * F)) (el : eelem) : F * F * list F * list F * list (F * F * F) * bool :=
    let n := ep el in
    let nd := fun j => nth (tri_get n j) (hnodes P) (dnode A) in
    let g := geom A (nx (nd 0)) (ny (nd 0)) (nx (nd 1)) (ny (nd 1)) (nx (nd 2)) (ny (nd 2)) in
    let xs := [nx (nd 0); nx (nd 1); nx (nd 2)] in
    let kn := kn_of P Vo el in
    let '(Depth, kludge) :=
      if haxi P then
        let Depth := #2 *. api A *. gr g in
        let kludge :=
          if nth (elbl el) (hlabel_ext P) false then
            let z := (ny (nd 0) +. ny (nd 1) +. ny (nd 2)) /. #3 -. extZo in
            (gr g *. gr g +. z *. z) /. (extRi *. extRo)
          else one in
        (Depth, kludge)
      else (Depth0, kl0) in
    let blk := nth (eblk el) (hblocks P) dhblock in
    let Me := repeat zero 9 in
    let be := repeat zero 3 in
    let K := aneg A Depth *. fst kn /. (#4 *. ga g) /. kludge in
    let Me := stiff_add A Me K (gp g) in
    let K := aneg A Depth *. snd kn /. (#4 *. ga g) /. kludge in
    let Me := stiff_add A Me K (gq g) in
    let '(Me, be) :=
      if aeqb A (hdT P) zero then (Me, be)
      else
        let K := transient_K P Depth blk (ga g) in
        let Me := m3add A (m3add A (m3add A Me 0 0 K) 1 1 K) 2 2 K in
        let tp := fun j => vget A (htprev P) (tri_get n j) in
        (Me, v3add A (v3add A (v3add A be 0 (K *. tp 0)) 1 (K *. tp 1)) 2 (K *. tp 2)) in
    let Kq := aneg A Depth *. hqv blk *. ga g /. #3 in
    let be := v3add A (v3add A (v3add A be 0 Kq) 1 Kq) 2 Kq in
    let '(Depth, Me, be, pows, rad) := hedge_terms P Vo xs g el Depth Me be pows in
    (Depth, kludge, Me, be, pows, rad).

  (* state threaded through the element loop *)
  Record hstate := mkHS { hsDepth : F; hsKludge : F; hsM : list (list (nat * F)); hsb : list F;
                          hsCondK : list F; hsCondB : list F; hsPows : list (F * F * F); hsRad : bool }.

  Definition helem_step (P : hprob) (nn : nat) (Vo : list F) (extRo extRi extZo : F) (V : list F) (Q : list Z)
    (s : hstate) (el : eelem) : hstate :=
    let '(Depth, kludge, Me, be, pows, rad) :=
      helem_matrices P Vo extRo extRi extZo (hsDepth s) (hsKludge s) (hsPows s) el in
    let '(Me, be, cK, cB) := presc_terms A (eview P) V Q (ep el) Me be (hsCondK s) (hsCondB s) in
    let '(M, b) := scatter A (eview P) nn (ep el) Me be (hsM s) (hsb s) in
    mkHS Depth kludge M b cK cB pows (hsRad s || rad).

  (* point heat sources and conductor book-keeping; returns (Depth, b, Q) *)
  Definition point_sources (P : hprob) (Depth : F) (b : list F) (Q : list Z) : F * list F * list Z :=
    fold_left (fun acc in_ =>
      let '(Depth, b, Q) := acc in
      let '(i, n) := in_ in
      let '(Depth, b, Q) :=
        match nbm n with
        | Some m =>
            if Z.eqb (nth i Q 0%Z) (-2)%Z then
              let Depth := if haxi P then #2 *. api A *. nx n else Depth in
              let b := vset b i (vget A b i +. Depth *. pqp (nth m (hpoints P) (dpoint A))) in
              (Depth, b, vset Q i (-1)%Z)
            else (Depth, b, Q)
        | None => (Depth, b, Q)
        end in
      let Q := match ncond n with Some c => vset Q i (Z.of_nat c) | None => Q end in
      (Depth, b, Q)) (combine (seq 0 (length (hnodes P))) (hnodes P)) (Depth, b, Q).

  Definition hconductor_rows (P : hprob) (nn : nat) (cK cB : list F) (L : lin (F:=F)) : lin :=
    fold_left (fun L ic =>
      let '(i, cc) := ic in
      let k := nn + i in
      let L :=
        if Nat.eqb (ctype cc) 1 then
          let K := mget A (lM L) 0 0 in
          lsetb (lput L K k k) k (K *. cV cc)
        else L in
      if Nat.eqb (ctype cc) 0 then
        let K := fold_left (fun K j => if Nat.eqb j k then K else K +. mget A (lM L) k j) (seq 0 (ln L)) (vget A cK i) in
        if aeqb A K zero then lput L (mget A (lM L) 0 0) k k
        else lsetb (lput L (aneg A K) k k) k (cq cc +. vget A cB i)
      else L) (combine (seq 0 (length (hcircs P))) (hcircs P)) L.

  (* ---- one pass of the do{...}while body up to (not including) PCGSolve.
     L is the linear problem as the pass finds it (its V holds the previous iterate);
     Depth0 is the member Depth at the top of the pass.
     Result: (system with V = prescribed values over the old V, Q, Depth member, radiation seen) ---- *)
  Definition hpass (P : hprob) (L : lin (F:=F)) (Depth0 : F) (pows : list (F * F * F))
    : lin (F:=F) * list Z * F * bool :=
    let nn := length (hnodes P) in
    let nc := length (hcircs P) in
    let u := nth (hunit_idx P) hunits one in
    let extRo := hextRo_raw P *. u in
    let extRi := hextRi_raw P *. u in
    let extZo := hextZo_raw P *. u in
    let Vo := firstn nn (Sparse.lV L) in                               (* Vo[i]=L.V[i] *)
    let Lw := wipe A L in                                       (* L.Wipe() *)
    let '(V, Q) := hbookkeeping P nn nc (Sparse.lV L) in
    let s := fold_left (helem_step P nn Vo extRo extRi extZo V Q) (helems P)
                       (mkHS Depth0 one (lM Lw) (lb Lw) (repeat zero nc) (repeat zero nc) pows false) in
    let '(Depth, b, Q) := point_sources P (hsDepth s) (hsb s) Q in
    let L1 := mkLin (ln L) (lbdw L) (hsM s) b V (lprec L) (llam L) in
    let L1 := apply_pbcs A (eview P) L1 in
    let L1 := hconductor_rows P nn (hsCondK s) (hsCondB s) L1 in
    (L1, Q, Depth, hsRad s).

  (* the convergence test of the outer iteration:
       for i<NumNodes: e1+=(L.V[i]-Vo[i])*(L.V[i]-Vo[i]); e2+=(Vo[i]*Vo[i]);
       if(e2!=0) if(sqrt(e1/e2) < Precision*100.) IsNonlinear=false;               *)
  Definition outer_converged (P : hprob) (Vo Vn : list F) : bool :=
    let nn := length (hnodes P) in
    let '(e1, e2) :=
      fold_left (fun e i =>
        let d := vget A Vn i -. vget A Vo i in
        (fst e +. d *. d, snd e +. vget A Vo i *. vget A Vo i)) (seq 0 nn) (zero, zero) in
    if aeqb A e2 zero then false else altb A (asqrt A (e1 /. e2)) (hprec P *. #100).

  (* ---- the outer iteration  do{ pass; PCGSolve(iter++) }while(IsNonlinear)  with fuel.
     [solve it L] stands for L.PCGSolve(it): None = the solver returned false;
     [powsf it] are the libm values of pass [it] ([] = compute by multiplication).
     The kludge variable is reset by every axisymmetric element and is 1 otherwise, the member
     Depth is carried from pass to pass.
     Result: (final system incl. solution, Q, number of passes). ---- *)
  Fixpoint outer (fuel : nat) (P : hprob) (solve : nat -> lin (F:=F) -> option (list F))
    (powsf : nat -> list (F * F * F)) (L : lin (F:=F)) (Depth : F) (nonlin : bool) (it : nat)
    : option (lin (F:=F) * list Z * nat) :=
    match fuel with
    | O => None
    | S fuel' =>
        let Vo := firstn (length (hnodes P)) (Sparse.lV L) in
        let '(L1, Q, Depth', rad) := hpass P L Depth (powsf it) in
        match solve it L1 with
        | None => None
        | Some Vn =>
            let L2 := mkLin (ln L1) (lbdw L1) (lM L1) (lb L1) Vn (lprec L1) (llam L1) in
            let nonlin := nonlin || rad in
            let nonlin := if nonlin then negb (outer_converged P Vo Vn) else false in
            if nonlin then outer fuel' P solve powsf L2 Depth' nonlin (S it)
            else Some (L2, Q, S it)
        end
    end.

  (* HSolver::AnalyzeProblem up to the conductor heat flows; [bound] is the bound of the scan *)
  Definition analyze (fuel : nat) (P : hprob) (bound : nat) (solve : nat -> lin (F:=F) -> option (list F))
    (powsf : nat -> list (F * F * F)) (L : lin (F:=F)) : option (lin (F:=F) * list Z * nat) :=
    let u := nth (hunit_idx P) hunits one in
    outer fuel P solve powsf L (hdepth_raw P *. u) (nonlinear_scan P bound) 0.

  (* HSolver::ChargeOnConductor; Depth, extRo, extRi, extZo are the members after AnalyzeProblem
     (raw*units; Depth only meaningful for planar problems).
     [hoc_elem] is the body of the element loop, Pv the indicator vector L.P.
     [extfix] selects the variant of the source: false = as shipped (elements of the
     conformally mapped external region are integrated with the un-warped conductivity although
     they were assembled with k/kludge), true = the repaired code (a/=kludge for such elements). *)
  Definition ext_kludge (P : hprob) (extRo extRi extZo : F) (el : eelem) : F :=
    let nd := fun j => nth (tri_get (ep el) j) (hnodes P) (dnode A) in
    let r := (nx (nd 0) +. nx (nd 1) +. nx (nd 2)) /. #3 in
    let z := (ny (nd 0) +. ny (nd 1) +. ny (nd 2)) /. #3 -. extZo in
    (r *. r +. z *. z) /. (extRi *. extRo).

  Definition hoc_elem (P : hprob) (extfix : bool) (extRo extRi extZo : F) (Depth : F) (V Pv : list F)
    (Z : F) (el : eelem) : F :=
      let n := ep el in
      let nj := fun j => tri_get n j in
      if aeqb A (vget A Pv (nj 0)) zero && aeqb A (vget A Pv (nj 1)) zero && aeqb A (vget A Pv (nj 2)) zero
      then Z
      else
        let nd := fun j => nth (nj j) (hnodes P) (dnode A) in
        let b := [ny (nd 1) -. ny (nd 2); ny (nd 2) -. ny (nd 0); ny (nd 0) -. ny (nd 1)] in
        let c := [nx (nd 2) -. nx (nd 1); nx (nd 0) -. nx (nd 2); nx (nd 1) -. nx (nd 0)] in
        let da := vget A b 0 *. vget A c 1 -. vget A b 1 *. vget A c 0 in
        let a := da /. #2 in
        let a := if haxi P then a *. (#2 *. api A *. (nx (nd 0) +. nx (nd 1) +. nx (nd 2)) /. #3)
                 else a *. Depth in
        let a := if extfix && haxi P && nth (elbl el) (hlabel_ext P) false
                 then a /. ext_kludge P extRo extRi extZo el else a in
        let blk := nth (eblk el) (hblocks P) dhblock in
        let '(kn, vx, vy, Dx, Dy) :=
          fold_left (fun acc k =>
            let '(kn, vx, vy, Dx, Dy) := acc in
            let gk := getk A (hkx blk) (hky blk) (htk blk) (vget A V (nj k)) in
            ((fst kn +. fst gk /. #3, snd kn +. snd gk /. #3),
             vx -. (vget A Pv (nj k) *. vget A b k) /. da,
             vy -. (vget A Pv (nj k) *. vget A c k) /. da,
             Dx -. (vget A V (nj k) *. vget A b k) /. da,
             Dy -. (vget A V (nj k) *. vget A c k) /. da)) [0;1;2] ((zero, zero), zero, zero, zero, zero) in
        let Dx := Dx *. fst kn in
        let Dy := Dy *. snd kn in
        Z +. a *. (Dx *. vx +. Dy *. vy).

  Definition conductor_indicator (P : hprob) (cond : nat) : list F :=
    map (fun n => match ncond n with
                  | Some c => if Nat.eqb c cond then one else zero
                  | None => zero end) (hnodes P).

  Definition heat_on_conductor (P : hprob) (extfix : bool) (Depth : F) (V : list F) (cond : nat) : F :=
    let u := nth (hunit_idx P) hunits one in
    fold_left (hoc_elem P extfix (hextRo_raw P *. u) (hextRi_raw P *. u) (hextZo_raw P *. u) Depth V
                        (conductor_indicator P cond)) (helems P) zero.
End AsmH.
