(* BHEnergyProofs.v — proofs about BHEnergy.v (real reading). *)
From Coq Require Import ZArith List Bool Arith Lia Reals Lra Psatz.
Set Warnings "-ambiguous-paths".
From Coquelicot Require Import Coquelicot.
From XF Require Import Arith BH BHGauss BHProofs BHEnergy.
Import ListNotations.
Local Open Scope R_scope.

Definition bmag (b1 b2 : R) : R := sqrt (b1 * b1 + b2 * b2).

Lemma bmag_nonneg b1 b2 : 0 <= bmag b1 b2.
Proof. apply sqrt_pos. Qed.

Lemma bmag_sq b1 b2 : bmag b1 b2 * bmag b1 b2 = b1 * b1 + b2 * b2.
Proof. unfold bmag. apply sqrt_sqrt. nra. Qed.

(* in-plane laminations / no laminations: the energy density is GetEnergy at the magnitude of the flux density *)
Lemma doEnergy_lam0 (m : mat (F:=R)) t b1 b2 :
  doEnergy RA m 0 t b1 b2 = getEnergy RA m (bmag b1 b2).
Proof. reflexivity. Qed.

Lemma doCoEnergy_lam0 (m : mat (F:=R)) t b1 b2 :
  doCoEnergy RA m 0 t b1 b2 = getCoEnergy RA m (bmag b1 b2).
Proof. reflexivity. Qed.

(* ... hence the integral of the reported H from 0 to |b| ... *)
Theorem doEnergy_lam0_is_RInt (m : mat (F:=R)) t b1 b2 :
  tbl_wf m -> (2 <= length (mB m))%nat -> hd 0 (mB m) = 0 ->
  is_RInt (fun x => fst (getH RA m x)) 0 (bmag b1 b2) (doEnergy RA m 0 t b1 b2).
Proof.
  intros Hwf Hlen H0. rewrite doEnergy_lam0. rewrite <- H0 at 1.
  apply getEnergy_is_RInt; auto; rewrite H0; [lra | apply bmag_nonneg].
Qed.

(* ... and depends on the direction of the flux density only through its magnitude *)
Theorem doEnergy_lam0_isotropic (m : mat (F:=R)) t b1 b2 c1 c2 :
  b1 * b1 + b2 * b2 = c1 * c1 + c2 * c2 -> doEnergy RA m 0 t b1 b2 = doEnergy RA m 0 t c1 c2.
Proof. intros E. rewrite !doEnergy_lam0. unfold bmag. rewrite E. reflexivity. Qed.

(* energy + coenergy = |b| H(|b|) *)
Theorem doEnergy_plus_doCoEnergy_lam0 (m : mat (F:=R)) t b1 b2 :
  doEnergy RA m 0 t b1 b2 + doCoEnergy RA m 0 t b1 b2 = bmag b1 b2 * getH_base RA m (bmag b1 b2).
Proof.
  rewrite doEnergy_lam0, doCoEnergy_lam0. unfold getCoEnergy. ra_simpl.
  rewrite (Rabs_pos_eq _ (bmag_nonneg b1 b2)). ring.
Qed.

(* laminations on edge: iron and air in series across the sheets (the whole flux density b2 crosses both), in parallel along
   them (the iron carries b1 / fill) *)
Theorem doEnergy_lam1 (m : mat (F:=R)) t b1 b2 :
  doEnergy RA m 1 t b1 b2
  = t * getEnergy RA m (sqrt (b1 / t * (b1 / t) + b2 * b2)) + (1 - t) * b2 * b2 / (2 * mMuo m).
Proof. reflexivity. Qed.

Theorem doEnergy_lam2 (m : mat (F:=R)) t b1 b2 :
  doEnergy RA m 2 t b1 b2
  = t * getEnergy RA m (sqrt (b2 / t * (b2 / t) + b1 * b1)) + (1 - t) * b1 * b1 / (2 * mMuo m).
Proof. reflexivity. Qed.

(* a fill factor of one makes the lamination type irrelevant *)
Theorem doEnergy_fill_one (m : mat (F:=R)) lt b1 b2 : (lt <= 2)%nat ->
  doEnergy RA m lt 1 b1 b2 = getEnergy RA m (bmag b1 b2) /\ doCoEnergy RA m lt 1 b1 b2 = getCoEnergy RA m (bmag b1 b2).
Proof.
  intros Hl. destruct lt as [|[|[|k]]]; [split; reflexivity| | |lia].
  - unfold doEnergy, doCoEnergy, do_nl, mixed, bmag. ra_simpl.
    replace (b1 / 1 * (b1 / 1) + b2 * b2) with (b1 * b1 + b2 * b2) by field. split; unfold Rdiv; ring.
  - unfold doEnergy, doCoEnergy, do_nl, mixed, bmag. ra_simpl.
    replace (b2 / 1 * (b2 / 1) + b1 * b1) with (b1 * b1 + b2 * b2) by field. split; unfold Rdiv; ring.
Qed.

(* the energy of the air share is never negative, and the iron share is weighted with the fill factor exactly once *)
Theorem doEnergy_lam1_at_zero_cross_flux (m : mat (F:=R)) t b1 : 0 < t ->
  doEnergy RA m 1 t b1 0 = t * getEnergy RA m (b1 / t).
Proof.
  intros Ht. rewrite doEnergy_lam1.
  replace (b1 / t * (b1 / t) + 0 * 0) with ((b1 / t) * (b1 / t)) by ring.
  fold (Rsqr (b1 / t)). rewrite sqrt_Rsqr_abs. unfold getEnergy. ra_simpl. rewrite Rabs_Rabsolu. unfold Rdiv. ring.
Qed.

(* reduction to the linear case: a straight-line table H = k B stores k |b|^2 / 2 *)
Theorem line_doEnergy_lam0 (k : Cx) Bd mux muo t b1 b2 :
  incr Bd -> Bd <> [] -> hd 0 Bd = 0 ->
  doEnergy RA (line_mat k Bd mux muo) 0 t b1 b2 = fst k * (b1 * b1 + b2 * b2) / 2.
Proof.
  intros Hi Hne H0. rewrite doEnergy_lam0, line_getEnergy by assumption. rewrite bmag_sq. reflexivity.
Qed.

(* ... on edge (LamType 1): iron share k (b1/t)^2 + k b2^2 weighted with t, air share (1-t) b2^2 / (2 muo) *)
Theorem line_doEnergy_lam1 (k : Cx) Bd mux muo t b1 b2 :
  incr Bd -> Bd <> [] -> hd 0 Bd = 0 -> t <> 0 ->
  doEnergy RA (line_mat k Bd mux muo) 1 t b1 b2
  = (b1 * b1 * (fst k / t) + b2 * b2 * (t * fst k + (1 - t) / muo)) / 2.
Proof.
  intros Hi Hne H0 Ht. rewrite doEnergy_lam1, line_getEnergy by assumption.
  rewrite sqrt_sqrt by nra. unfold line_mat. cbn [mMuo]. unfold Rdiv.
  destruct (Req_dec muo 0) as [E|E].
  - subst muo. rewrite Rmult_0_r, Rinv_0. field. exact Ht.
  - field. split; assumption.
Qed.

Lemma post_energy_example :
  let m := line_mat (100, 0) [0; 1; 2] 1 1 in
  incr [0; 1; 2] /\ doEnergy RA m 0 (1 / 2) 3 4 = 1250.
Proof.
  split; [repeat constructor; lra|].
  rewrite line_doEnergy_lam0; [cbn [fst]; lra | repeat constructor; lra | discriminate | reflexivity].
Qed.
