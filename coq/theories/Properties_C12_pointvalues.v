(* Properties_C12_pointvalues.v — theorem statements of the extension XPV of property C12: what the point-value code of the three
   post-processors returns beyond Locate.v (magnetics completely for linear materials: planar / axisymmetric, static /
   time-harmonic, laminations, wire regions, exterior region, circuits, magnets; electrostatics and heat flow with the
   exterior-region factor and temperature-dependent conductivity).  Model: PointVals.v (on IntegralsE/H/M.v, KT.v);
   proofs: PointValsProofs.v.  Real-number reading; complex numbers are pairs of reals; smoothing off.
   Names of the returned values follow CMPointVals / CSPointVals / CHPointVals (uA, uB1, ..., see PointVals.mpv). *)
From Coq Require Import ZArith List Bool Arith Lia Reals Lra.
From XF Require Import Arith Sparse AsmE KT Integrals IntegralsE IntegralsH IntegralsM AsmMHProofs PointVals PointValsProofs.
Import ListNotations.
Local Open Scope R_scope.

(* ====================================================================================================== *)
(* (a) the potential of planar problems (V, T, A): nodal values, linear interpolant, continuity            *)
(* ====================================================================================================== *)
(* [shape] holds the a, b, c, da of the code; da_r is da = twice the signed area *)
Theorem C12_pv_interp_nodal :
  forall x0 y0 x1 y1 x2 y2 v0 v1 v2, da_r x0 y0 x1 y1 x2 y2 <> 0 ->
  let s := shape RA x0 y0 x1 y1 x2 y2 in
  interp_r RA s v0 v1 v2 x0 y0 = v0 /\ interp_r RA s v0 v1 v2 x1 y1 = v1 /\ interp_r RA s v0 v1 v2 x2 y2 = v2.
Proof. exact interp_r_nodal. Qed.
Print Assumptions C12_pv_interp_nodal.

(* it IS the linear interpolant: nodal values sampled from any affine function give that function back *)
Theorem C12_pv_interp_is_the_linear_interpolant :
  forall x0 y0 x1 y1 x2 y2 al be ga x y, da_r x0 y0 x1 y1 x2 y2 <> 0 ->
  interp_r RA (shape RA x0 y0 x1 y1 x2 y2) (al + be * x0 + ga * y0) (al + be * x1 + ga * y1) (al + be * x2 + ga * y2) x y
  = al + be * x + ga * y.
Proof. exact interp_r_affine. Qed.
Print Assumptions C12_pv_interp_is_the_linear_interpolant.

Theorem C12_pv_interp_barycentric :
  forall x0 y0 x1 y1 x2 y2 v0 v1 v2 x y, da_r x0 y0 x1 y1 x2 y2 <> 0 ->
  let s := shape RA x0 y0 x1 y1 x2 y2 in
  let L := fun i => wgt RA s i x y / sda s in
  L 0%nat + L 1%nat + L 2%nat = 1 /\ interp_r RA s v0 v1 v2 x y = v0 * L 0%nat + v1 * L 1%nat + v2 * L 2%nat.
Proof. exact interp_r_barycentric. Qed.
Print Assumptions C12_pv_interp_barycentric.

(* continuity across element edges: two elements sharing the corners P, Q return the same value on the whole line PQ,
   whatever their third corners (the corner order inside an element does not matter: next theorem) *)
Theorem C12_pv_interp_continuous_across_edges :
  forall xp yp xq yq vp vq xs ys vs xs' ys' vs' t,
  da_r xp yp xq yq xs ys <> 0 -> da_r xq yq xp yp xs' ys' <> 0 ->
  let x := (1 - t) * xp + t * xq in let y := (1 - t) * yp + t * yq in
  interp_r RA (shape RA xp yp xq yq xs ys) vp vq vs x y = interp_r RA (shape RA xq yq xp yp xs' ys') vq vp vs' x y.
Proof. exact interp_r_continuous. Qed.
Print Assumptions C12_pv_interp_continuous_across_edges.

Theorem C12_pv_interp_corner_order_irrelevant :
  forall x0 y0 x1 y1 x2 y2 v0 v1 v2 x y, da_r x0 y0 x1 y1 x2 y2 <> 0 ->
  interp_r RA (shape RA x1 y1 x2 y2 x0 y0) v1 v2 v0 x y = interp_r RA (shape RA x0 y0 x1 y1 x2 y2) v0 v1 v2 x y.
Proof. exact interp_r_rotate. Qed.
Print Assumptions C12_pv_interp_corner_order_irrelevant.

(* the complex potential of time-harmonic planar problems is that interpolant on the real and on the imaginary part *)
Theorem C12_pv_complex_interp_componentwise :
  forall (s : shp (F:=R)) v0 v1 v2 x y,
  fst (interp_c RA s v0 v1 v2 x y) = interp_r RA s (fst v0) (fst v1) (fst v2) x y /\
  snd (interp_c RA s v0 v1 v2 x y) = interp_r RA s (snd v0) (snd v1) (snd v2) x y.
Proof. exact interp_c_components. Qed.
Print Assumptions C12_pv_complex_interp_componentwise.

(* ====================================================================================================== *)
(* (b) axisymmetric magnetics: what is returned is the six-node quadratic of the stored flux 2 pi r A      *)
(* ====================================================================================================== *)
Theorem C12_pv_axi_potential_nodal :
  forall x0 y0 x1 y1 x2 y2 v0 v2 v4, da_r x0 y0 x1 y1 x2 y2 <> 0 ->
  let s := shape RA x0 y0 x1 y1 x2 y2 in
  axi_A RA (rV RA) s x0 x1 x2 v0 v2 v4 x0 y0 = v0 /\ axi_A RA (rV RA) s x0 x1 x2 v0 v2 v4 x1 y1 = v2 /\
  axi_A RA (rV RA) s x0 x1 x2 v0 v2 v4 x2 y2 = v4.
Proof. exact axi_A_nodal. Qed.
Print Assumptions C12_pv_axi_potential_nodal.

(* the P2 shape functions in the unit-triangle coordinates p, q (l0 = 1 - p - q) *)
Theorem C12_pv_axi_potential_is_quadratic :
  forall p q v0 v1 v2 v3 v4 v5,
  quad RA (rV RA) p q v0 v1 v2 v3 v4 v5 =
  let l0 := 1 - p - q in
  v0 * (l0 * (2 * l0 - 1)) + v2 * (p * (2 * p - 1)) + v4 * (q * (2 * q - 1)) + v1 * (4 * l0 * p) + v3 * (4 * p * q) + v5 * (4 * q * l0).
Proof. exact quad_shape_functions. Qed.
Print Assumptions C12_pv_axi_potential_is_quadratic.

(* on an element edge the value is the one-dimensional quadratic through the end values and the constructed mid-side
   value; the mid-side value is symmetric in the two ends, and the quadratic read from the other end is the same: the
   returned potential is continuous across element edges *)
Theorem C12_pv_axi_potential_on_edge :
  forall x0 y0 x1 y1 x2 y2 v0 v2 v4 t, da_r x0 y0 x1 y1 x2 y2 <> 0 ->
  axi_A RA (rV RA) (shape RA x0 y0 x1 y1 x2 y2) x0 x1 x2 v0 v2 v4 ((1 - t) * x0 + t * x1) ((1 - t) * y0 + t * y1)
  = edge_quadratic v0 (mid RA (rV RA) x0 x1 v0 v2) v2 t.
Proof. exact axi_A_edge01. Qed.
Print Assumptions C12_pv_axi_potential_on_edge.

Theorem C12_pv_axi_midside_value_symmetric :
  forall Ra Rb va vb, mid RA (rV RA) Ra Rb va vb = mid RA (rV RA) Rb Ra vb va.
Proof. exact mid_symmetric. Qed.
Print Assumptions C12_pv_axi_midside_value_symmetric.

Theorem C12_pv_axi_edge_quadratic_reversible :
  forall va vm vb t, edge_quadratic va vm vb t = edge_quadratic vb vm va (1 - t).
Proof. exact edge_quadratic_reverse. Qed.
Print Assumptions C12_pv_axi_edge_quadratic_reversible.

(* interpolation in the modified variable: a uniform axial flux density (flux kappa r^2) is reproduced exactly *)
Theorem C12_pv_axi_uniform_field_exact :
  forall x0 y0 x1 y1 x2 y2 kappa x y,
  da_r x0 y0 x1 y1 x2 y2 <> 0 -> 1 / 1000000 <= x0 -> 1 / 1000000 <= x1 -> 1 / 1000000 <= x2 ->
  axi_A RA (rV RA) (shape RA x0 y0 x1 y1 x2 y2) x0 x1 x2 (kappa * x0 * x0) (kappa * x1 * x1) (kappa * x2 * x2) x y = kappa * x * x.
Proof. exact axi_A_uniform_field. Qed.
Print Assumptions C12_pv_axi_uniform_field_exact.

(* the property text "is the linear interpolant of the three corner values inside an element" does not hold for
   axisymmetric magnetics (by design of the code: "a smarter interpolation") *)
Theorem C12_pv_axi_potential_linear_interpolant_refuted :
  exists x0 y0 x1 y1 x2 y2 v0 v2 v4 x y,
    da_r x0 y0 x1 y1 x2 y2 <> 0 /\
    axi_A RA (rV RA) (shape RA x0 y0 x1 y1 x2 y2) x0 x1 x2 v0 v2 v4 x y <> interp_r RA (shape RA x0 y0 x1 y1 x2 y2) v0 v2 v4 x y.
Proof. exact axi_A_not_linear. Qed.
Print Assumptions C12_pv_axi_potential_linear_interpolant_refuted.

(* ====================================================================================================== *)
(* (c) FPProc::GetPointValues, Frequency = 0                                                              *)
(* ====================================================================================================== *)
Theorem C12_pv_static_potential_planar :
  forall (Q : pm_prob (F:=R)) k x y, im_axi (pm_P Q) = false ->
  let P := pm_P Q in let el := pm_elem RA Q k in
  let a := fun j => fst (im_A (im_nd RA P el j)) in
  uA (pm_static RA Q k x y) = (interp_r RA (pm_shape RA P el) (a 0%nat) (a 1%nat) (a 2%nat) x y, 0).
Proof. exact pm_static_A_planar. Qed.
Print Assumptions C12_pv_static_potential_planar.

Theorem C12_pv_static_potential_axisymmetric :
  forall (Q : pm_prob (F:=R)) k x y, im_axi (pm_P Q) = true ->
  let P := pm_P Q in let el := pm_elem RA Q k in
  let a := fun j => fst (im_A (im_nd RA P el j)) in let R := fun j => im_x (im_nd RA P el j) in
  uA (pm_static RA Q k x y) = (axi_A RA (rV RA) (pm_shape RA P el) (R 0%nat) (R 1%nat) (R 2%nat) (a 0%nat) (a 1%nat) (a 2%nat) x y, 0).
Proof. exact pm_static_A_axi. Qed.
Print Assumptions C12_pv_static_potential_axisymmetric.

(* smoothing off: the returned flux density is the element's (GetElementB, IntegralsM.im_B) *)
Theorem C12_pv_static_B_is_the_elements :
  forall (Q : pm_prob (F:=R)) k x y,
  uB1 (pm_static RA Q k x y) = fst (im_B RA (pm_P Q) (pm_elem RA Q k)) /\ uB2 (pm_static RA Q k x y) = snd (im_B RA (pm_P Q) (pm_elem RA Q k)).
Proof. exact pm_static_B. Qed.
Print Assumptions C12_pv_static_B_is_the_elements.

(* planar: B = curl of the interpolant (exact finite differences of an affine function; lengths in the file's unit,
   B in tesla, hence the LengthConv factor), real and imaginary parts *)
Theorem C12_pv_planar_B_is_curl_of_interpolant :
  forall (Q : pm_prob (F:=R)) k x y (v : nat -> R * R) h,
  let P := pm_P Q in let el := pm_elem RA Q k in let s := pm_shape RA P el in
  im_axi P = false -> sda s <> 0 -> im_lc P <> 0 ->
  let Bc := im_B RA P el in
  let Ai := fun x' y' => interp_c RA s (im_A (im_nd RA P el 0)) (im_A (im_nd RA P el 1)) (im_A (im_nd RA P el 2)) x' y' in
  fst (Ai x (y + h)) - fst (Ai x y) = h * im_lc P * fst (fst Bc) /\ snd (Ai x (y + h)) - snd (Ai x y) = h * im_lc P * snd (fst Bc) /\
  fst (Ai (x + h) y) - fst (Ai x y) = - (h * im_lc P * fst (snd Bc)) /\ snd (Ai (x + h) y) - snd (Ai x y) = - (h * im_lc P * snd (snd Bc)).
Proof. exact im_B_planar_curl. Qed.
Print Assumptions C12_pv_planar_B_is_curl_of_interpolant.

(* the returned permeability: the material's (per lamination type), divided by the exterior-region factor *)
Theorem C12_pv_static_mu_is_the_materials :
  forall (Q : pm_prob (F:=R)) k x y,
  let P := pm_P Q in let el := pm_elem RA Q k in let mat := im_mat_of RA P el in
  umu1 (pm_static RA Q k x y) = (fst (mat_mu_r RA mat (im_muo P)) / im_aecf RA P el, 0) /\
  umu2 (pm_static RA Q k x y) = (snd (mat_mu_r RA mat (im_muo P)) / im_aecf RA P el, 0).
Proof. exact pm_static_mu. Qed.
Print Assumptions C12_pv_static_mu_is_the_materials.

Theorem C12_pv_mu_laminated_in_plane :
  forall (m : im_mat (F:=R)) mu0, mu0 <> 0 -> im_lamtype m = 0%nat ->
  mat_mu_r RA m mu0 = (1 + im_lamfill m * (im_mux m - 1), 1 + im_lamfill m * (im_muy m - 1)).
Proof. exact mat_mu_r_lam0. Qed.
Print Assumptions C12_pv_mu_laminated_in_plane.

Theorem C12_pv_mu_laminated_parallel_to_x :
  forall (m : im_mat (F:=R)) mu0, mu0 <> 0 -> im_muy m <> 0 -> im_lamfill m / im_muy m + (1 - im_lamfill m) <> 0 -> im_lamtype m = 1%nat ->
  mat_mu_r RA m mu0 = (1 + im_lamfill m * (im_mux m - 1), 1 / (im_lamfill m / im_muy m + (1 - im_lamfill m))).
Proof. exact mat_mu_r_lam1. Qed.
Print Assumptions C12_pv_mu_laminated_parallel_to_x.

Theorem C12_pv_mu_laminated_parallel_to_y :
  forall (m : im_mat (F:=R)) mu0, mu0 <> 0 -> im_mux m <> 0 -> im_lamfill m / im_mux m + (1 - im_lamfill m) <> 0 -> im_lamtype m = 2%nat ->
  mat_mu_r RA m mu0 = (1 / (im_lamfill m / im_mux m + (1 - im_lamfill m)), 1 + im_lamfill m * (im_muy m - 1)).
Proof. exact mat_mu_r_lam2. Qed.
Print Assumptions C12_pv_mu_laminated_parallel_to_y.

Theorem C12_pv_mu_wire_region :
  forall (m : im_mat (F:=R)) mu0, mu0 <> 0 -> (2 < im_lamtype m)%nat -> mat_mu_r RA m mu0 = (1, 1).
Proof. exact mat_mu_r_wire. Qed.
Print Assumptions C12_pv_mu_wire_region.

(* H = nu B with the element's material: H = B/(mu mu0) - Hc, Hc = H_c e^{j theta} for permanent magnets (else 0) *)
Theorem C12_pv_static_H_is_B_over_mu :
  forall (Q : pm_prob (F:=R)) k x y,
  let P := pm_P Q in let el := pm_elem RA Q k in let mat := im_mat_of RA P el in let muo := im_muo P in
  let u := pm_static RA Q k x y in
  let hc := if aneb RA (im_Hc mat) 0 then im_hc el else (0, 0) in
  uH1 u = (fst (uB1 u) / (fst (umu1 u) * muo) - fst hc, snd (uB1 u) / (fst (umu1 u) * muo)) /\
  uH2 u = (fst (uB2 u) / (fst (umu2 u) * muo) - snd hc, snd (uB2 u) / (fst (umu2 u) * muo)) /\
  uHc u = hc.
Proof. exact pm_static_H. Qed.
Print Assumptions C12_pv_static_H_is_B_over_mu.

(* energy density of a linear material (no magnet, no wire region): B.H/2, divided by the exterior-region factor
   (DoEnergy uses the unscaled permeability, H the scaled one).  For laminations on edge (LamType 1, 2) this needs the
   repaired DoEnergy text (im_lamfix, read from the source by regen; see XINT) *)
Theorem C12_pv_static_energy_is_half_B_dot_H :
  forall (Q : pm_prob (F:=R)) k x y,
  let P := pm_P Q in let el := pm_elem RA Q k in let mat := im_mat_of RA P el in let muo := im_muo P in
  let aecf := im_aecf RA P el in
  im_Hc mat = 0 -> (im_lamtype mat <= 2)%nat -> (im_lamtype mat = 0%nat \/ im_lamfix P = true) ->
  muo <> 0 -> aecf <> 0 -> fst (mat_mu_r RA mat muo) <> 0 -> snd (mat_mu_r RA mat muo) <> 0 ->
  (im_lamtype mat = 1%nat -> im_muy mat <> 0) -> (im_lamtype mat = 2%nat -> im_mux mat <> 0) ->
  let u := pm_static RA Q k x y in
  uE u * aecf = (fst (uB1 u) * fst (uH1 u) + fst (uB2 u) * fst (uH2 u)) / 2.
Proof. exact pm_static_energy. Qed.
Print Assumptions C12_pv_static_energy_is_half_B_dot_H.

(* source current density *)
Theorem C12_pv_static_Js_block :
  forall (Q : pm_prob (F:=R)) k x y,
  let P := pm_P Q in let el := pm_elem RA Q k in
  im_circ (im_label_of RA P el) = None -> uJs (pm_static RA Q k x y) = (fst (im_J (im_mat_of RA P el)), 0).
Proof. exact pm_static_Js_free. Qed.
Print Assumptions C12_pv_static_Js_block.

Theorem C12_pv_static_Js_solid_conductor_planar :
  forall (Q : pm_prob (F:=R)) k x y c,
  let P := pm_P Q in let el := pm_elem RA Q k in let lab := im_label_of RA P el in let mat := im_mat_of RA P el in
  im_circ lab = Some c -> im_case lab = 0%nat -> im_axi P = false ->
  uJs (pm_static RA Q k x y) = (fst (im_J mat) - fst (im_o lab) * fst (im_dvolts lab), 0 - fst (im_o lab) * snd (im_dvolts lab)).
Proof. exact pm_static_Js_planar_voltage. Qed.
Print Assumptions C12_pv_static_Js_solid_conductor_planar.

Theorem C12_pv_static_Js_solid_conductor_axisymmetric :
  forall (Q : pm_prob (F:=R)) k x y c,
  let P := pm_P Q in let el := pm_elem RA Q k in let lab := im_label_of RA P el in let mat := im_mat_of RA P el in
  im_circ lab = Some c -> im_case lab = 0%nat -> im_axi P = true ->
  let w := inv_r_weight RA (im_lc P) (pm_shape RA P el) (im_x (im_nd RA P el 0)) (im_x (im_nd RA P el 1)) (im_x (im_nd RA P el 2)) x y in
  uJs (pm_static RA Q k x y) = (fst (im_J mat) - fst (im_o lab) * fst (im_dvolts lab) * w, 0 - fst (im_o lab) * snd (im_dvolts lab) * w).
Proof. exact pm_static_Js_axi_voltage. Qed.
Print Assumptions C12_pv_static_Js_solid_conductor_axisymmetric.

Theorem C12_pv_inverse_radius_weight :
  forall x y lc x0 x1 x2 (sh : shp (F:=R)),
  1 / 1000000 <= x0 -> 1 / 1000000 <= x1 -> 1 / 1000000 <= x2 ->
  inv_r_weight RA lc sh x0 x1 x2 x y = interp_r RA sh (1 / (x0 * lc)) (1 / (x1 * lc)) (1 / (x2 * lc)) x y.
Proof. exact inv_r_weight_off_axis. Qed.
Print Assumptions C12_pv_inverse_radius_weight.

(* wire regions: B^2/(2 mu0) plus the local term Re(J^2) Im(o)/2 — whose o is that of the block label of ELEMENT 3
   in the code as shipped (pm_wirefix = false) *)
Theorem C12_pv_static_energy_wire_region :
  forall (Q : pm_prob (F:=R)) k x y,
  let P := pm_P Q in let el := pm_elem RA Q k in let lab := im_label_of RA P el in let mat := im_mat_of RA P el in
  im_Hc mat = 0 -> (2 < im_lamtype mat)%nat ->
  let u := pm_static RA Q k x y in
  let lab' := if pm_wirefix Q then lab else im_label_of RA P (pm_elem RA Q 3) in
  let Jr := fst (uJs u) * 1000000 in let Ji := snd (uJs u) * 1000000 in
  uE u = im_do_energy RA (im_lamfix P) mat (im_muo P) (fst (uB1 u)) (fst (uB2 u)) + (Jr * Jr - Ji * Ji) * snd (im_o lab') / 2.
Proof. exact pm_static_energy_wire. Qed.
Print Assumptions C12_pv_static_energy_wire_region.

(* "material data returned are those of the block containing the point": refuted for the energy density in wire
   regions of static problems (finding XPV-1): two problems that differ only in the record of a block label that is not
   the point's return different energy densities at the same point *)
Theorem C12_pv_static_energy_own_block_only_refuted :
  exists (Q Q' : pm_prob (F:=R)) (k : nat) (x y : R),
    pm_wirefix Q = false /\ pm_wirefix Q' = false /\
    im_lbl (pm_elem RA Q k) = 0%nat /\ im_lbl (pm_elem RA Q' k) = 0%nat /\
    nth 0 (im_labels (pm_P Q)) (im_dlabel RA) = nth 0 (im_labels (pm_P Q')) (im_dlabel RA) /\
    im_nodes (pm_P Q) = im_nodes (pm_P Q') /\ im_elems (pm_P Q) = im_elems (pm_P Q') /\ im_mats (pm_P Q) = im_mats (pm_P Q') /\
    uE (pm_static RA Q k x y) <> uE (pm_static RA Q' k x y).
Proof. exact wire_energy_reads_another_label. Qed.
Print Assumptions C12_pv_static_energy_own_block_only_refuted.

(* ====================================================================================================== *)
(* (d) FPProc::GetPointValues, Frequency != 0                                                             *)
(* ====================================================================================================== *)
Theorem C12_pv_harmonic_potential_planar :
  forall (Q : pm_prob (F:=R)) k x y, im_axi (pm_P Q) = false ->
  let P := pm_P Q in let el := pm_elem RA Q k in
  uA (pm_harmonic RA Q k x y) = interp_c RA (pm_shape RA P el) (im_A (im_nd RA P el 0)) (im_A (im_nd RA P el 1)) (im_A (im_nd RA P el 2)) x y.
Proof. exact pm_harmonic_A_planar. Qed.
Print Assumptions C12_pv_harmonic_potential_planar.

Theorem C12_pv_harmonic_B_is_the_elements :
  forall (Q : pm_prob (F:=R)) k x y,
  uB1 (pm_harmonic RA Q k x y) = fst (im_B RA (pm_P Q) (pm_elem RA Q k)) /\ uB2 (pm_harmonic RA Q k x y) = snd (im_B RA (pm_P Q) (pm_elem RA Q k)).
Proof. exact pm_harmonic_B. Qed.
Print Assumptions C12_pv_harmonic_B_is_the_elements.

(* complex permeability: the block's mu_fd (or the effective mu of the point's own label in wire regions) over AECF *)
Theorem C12_pv_harmonic_mu_is_the_materials :
  forall (Q : pm_prob (F:=R)) k x y,
  let P := pm_P Q in let el := pm_elem RA Q k in let mat := im_mat_of RA P el in let aecf := im_aecf RA P el in
  let m := if (2 <? im_lamtype mat)%nat then (nth (im_lbl el) (pm_lmu Q) (0, 0), nth (im_lbl el) (pm_lmu Q) (0, 0))
           else nth (im_blk el) (pm_mufd Q) ((0, 0), (0, 0)) in
  umu1 (pm_harmonic RA Q k x y) = (fst (fst m) / aecf, snd (fst m) / aecf) /\
  umu2 (pm_harmonic RA Q k x y) = (fst (snd m) / aecf, snd (snd m) / aecf).
Proof. exact pm_harmonic_mu. Qed.
Print Assumptions C12_pv_harmonic_mu_is_the_materials.

(* H (mu mu0) = B as complex numbers (Cmul: complex product), both branches of CComplex::operator/ *)
Theorem C12_pv_harmonic_H_times_mu_is_B :
  forall (Q : pm_prob (F:=R)) k x y,
  let muo := im_muo (pm_P Q) in let u := pm_harmonic RA Q k x y in
  (fst (umu1 u) * muo, snd (umu1 u) * muo) <> (0, 0) -> (fst (umu2 u) * muo, snd (umu2 u) * muo) <> (0, 0) ->
  Cmul (uH1 u) (fst (umu1 u) * muo, snd (umu1 u) * muo) = uB1 u /\
  Cmul (uH2 u) (fst (umu2 u) * muo, snd (umu2 u) * muo) = uB2 u.
Proof. exact pm_harmonic_H. Qed.
Print Assumptions C12_pv_harmonic_H_times_mu_is_B.

(* time-average energy density Re(H . conj B)/4 and hysteresis loss density pi f Im(H . conj B) *)
Theorem C12_pv_harmonic_energy_and_hysteresis_loss :
  forall (Q : pm_prob (F:=R)) k x y,
  (im_lamtype (im_mat_of RA (pm_P Q) (pm_elem RA Q k)) <= 2)%nat ->
  let u := pm_harmonic RA Q k x y in
  let zr := fst (uH1 u) * fst (uB1 u) + snd (uH1 u) * snd (uB1 u) + (fst (uH2 u) * fst (uB2 u) + snd (uH2 u) * snd (uB2 u)) in
  let zi := snd (uH1 u) * fst (uB1 u) - fst (uH1 u) * snd (uB1 u) + (snd (uH2 u) * fst (uB2 u) - fst (uH2 u) * snd (uB2 u)) in
  uE u = zr / 4 /\ uPh u = pm_freq Q * PI * zi.
Proof. exact pm_harmonic_energy. Qed.
Print Assumptions C12_pv_harmonic_energy_and_hysteresis_loss.

(* eddy current density of a solid region, planar: Je = -j w sigma A *)
Theorem C12_pv_harmonic_eddy_current_planar :
  forall (Q : pm_prob (F:=R)) k x y,
  let P := pm_P Q in
  im_axi P = false -> im_fill (im_label_of RA P (pm_elem RA Q k)) < 0 ->
  let u := pm_harmonic RA Q k x y in
  let w := 2 * PI * pm_freq Q in
  uJe u = (w * uc u * snd (uA u), - (w * uc u * fst (uA u))).
Proof. exact pm_harmonic_Je_planar. Qed.
Print Assumptions C12_pv_harmonic_eddy_current_planar.

Theorem C12_pv_harmonic_ohmic_loss :
  forall (Q : pm_prob (F:=R)) k x y,
  let u := pm_harmonic RA Q k x y in
  uc u <> 0 ->
  uPe u = 1000000 * ((fst (uJs u) + fst (uJe u)) * (fst (uJs u) + fst (uJe u)) + (snd (uJs u) + snd (uJe u)) * (snd (uJs u) + snd (uJe u))) / (uc u * 2).
Proof. exact pm_harmonic_Pe. Qed.
Print Assumptions C12_pv_harmonic_ohmic_loss.

(* ====================================================================================================== *)
(* (e) electrostatics and heat flow with an exterior region (AECF != 1), temperature-dependent conductivity *)
(* ====================================================================================================== *)
(* the factor at a point: (r^2 + (z - Zo)^2)/(Ro Ri) in exterior blocks of axisymmetric problems (the centroid's when
   the point is the centre of the mapping), 1 elsewhere *)
Theorem C12_pv_exterior_factor_at_point :
  forall axi ext Zo Ro Ri (c : R * R) x y,
  pp_aecf_pt RA axi ext Zo Ro Ri c x y =
  if axi && ext then
    if Reqb (x * x + (y - Zo) * (y - Zo)) 0 then (fst c * fst c + (snd c - Zo) * (snd c - Zo)) / (Ro * Ri)
    else (x * x + (y - Zo) * (y - Zo)) / (Ro * Ri)
  else 1.
Proof. exact pp_aecf_pt_R. Qed.
Print Assumptions C12_pv_exterior_factor_at_point.

Theorem C12_pv_es_potential :
  forall (P : ie_prob (F:=R)) k x y,
  let el := nth k (ie_elems P) ie_delem in
  nth 0 (pe_point RA P k x y) 0
  = interp_r RA (ie_shape RA P el) (ie_V (ie_nd RA P el 0)) (ie_V (ie_nd RA P el 1)) (ie_V (ie_nd RA P el 2)) x y.
Proof. exact pe_point_V. Qed.
Print Assumptions C12_pv_es_potential.

(* material data: the block's permittivity over the factor at the POINT; D is the element's (factor at the CENTROID) *)
Theorem C12_pv_es_material_and_D :
  forall (P : ie_prob (F:=R)) k x y,
  let el := nth k (ie_elems P) ie_delem in let r := pe_point RA P k x y in let ap := ie_aecf_pt RA P el x y in
  nth 5 r 0 = fst (ie_mat RA P el) / ap /\ nth 6 r 0 = snd (ie_mat RA P el) / ap /\ (nth 1 r 0, nth 2 r 0) = ie_D RA P el.
Proof. exact pe_point_material. Qed.
Print Assumptions C12_pv_es_material_and_D.

(* the D - E relation is preserved under the exterior-region map: D = eo e E with the RETURNED e, and nrg = D.E/2 *)
Theorem C12_pv_es_D_E_relation_preserved :
  forall (P : ie_prob (F:=R)) k x y,
  let r := pe_point RA P k x y in
  nth 5 r 0 * ie_eo P <> 0 -> nth 6 r 0 * ie_eo P <> 0 ->
  nth 1 r 0 = ie_eo P * nth 5 r 0 * nth 3 r 0 /\ nth 2 r 0 = ie_eo P * nth 6 r 0 * nth 4 r 0 /\
  nth 7 r 0 = (nth 1 r 0 * nth 3 r 0 + nth 2 r 0 * nth 4 r 0) / 2.
Proof. exact pe_point_DE. Qed.
Print Assumptions C12_pv_es_D_E_relation_preserved.

(* AECF scaling: the returned E is -grad V (ie_gradE, the field of the element) times AECF(point)/AECF(centroid) *)
Theorem C12_pv_es_E_scaling :
  forall (P : ie_prob (F:=R)) k x y,
  let el := nth k (ie_elems P) ie_delem in let r := pe_point RA P k x y in
  let ap := ie_aecf_pt RA P el x y in let ac := ie_aecf RA P el in
  fst (ie_mat RA P el) <> 0 -> snd (ie_mat RA P el) <> 0 -> ie_eo P <> 0 -> ap <> 0 -> ac <> 0 ->
  nth 3 r 0 = fst (ie_gradE RA P el) * (ap / ac) /\ nth 4 r 0 = snd (ie_gradE RA P el) * (ap / ac).
Proof. exact pe_point_E_scaling. Qed.
Print Assumptions C12_pv_es_E_scaling.

(* hence "the returned field is the gradient of the interpolant" fails in an exterior region away from the circle
   through the centroid *)
Theorem C12_pv_es_E_is_gradient_in_exterior_region_refuted :
  exists (P : ie_prob (F:=R)) k x y, nth 3 (pe_point RA P k x y) 0 <> fst (ie_gradE RA P (nth k (ie_elems P) ie_delem)).
Proof. exact pe_point_E_exterior_not_gradient. Qed.
Print Assumptions C12_pv_es_E_is_gradient_in_exterior_region_refuted.

(* heat flow: T is the linear interpolant, K the block's conductivity AT THAT TEMPERATURE (T-k table, KT.getk) over the
   factor at the point, F the element's flux, and F = K G with the returned K *)
Theorem C12_pv_heat_point_values :
  forall (P : ih_prob (F:=R)) k x y,
  let V := ih_view RA P in let el := nth k (ih_elems P) ie_delem in let r := ph_point RA P k x y in
  let m := nth (ie_blk el) (ih_mats P) (ih_dmat RA) in let ap := ie_aecf_pt RA V el x y in
  let T := nth 0 r 0 in
  T = interp_r RA (ie_shape RA V el) (ih_T RA P el 0) (ih_T RA P el 1) (ih_T RA P el 2) x y /\
  nth 5 r 0 = fst (getk RA (ih_kx m) (ih_ky m) (ih_tk m) T) / ap /\ nth 6 r 0 = snd (getk RA (ih_kx m) (ih_ky m) (ih_tk m) T) / ap /\
  (nth 1 r 0, nth 2 r 0) = ih_D RA P el /\
  (nth 5 r 0 <> 0 -> nth 1 r 0 = nth 5 r 0 * nth 3 r 0) /\ (nth 6 r 0 <> 0 -> nth 2 r 0 = nth 6 r 0 * nth 4 r 0).
Proof. exact ph_point_values. Qed.
Print Assumptions C12_pv_heat_point_values.

(* ====================================================================================================== *)
(* the hypotheses are satisfiable                                                                          *)
(* ====================================================================================================== *)
Example C12_pv_example_nondegenerate_triangle : da_r 0 0 1 0 0 1 <> 0.
Proof. unfold da_r. lra. Qed.

Example C12_pv_example_wire_problem_energy :
  forall x y, uE (pm_static RA (ex_wire 1) 0 x y) = 1000000 * 1000000 * 1 / 2 /\ (2 < im_lamtype (im_mat_of RA (pm_P (ex_wire 1)) (pm_elem RA (ex_wire 1) 0)))%nat.
Proof. intros x y. split; [apply ex_wire_energy|cbn; lia]. Qed.

Example C12_pv_example_axi_off_axis : ~ (1 < 1 / 1000000 /\ 3 < 1 / 1000000).
Proof. lra. Qed.
