(* PolyWrite.v — model of everything fmesher hands to Triangle on the NON-periodic path and of what it
   does with Triangle's answer (cfemm/fmesher/writepoly.cpp: FMesher::DoNonPeriodicBCTriangulation,
   fmesher::defaultMeshSizeHeuristics, TriangulateHelper::initPointsWithMarkers / initSegmentsWithMarkers /
   initHolesAndRegions / triangulateParams / writeTriangulationFiles; cfemm/libfemm: FemmProblem::
   updateLabelsFromIndex, C{M,H,S}BlockLabel::fromStream (mesh size -> MaxArea), CBlockLabel::isHole).
   The subdivision of the drawn lines and arcs into PSLG nodes and segments is Discretize.v (reused: the
   `cnt' component of its segments is the index of the drawn entity whose copy (CSegment segm = line /
   = arc, with its BoundaryMarkerName and InConductorName) each sub-segment is a clone of).
   `int' arithmetic on markers is written in Z with one two's-complement wrap at the store, as Marker.v.
   The %f text of the minimum angle (std::to_string) is an input of the model.  Model file: no proofs. *)
From Coq Require Import ZArith List Bool Arith String.
From XF.gen Require Import MarkerConsts.
From XF Require Import Arith Marker Discretize.
Import ListNotations.

(* ---------------------------------------------------------------------------------------------- *)
(* names: entities refer to properties by NAME inside the mesher                                  *)
(* ---------------------------------------------------------------------------------------------- *)
Definition none_name : string := "<None>"%string.      (* CNode::CNode / CSegment::CSegment defaults *)

(* property lists of the problem, as lists of names, in file order; number of block properties *)
Record props := mkProps { p_point : list string; p_bdry : list string; p_cond : list string; p_nblock : Z }.

(* FemmProblem::updateLabelsFromIndex: an index other than -1 is replaced by the name of the property
   with that index (an index outside the list is an out-of-range vector access: outside the model) *)
Definition lookup_name (names : list string) (idx : Z) : option string :=
  if (idx =? -1)%Z then Some none_name
  else if ((0 <=? idx) && (idx <? Z.of_nat (List.length names)))%Z then Some (nth (Z.to_nat idx) names none_name)
  else None.

(* attributes of a drawn line / arc as the reader leaves them: BoundaryMarker, InConductor (both already
   decremented: -1 = none) and the Hidden flag *)
Record ent_attr := mkAttr { e_bdry : Z; e_cond : Z; e_hidden : bool }.

Definition pair_names (n1 n2 : list string) (i1 i2 : Z) : option (string * string) :=
  match lookup_name n1 i1, lookup_name n2 i2 with
  | Some a, Some b => Some (a, b)
  | _, _ => None
  end.

Fixpoint all_some {X : Type} (l : list (option X)) : option (list X) :=
  match l with
  | [] => Some []
  | None :: _ => None
  | Some x :: r => match all_some r with Some r' => Some (x :: r') | None => None end
  end.

(*  for(j=0;j<list.size();j++) if(list[j]->Name==name) t = f(j);      -- the LAST match wins *)
Fixpoint last_match (names : list string) (nm : string) (j t : Z) (f : Z -> Z) : Z :=
  match names with
  | [] => t
  | n :: r => last_match r nm (j + 1) (if String.eqb n nm then f j else t) f
  end.
(*  for(j=0;j<circproplist.size();j++) if(circproplist[j]->CircName==name) t += g(j);   -- EVERY match adds *)
Fixpoint sum_match (names : list string) (nm : string) (j t : Z) (g : Z -> Z) : Z :=
  match names with
  | [] => t
  | n :: r => sum_match r nm (j + 1) (if String.eqb n nm then t + g j else t)%Z g
  end.

Local Open Scope Z_scope.
(* TriangulateHelper::initPointsWithMarkers, PointMarkerInfo::FromProblem, one node *)
Definition point_marker (mag : bool) (P : props) (nm : string * string) : Z :=
  let t := last_match (p_point P) (fst nm) 0 0 (fun j => j + enc_offset) in
  wrap32 (if mag then t else sum_match (p_cond P) (snd nm) 0 t (fun j => (j + 1) * enc_cond_mul)).
(* TriangulateHelper::initSegmentsWithMarkers, SegmentMarkerInfo::FromProblem, one segment *)
Definition seg_marker (mag : bool) (P : props) (nm : string * string) : Z :=
  let t := last_match (p_bdry P) (fst nm) 0 0 (fun j => - (j + enc_offset)) in
  wrap32 (if mag then t else sum_match (p_cond P) (snd nm) 0 t (fun j => - ((j + 1) * enc_cond_mul))).
Local Close Scope Z_scope.

(* the switch string of TriangulateHelper::triangulateParams as tokens; [angle] = std::to_string(m_minAngle) *)
Definition switch_tokens (verbose unused_suppressed exterior_suppressed : bool) (angle : string) : list string :=
  ["-pPq"%string; angle; "eAaz"%string] ++ (if verbose then [] else ["Q"%string]) ++ ["I"%string]
  ++ (if unused_suppressed then ["j"%string] else []) ++ (if exterior_suppressed then ["Y"%string] else []).
(* DoNonPeriodicBCTriangulation: suppressUnusedVertices() is called, suppressExteriorSteinerPoints() is not *)
Definition nonperiodic_switches (verbose : bool) (angle : string) : list string :=
  switch_tokens verbose true false angle.

Section PolyWrite.
  Context {F : Type} (A : Arith F).
  Local Notation cplx := (F * F)%type.
  Local Notation "'#' z" := (aofZ A z) (at level 9).

  (* block label as the reader leaves it: position, BlockType (already decremented; -1 = no mesh: the
     [NumHoles] entries and the labels whose block column is 0) and the mesh size of the file *)
  Record xlabel := mkLabel { lb_x : F; lb_y : F; lb_block : Z; lb_size : F }.
  Record settings := mkSettings { s_mag : bool; s_smart : bool; s_force : bool; s_verbose : bool; s_minangle : F }.

  (* the in-memory triangulateio input *)
  Record tri_in := mkTriIn {
    ti_points : list cplx; ti_pmarks : list Z;
    ti_segs : list (nat * nat); ti_smarks : list Z;
    ti_holes : list cplx; ti_regions : list (F * F * F * F) }.

  (* C{M,H,S}BlockLabel::fromStream:  if (MaxArea<=0) MaxArea = 0; else MaxArea *= PI * MaxArea / 4.; *)
  Definition max_area_of_size (d : F) : F :=
    if aleb A d (azero A) then azero A else amul A d (adiv A (amul A (api A) d) (# 4)).

  (* fmesher::defaultMeshSizeHeuristics *)
  Definition bbox_step (mm : cplx * cplx) (p : cplx) : cplx * cplx :=
    let mn := fst mm in let mx := snd mm in
    ((if altb A (fst p) (fst mn) then fst p else fst mn, if altb A (snd p) (snd mn) then snd p else snd mn),
     (if altb A (fst mx) (fst p) then fst p else fst mx, if altb A (snd mx) (snd p) then snd p else snd mx)).
  Definition bbox (p0 : cplx) (nodes : list cplx) : cplx * cplx := fold_left bbox_step nodes (p0, p0).
  Definition default_mesh_size (smart : bool) (nodes : list cplx) : F :=
    match nodes with
    | [] => aneg A (aone A)
    | p0 :: _ =>
        let mm := bbox p0 nodes in
        let diag := cabsf A (csub A (snd mm) (fst mm)) in
        if smart then let absdist := adiv A diag (# 100) in amul A absdist absdist
        else diag
    end.

  (* TriangulateHelper::initHolesAndRegions: the area constraint of one meshed label *)
  Definition area_constraint (force : bool) (dflt maxarea : F) : F :=
    if aleb A maxarea (azero A) then dflt
    else if altb A dflt maxarea && force then dflt
    else maxarea.

  Definition is_hole (l : xlabel) : bool := (lb_block l =? -1)%Z.       (* CBlockLabel::isHole *)
  Definition holes_of (labels : list xlabel) : list cplx :=
    map (fun l => (lb_x l, lb_y l)) (filter is_hole labels).
  Fixpoint regions_from (force : bool) (dflt : F) (labels : list xlabel) (k : Z) : list (F * F * F * F) :=
    match labels with
    | [] => []
    | l :: r =>
        if is_hole l then regions_from force dflt r k
        else (lb_x l, lb_y l, # (k + 1), area_constraint force dflt (max_area_of_size (lb_size l)))
             :: regions_from force dflt r (k + 1)
    end.
  (* updateLabelsFromIndex reads blockproplist[BlockType] of every label that is not a hole *)
  Definition label_ok (P : props) (l : xlabel) : bool :=
    is_hole l || ((0 <=? lb_block l) && (lb_block l <? p_nblock P))%Z.

  (* min(MinAngle + MINANGLE_BUMP, MINANGLE_MAX) as std::min evaluates it *)
  Definition min_angle_arg (S : settings) : F := amin A (aadd A (s_minangle S) (# 3)) (adec A 338 (-1)).

  (* DoNonPeriodicBCTriangulation up to the call of Triangle.  None: a claimed ceil() value is wrong
     (Discretize.v) or a property index is outside its list (undefined behaviour of the reader). *)
  Definition poly_input (S : settings) (P : props)
             (pts : list (cplx * (Z * Z))) (lines : list (@dline F * ent_attr)) (arcs : list (@darc F * ent_attr))
             (labels : list xlabel) : option tri_in :=
    let orig := map fst pts in
    match discretize A (s_smart S) orig (map fst lines) (map fst arcs) with
    | None => None
    | Some st =>
        let nodes := fst st in let segs := snd st in
        match all_some (map (fun a => pair_names (p_point P) (p_cond P) (fst (snd a)) (snd (snd a))) pts),
              all_some (map (fun a => pair_names (p_bdry P) (p_cond P) (e_bdry a) (e_cond a))
                            (map snd lines ++ map snd arcs)) with
        | Some pn, Some en =>
            if forallb (label_ok P) labels then
              let created := repeat (none_name, none_name) (List.length nodes - List.length orig) in
              Some {| ti_points := nodes;
                      ti_pmarks := map (point_marker (s_mag S) P) (pn ++ created);
                      ti_segs := map (fun s => (fst (fst s), snd (fst s))) segs;
                      ti_smarks := map (fun s => seg_marker (s_mag S) P (nth (snd s) en (none_name, none_name))) segs;
                      ti_holes := holes_of labels;
                      ti_regions := regions_from (s_force S) (default_mesh_size (s_smart S) nodes) labels 0 |}
            else None
        | _, _ => None
        end
    end.

  (* ------------------------------------------------------------------------------------------ *)
  (* Triangle's answer -> .node / .edge / .ele  (TriangulateHelper::writeTriangulationFiles)      *)
  (* ------------------------------------------------------------------------------------------ *)
  Inductive tok := TI (z : Z) | TF (x : F).
  Record tri_out := mkTriOut {
    o_np : Z; o_pointlist : list F; o_pointmarkers : list Z;
    o_ne : Z; o_edgelist : list Z; o_edgemarkers : list Z;
    o_nt : Z; o_corners : Z; o_nattr : Z; o_trilist : list Z; o_triattr : list F }.

  Definition zn {X : Type} (l : list X) (d : X) (i : Z) : X := nth (Z.to_nat i) l d.
  Definition zseq (n : Z) : list Z := map Z.of_nat (seq 0 (Z.to_nat n)).

  Local Open Scope Z_scope.
  (* for(i = 0; i < 2*np - 1; i += 2)  fprintf("%i\t%.17g\t%.17g\t%i\n", i/2, pointlist[i], pointlist[i+1], pointmarkerlist[i/2]) *)
  Definition node_file (o : tri_out) : list (list tok) :=
    if 0 <? o_np o then
      [TI (o_np o); TI 2; TI 0; TI 1]
      :: map (fun k => [TI k; TF (zn (o_pointlist o) (azero A) (2 * k)); TF (zn (o_pointlist o) (azero A) (2 * k + 1));
                        TI (zn (o_pointmarkers o) 0 k)]) (zseq (o_np o))
    else [].
  Definition edge_file (o : tri_out) : list (list tok) :=
    if 0 <? o_ne o then
      [TI (o_ne o); TI 1]
      :: map (fun k => [TI k; TI (zn (o_edgelist o) 0 (2 * k)); TI (zn (o_edgelist o) 0 (2 * k + 1));
                        TI (zn (o_edgemarkers o) 0 k)]) (zseq (o_ne o))
    else [].
  (* the loop  for(i=0, next=0; i < corners*nt - (corners-1); i += corners)  does not terminate for corners = 0:
     the model is defined for corners >= 1 (Triangle gives 3) *)
  Definition ele_file (o : tri_out) : option (list (list tok)) :=
    if 0 <? o_nt o then
      if 1 <=? o_corners o then
        Some ([TI (o_nt o); TI (o_corners o); TI (o_nattr o)]
              :: map (fun k => [TI k]
                               ++ map (fun j => TI (zn (o_trilist o) 0 (o_corners o * k + j))) (zseq (o_corners o))
                               ++ (if 0 <? o_nattr o
                                   then map (fun j => TF (zn (o_triattr o) (azero A) (o_nattr o * k + j))) (zseq (o_nattr o))
                                   else []))
                     (zseq (o_nt o)))
      else None
    else Some [].
  Definition pbc_file : list (list tok) := [[TI 0]; [TI 0]].

  (* the end of DoNonPeriodicBCTriangulation: return value and the files left behind *)
  Definition nonperiodic_result (tristatus : Z) (o : tri_out)
    : Z * option (list (list tok) * list (list tok) * option (list (list tok))) :=
    if tristatus =? 0 then (0, Some (node_file o, edge_file o, ele_file o)) else (tristatus, None).
End PolyWrite.
