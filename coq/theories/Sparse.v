(* Sparse.v — executable model of CBigLinProb (cfemm/libfemm/spars.cpp).
   A row is the linked list of CEntry starting at M[i]: a non-empty list of (column, value)
   whose head is the diagonal entry (column i) and whose tail is strictly increasing.
   Every function follows the pointer walk of the C++ literally; no proofs in this file. *)
From Coq Require Import ZArith List Bool Arith.
From XF Require Import Arith.
Import ListNotations.

Section Sparse.
  Context {F : Type} (A : Arith F).
  Local Notation "x +. y" := (aadd A x y) (at level 50, left associativity).
  Local Notation "x -. y" := (asub A x y) (at level 50, left associativity).
  Local Notation "x *. y" := (amul A x y) (at level 40, left associativity).
  Local Notation "x /. y" := (adiv A x y) (at level 40, left associativity).
  Local Notation zero := (azero A).

  Local Notation entry := (nat * F)%type.
  Local Notation row := (list (nat * F)).
  Local Notation matrix := (list (list (nat * F))).
  Local Notation vec := (list F).

  Definition vget (X : vec) (i : nat) : F := nth i X zero.
  Fixpoint vset (X : vec) (i : nat) (v : F) : vec :=
    match X, i with
    | [], _ => []
    | _ :: t, O => v :: t
    | h :: t, S i' => h :: vset t i' v
    end.
  Definition vzero (n : nat) : vec := repeat zero n.

  (* CBigLinProb::Create *)
  Definition mcreate (n : nat) : matrix := map (fun i => [(i, zero)]) (seq 0 n).

  (* the walk of Put inside one row; [q] >= diagonal column *)
  Fixpoint put_row (v : F) (q : nat) (r : row) : row :=
    match r with
    | [] => [(q, v)]                                  (* unreachable: rows are non-empty *)
    | (c, x) :: rest =>
        if Nat.eqb c q then (c, v) :: rest             (* e->c == q : overwrite *)
        else if Nat.ltb c q then
          match rest with
          | [] => [(c, x); (q, v)]                     (* e->next == NULL && q > e->c : append *)
          | _ => (c, x) :: put_row v q rest            (* keep walking *)
          end
        else (q, v) :: (c, x) :: rest                  (* insert between l and e *)
    end.

  Fixpoint get_row (q : nat) (r : row) : F :=
    match r with
    | [] => zero
    | (c, x) :: rest =>
        if Nat.eqb c q then x
        else if Nat.ltb c q then get_row q rest
        else zero
    end.

  Fixpoint upd_nth {T} (l : list T) (i : nat) (f : T -> T) : list T :=
    match l, i with
    | [], _ => []
    | h :: t, O => f h :: t
    | h :: t, S i' => h :: upd_nth t i' f
    end.

  Definition mput (M : matrix) (v : F) (p q : nat) : matrix :=
    let '(p, q) := if Nat.ltb q p then (q, p) else (p, q) in
    upd_nth M p (put_row v q).

  Definition mget (M : matrix) (p q : nat) : F :=
    let '(p, q) := if Nat.ltb q p then (q, p) else (p, q) in
    get_row q (nth p M []).

  Definition maddto (M : matrix) (v : F) (p q : nat) : matrix :=
    mput M (mget M p q +. v) p q.

  (* CBigLinProb::MultA, same order of floating additions *)
  Fixpoint multA_tail (i : nat) (xi : F) (es : row) (X Y : vec) : vec :=
    match es with
    | [] => Y
    | (c, x) :: es' =>
        let Y1 := vset Y i (vget Y i +. x *. vget X c) in
        let Y2 := vset Y1 c (vget Y1 c +. x *. xi) in
        multA_tail i xi es' X Y2
    end.

  Fixpoint multA_rows (i : nat) (rows : matrix) (X Y : vec) : vec :=
    match rows with
    | [] => Y
    | r :: rows' =>
        let Y' :=
          match r with
          | [] => Y
          | (_, d) :: es =>
              let Y0 := vset Y i (vget Y i +. d *. vget X i) in
              multA_tail i (vget X i) es X Y0
          end in
        multA_rows (S i) rows' X Y'
    end.

  Definition multA (M : matrix) (X : vec) : vec := multA_rows 0 M X (vzero (length M)).

  Fixpoint dot_from (z : F) (X Y : vec) : F :=
    match X, Y with
    | x :: X', y :: Y' => dot_from (z +. x *. y) X' Y'
    | _, _ => z
    end.
  Definition dot (X Y : vec) : F := dot_from zero X Y.

  (* CBigLinProb::MultPC — SSOR preconditioner *)
  Definition diag_of (r : row) : F := match r with (_, d) :: _ => d | [] => zero end.
  Definition tail_of (r : row) : row := match r with _ :: t => t | [] => [] end.

  Fixpoint pc_lower_tail (yi lam : F) (es : row) (Y : vec) : vec :=
    match es with
    | [] => Y
    | (c, x) :: es' => pc_lower_tail yi lam es' (vset Y c (vget Y c -. x *. yi *. lam))
    end.
  Fixpoint pc_lower (i : nat) (rows : matrix) (lam : F) (Y : vec) : vec :=
    match rows with
    | [] => Y
    | r :: rows' =>
        let yi := vget Y i /. diag_of r in
        let Y1 := vset Y i yi in
        pc_lower (S i) rows' lam (pc_lower_tail yi lam (tail_of r) Y1)
    end.
  Fixpoint pc_upper_tail (i : nat) (lam : F) (es : row) (Y : vec) : vec :=
    match es with
    | [] => Y
    | (c, x) :: es' =>
        pc_upper_tail i lam es' (vset Y i (vget Y i -. x *. vget Y c *. lam))
    end.
  (* rows given in reverse order, i counts down: [irows] = rev (combine (seq 0 n) M) *)
  Fixpoint pc_upper (irows : list (nat * row)) (lam : F) (Y : vec) : vec :=
    match irows with
    | [] => Y
    | (i, r) :: rest =>
        let Y1 := pc_upper_tail i lam (tail_of r) Y in
        pc_upper rest lam (vset Y1 i (vget Y1 i /. diag_of r))
    end.

  Definition multPC (M : matrix) (lam : F) (X : vec) : vec :=
    let c := lam *. (aofZ A 2 -. lam) in
    let Y0 := map (fun x => x *. c) X in
    let Y1 := pc_lower 0 M lam Y0 in
    let Y2 := map (fun '(y, r) => y *. diag_of r) (combine Y1 M) in
    pc_upper (rev (combine (seq 0 (length M)) M)) lam Y2.

  (* one problem instance *)
  Record lin := mkLin {
    ln : nat; lbdw : nat; lM : matrix; lb : vec; lV : vec; lprec : F; llam : F }.

  Definition lcreate (n bw : nat) (prec lam : F) : lin :=
    mkLin n bw (mcreate n) (vzero n) (vzero n) prec lam.

  Definition lput (L : lin) v p q := mkLin (ln L) (lbdw L) (mput (lM L) v p q) (lb L) (lV L) (lprec L) (llam L).
  Definition laddto (L : lin) v p q := mkLin (ln L) (lbdw L) (maddto (lM L) v p q) (lb L) (lV L) (lprec L) (llam L).
  Definition lsetb (L : lin) i v := mkLin (ln L) (lbdw L) (lM L) (vset (lb L) i v) (lV L) (lprec L) (llam L).
  Definition lsetV (L : lin) i v := mkLin (ln L) (lbdw L) (lM L) (lb L) (vset (lV L) i v) (lprec L) (llam L).
  Definition lwithMb (L : lin) M b := mkLin (ln L) (lbdw L) M b (lV L) (lprec L) (llam L).

  (* CBigLinProb::SetValue *)
  Definition sv_window (n bdw i : nat) : nat * nat :=
    if Nat.eqb bdw 0 then (0, n) else (i - bdw, Nat.min (i + bdw) n).

  Fixpoint sv_loop (ks : list nat) (i : nat) (x : F) (M : matrix) (b : vec) : matrix * vec :=
    match ks with
    | [] => (M, b)
    | k :: ks' =>
        let z := mget M k i in
        if aeqb A z zero then sv_loop ks' i x M b
        else
          let b' := vset b k (vget b k -. z *. x) in
          let M' := if Nat.eqb i k then M else mput M zero k i in
          sv_loop ks' i x M' b'
    end.

  Definition setvalue (L : lin) (i : nat) (x : F) : lin :=
    let '(fst, lst) := sv_window (ln L) (lbdw L) i in
    let '(M, b) := sv_loop (seq fst (lst - fst)) i x (lM L) (lb L) in
    lwithMb L M (vset b i (mget M i i *. x)).

  (* CBigLinProb::Periodicity / AntiPeriodicity with KLUDGE defined: bdw forced to 0,
     hence the loop runs over all k and the jump at k==i+bdw is dead. *)
  Fixpoint per_loop (anti : bool) (ks : list nat) (i j : nat) (M : matrix) : matrix :=
    match ks with
    | [] => M
    | k :: ks' =>
        if Nat.eqb k i || Nat.eqb k j then per_loop anti ks' i j M
        else
          let v1 := mget M k i in
          let v2 := mget M k j in
          if negb (aeqb A v1 zero) || negb (aeqb A v2 zero) then
            let c := if anti then (v1 -. v2) /. aofZ A 2 else (v1 +. v2) /. aofZ A 2 in
            let M1 := mput M c k i in
            let M2 := mput M1 (if anti then aneg A c else c) k j in
            per_loop anti ks' i j M2
          else per_loop anti ks' i j M
    end.

  Definition half := adec A 5 (-1).

  Definition periodicity (L : lin) (i j : nat) : lin :=
    let '(i, j) := if Nat.ltb j i then (j, i) else (i, j) in
    let M := per_loop false (seq 0 (ln L)) i j (lM L) in
    let c := (mget M i i +. mget M j j) /. aofZ A 2 in
    let M := mput (mput M c i i) c j j in
    let b := lb L in
    let cb := half *. (vget b i +. vget b j) in
    lwithMb L M (vset (vset b i cb) j cb).

  Definition antiperiodicity (L : lin) (i j : nat) : lin :=
    let '(i, j) := if Nat.ltb j i then (j, i) else (i, j) in
    let M := per_loop true (seq 0 (ln L)) i j (lM L) in
    let c := half *. (mget M i i +. mget M j j) in
    let M := mput (mput M c i i) c j j in
    let b := lb L in
    let cb := half *. (vget b i -. vget b j) in
    lwithMb L M (vset (vset b i cb) j (aneg A cb)).

  (* CBigLinProb::Wipe *)
  Definition wipe (L : lin) : lin :=
    lwithMb L (map (map (fun '(c, _) => (c, zero))) (lM L)) (vzero (ln L)).

  (* CBigLinProb::PCGSolve as a fuelled loop.  Result: (V, iterations, status)
     status 0 = singular flag, 1 = converged / zero rhs, 2 = fuel exhausted. *)
  Definition vaxpy (a : F) (X Y : vec) : vec :=       (* Y + a*X *)
    map (fun '(y, x) => y +. a *. x) (combine Y X).
  Definition vaxmy (a : F) (X Y : vec) : vec :=       (* Y - a*X *)
    map (fun '(y, x) => y -. a *. x) (combine Y X).

  Record cgstate := mkCG { cV : vec; cP : vec; cR : vec; cres : F }.

  Definition cg_step (M : matrix) (lam : F) (s : cgstate) : cgstate :=
    let U := multA M (cP s) in
    let pAp := dot (cP s) U in
    let del := cres s /. pAp in
    let V' := vaxpy del (cP s) (cV s) in
    let R' := vaxmy del U (cR s) in
    let Z := multPC M lam R' in
    let res_new := dot Z R' in
    let rho := res_new /. cres s in
    let P' := map (fun '(z, p) => z +. rho *. p) (combine Z (cP s)) in
    mkCG V' P' R' res_new.

  Fixpoint cg_loop (fuel : nat) (M : matrix) (lam prec res_o : F) (s : cgstate) (it : nat)
    : cgstate * nat * bool :=
    match fuel with
    | O => (s, it, false)
    | S fuel' =>
        let s' := cg_step M lam s in
        let er := asqrt A (cres s' /. res_o) in
        if altb A prec er then cg_loop fuel' M lam prec res_o s' (S it)
        else (s', S it, true)
    end.

  Definition has_zero_diag (M : matrix) : bool :=
    existsb (fun r => aeqb A (diag_of r) zero) M.

  Definition pcg (fuel : nat) (L : lin) (flag : bool) : vec * nat * nat :=
    let M := lM L in
    if has_zero_diag M then (lV L, 0, 0)
    else
      let Z0 := multPC M (llam L) (lb L) in
      let res_o := dot Z0 (lb L) in
      if aeqb A res_o zero then (lV L, 0, 1)
      else
        let V0 := if flag then lV L else vzero (ln L) in
        let R0 := map (fun '(b, r) => b -. r) (combine (lb L) (multA M V0)) in
        let Z := multPC M (llam L) R0 in
        let res := dot Z R0 in
        let '(s, it, ok) := cg_loop fuel M (llam L) (lprec L) res_o (mkCG V0 Z R0 res) 0 in
        (cV s, it, if ok then 1 else 2).

  (* op scripts, as driven through the harness *)
  Inductive op :=
  | OPut (v : F) (p q : nat) | OAddTo (v : F) (p q : nat) | OGet (p q : nat)
  | OSetB (i : nat) (v : F) | OSetV (i : nat) (v : F)
  | OSetValue (i : nat) (v : F) | OPeriodic (i j : nat) | OAntiPeriodic (i j : nat)
  | OMultA (X : vec) | OMultPC (X : vec) | OWipe | OSolve (flag : bool) (fuel : nat)
  | ODump.

  (* outputs: every op yields a list of numbers *)
  Definition dump_rows (M : matrix) : list F :=
    concat (map (fun r => aofZ A (Z.of_nat (length r))
                          :: concat (map (fun '(c, x) => [aofZ A (Z.of_nat c); x]) r)) M).

  Definition step (L : lin) (o : op) : lin * list F :=
    match o with
    | OPut v p q => (lput L v p q, [])
    | OAddTo v p q => (laddto L v p q, [])
    | OGet p q => (L, [mget (lM L) p q])
    | OSetB i v => (lsetb L i v, [])
    | OSetV i v => (lsetV L i v, [])
    | OSetValue i v => (setvalue L i v, [])
    | OPeriodic i j => (periodicity L i j, [])
    | OAntiPeriodic i j => (antiperiodicity L i j, [])
    | OMultA X => (L, multA (lM L) X)
    | OMultPC X => (L, multPC (lM L) (llam L) X)
    | OWipe => (wipe L, [])
    | OSolve flag fuel =>
        let '(V, it, st) := pcg fuel L flag in
        (mkLin (ln L) (lbdw L) (lM L) (lb L) V (lprec L) (llam L),
         aofZ A (Z.of_nat st) :: aofZ A (Z.of_nat it) :: V)
    | ODump => (L, dump_rows (lM L) ++ lb L)
    end.

  Fixpoint run (L : lin) (ops : list op) : list (list F) :=
    match ops with
    | [] => []
    | o :: ops' => let '(L', out) := step L o in out :: run L' ops'
    end.
End Sparse.

Notation rowT F := (list (nat * F)) (only parsing).
Notation matrixT F := (list (list (nat * F))) (only parsing).
Notation vecT F := (list F) (only parsing).
