(* Properties_C02_poly.v — theorem statements about PolyWrite.v: what fmesher hands to Triangle on the
   non-periodic path (points, markers, segments, holes, regions, switches) and what it writes from
   Triangle's answer.  Serves C02 (assignments reach the right places), C18 (sizes / angle handed to
   Triangle) and C01 (drawn points are PSLG vertices; the files are Triangle's tables).
   Structural theorems hold for EVERY reading of the arithmetic (in particular the binary64 one the
   correspondence runs); theorems about sizes and angles are about the real-number reading. *)
From Coq Require Import ZArith List Bool Arith String Reals Lra Floats.
From XF Require Import Arith Marker MarkerProofs Discretize PolyWrite PolyWriteProofs.
Import ListNotations.

(* ------------------------------ C02: markers ------------------------------------------------- *)

(* a drawn point or a created node: what the marker loops compute from NAMES (all property lists) *)
Theorem C02_poly_points_and_their_markers :
  forall (F : Type) (A : Arith F) S P pts lines arcs labels T,
  poly_input A S P pts lines arcs labels = Some T ->
  exists created : list (F * F),
    (ti_points T = map fst pts ++ created) /\
    List.length (ti_pmarks T) = List.length (ti_points T) /\
    (forall i d, (i < List.length pts)%nat ->
       exists nm, pair_names (p_point P) (p_cond P) (fst (snd (nth i pts d))) (snd (snd (nth i pts d))) = Some nm /\
                  nth i (ti_pmarks T) 0%Z = point_marker (s_mag S) P nm) /\
    (forall i, (List.length pts <= i < List.length (ti_points T))%nat ->
       nth i (ti_pmarks T) 0%Z = point_marker (s_mag S) P (none_name, none_name)).
Proof. exact @poly_input_points. Qed.
Print Assumptions C02_poly_points_and_their_markers.

(* every drawn point keeps its index and coordinates (C01: drawn points are PSLG vertices) *)
Theorem C01_poly_drawn_points_keep_index :
  forall (F : Type) (A : Arith F) S P pts lines arcs labels T,
  poly_input A S P pts lines arcs labels = Some T ->
  forall i d, (i < List.length pts)%nat -> nth i (ti_points T) (fst d) = fst (nth i pts d).
Proof. exact @drawn_points_keep_index. Qed.
Print Assumptions C01_poly_drawn_points_keep_index.

(* with distinct property names none of which is "<None>": the marker of drawn point i is the codec's
   encoding of ITS point property and conductor (magnetics: property only) *)
Theorem C02_poly_drawn_point_marker :
  forall (F : Type) (A : Arith F) S P pts lines arcs labels T,
  poly_input A S P pts lines arcs labels = Some T -> names_ok (p_point P) -> names_ok (p_cond P) ->
  forall i d, (i < List.length pts)%nat ->
    nth i (ti_pmarks T) 0%Z
    = if s_mag S then enc_pt_mag (idx_opt (fst (snd (nth i pts d))))
      else enc_pt (idx_opt (fst (snd (nth i pts d)))) (idx_opt (snd (snd (nth i pts d)))).
Proof. exact @drawn_point_marker. Qed.
Print Assumptions C02_poly_drawn_point_marker.

(* nodes created by the subdivision carry the neutral marker 0 ... *)
Theorem C02_poly_created_nodes_neutral :
  forall (F : Type) (A : Arith F) S P pts lines arcs labels T,
  poly_input A S P pts lines arcs labels = Some T -> ~ In none_name (p_point P) -> ~ In none_name (p_cond P) ->
  forall i, (List.length pts <= i < List.length (ti_points T))%nat -> nth i (ti_pmarks T) 0%Z = 0%Z.
Proof. exact @created_nodes_neutral. Qed.
Print Assumptions C02_poly_created_nodes_neutral.

(* ... unless a point property (or conductor) is called "<None>": then every created node gets it *)
Theorem C02_poly_created_nodes_neutral_refuted : exists P, point_marker false P (none_name, none_name) <> 0%Z.
Proof. exact created_marker_refuted. Qed.
Print Assumptions C02_poly_created_nodes_neutral_refuted.

(* every PSLG segment carries the index (cnt) of a drawn line or arc and the marker computed from that
   entity's boundary-property and conductor names *)
Theorem C02_poly_segments_and_their_markers :
  forall (F : Type) (A : Arith F) S P pts lines arcs labels T,
  poly_input A S P pts lines arcs labels = Some T ->
  exists nodes (segs : list (nat * nat * nat)),
    discretize A (s_smart S) (map fst pts) (map fst lines) (map fst arcs) = Some (nodes, segs) /\
    ti_points T = nodes /\
    ti_segs T = map (fun s : nat * nat * nat => (fst (fst s), snd (fst s))) segs /\
    List.length (ti_smarks T) = List.length segs /\
    forall k d, (k < List.length segs)%nat ->
      (snd (nth k segs d) < List.length lines + List.length arcs)%nat /\
      exists nm,
        pair_names (p_bdry P) (p_cond P) (e_bdry (nth (snd (nth k segs d)) (ent_attrs lines arcs) dflt_attr))
                   (e_cond (nth (snd (nth k segs d)) (ent_attrs lines arcs) dflt_attr)) = Some nm /\
        nth k (ti_smarks T) 0%Z = seg_marker (s_mag S) P nm.
Proof. exact @poly_input_segments. Qed.
Print Assumptions C02_poly_segments_and_their_markers.

(* which segments come from which entity: line i only adds segments with cnt = i, arc i only cnt = i + #lines *)
Theorem C02_poly_line_segments_carry_line_index :
  forall (F : Type) (A : Arith F) dosmart dL orig i l st,
  extends (fun c => c = i) st (discretize_line A dosmart dL orig i l st).
Proof. exact @discretize_line_extends. Qed.
Print Assumptions C02_poly_line_segments_carry_line_index.
Theorem C02_poly_arc_segments_carry_arc_index :
  forall (F : Type) (A : Arith F) orig nlines i a st,
  extends (fun c => c = (i + nlines)%nat) st (discretize_arc A orig nlines i a st).
Proof. exact @discretize_arc_extends. Qed.
Print Assumptions C02_poly_arc_segments_carry_arc_index.

(* with distinct names: the marker of every sub-segment is the encoding of its drawn entity's assignment *)
Theorem C02_poly_segment_marker :
  forall (F : Type) (A : Arith F) S P pts lines arcs labels T,
  poly_input A S P pts lines arcs labels = Some T -> names_ok (p_bdry P) -> names_ok (p_cond P) ->
  exists nodes (segs : list (nat * nat * nat)),
    discretize A (s_smart S) (map fst pts) (map fst lines) (map fst arcs) = Some (nodes, segs) /\
    ti_segs T = map (fun s : nat * nat * nat => (fst (fst s), snd (fst s))) segs /\
    forall k d, (k < List.length segs)%nat ->
      (snd (nth k segs d) < List.length lines + List.length arcs)%nat /\
      nth k (ti_smarks T) 0%Z
      = if s_mag S then enc_seg_mag (idx_opt (e_bdry (nth (snd (nth k segs d)) (ent_attrs lines arcs) dflt_attr)))
        else enc_seg (idx_opt (e_bdry (nth (snd (nth k segs d)) (ent_attrs lines arcs) dflt_attr)))
                     (idx_opt (e_cond (nth (snd (nth k segs d)) (ent_attrs lines arcs) dflt_attr))).
Proof. exact @segment_marker. Qed.
Print Assumptions C02_poly_segment_marker.

(* duplicate names break it: the LAST boundary property of a name is encoded, EVERY conductor of a name is added *)
Theorem C02_poly_segment_marker_refuted :
  exists P i c nm, pair_names (p_bdry P) (p_cond P) i c = Some nm /\ seg_marker false P nm <> enc_seg (idx_opt i) (idx_opt c).
Proof. exact seg_marker_duplicate_refuted. Qed.
Print Assumptions C02_poly_segment_marker_refuted.

(* composed with the codec's round trip: the solvers' decoders recover exactly the drawn entity's assignment *)
Theorem C02_poly_segment_marker_decodes :
  forall (F : Type) (A : Arith F) S P pts lines arcs labels T,
  poly_input A S P pts lines arcs labels = Some T -> s_mag S = false -> names_ok (p_bdry P) -> names_ok (p_cond P) ->
  exists nodes (segs : list (nat * nat * nat)),
    discretize A (s_smart S) (map fst pts) (map fst lines) (map fst arcs) = Some (nodes, segs) /\
    forall k d, (k < List.length segs)%nat ->
      let a := nth (snd (nth k segs d)) (ent_attrs lines arcs) dflt_attr in
      prop_ok (idx_opt (e_bdry a)) -> cond_ok (idx_opt (e_cond a)) ->
      dec_seg (nth k (ti_smarks T) 0%Z) = (idx_opt (e_bdry a), idx_opt (e_cond a)).
Proof. exact @segment_marker_decodes. Qed.
Print Assumptions C02_poly_segment_marker_decodes.

Theorem C02_poly_segment_marker_decodes_mag :
  forall (F : Type) (A : Arith F) S P pts lines arcs labels T,
  poly_input A S P pts lines arcs labels = Some T -> s_mag S = true -> names_ok (p_bdry P) -> names_ok (p_cond P) ->
  exists nodes (segs : list (nat * nat * nat)),
    discretize A (s_smart S) (map fst pts) (map fst lines) (map fst arcs) = Some (nodes, segs) /\
    forall k d, (k < List.length segs)%nat ->
      let a := nth (snd (nth k segs d)) (ent_attrs lines arcs) dflt_attr in
      (match idx_opt (e_bdry a) with Some j => 0 <= j < 2 ^ 31 - 2 | None => True end)%Z ->
      dec_seg_mag (nth k (ti_smarks T) 0%Z) = idx_opt (e_bdry a).
Proof. exact @segment_marker_decodes_mag. Qed.
Print Assumptions C02_poly_segment_marker_decodes_mag.

Theorem C02_poly_drawn_point_marker_decodes :
  forall (F : Type) (A : Arith F) S P pts lines arcs labels T,
  poly_input A S P pts lines arcs labels = Some T -> s_mag S = false -> names_ok (p_point P) -> names_ok (p_cond P) ->
  forall i d, (i < List.length pts)%nat ->
    prop_ok (idx_opt (fst (snd (nth i pts d)))) -> cond_ok (idx_opt (snd (snd (nth i pts d)))) ->
    dec_pt (nth i (ti_pmarks T) 0%Z) = (idx_opt (fst (snd (nth i pts d))), idx_opt (snd (snd (nth i pts d)))).
Proof. exact @drawn_point_marker_decodes. Qed.
Print Assumptions C02_poly_drawn_point_marker_decodes.

Theorem C02_poly_drawn_point_marker_decodes_mag :
  forall (F : Type) (A : Arith F) S P pts lines arcs labels T,
  poly_input A S P pts lines arcs labels = Some T -> s_mag S = true -> names_ok (p_point P) -> names_ok (p_cond P) ->
  forall i d, (i < List.length pts)%nat ->
    (match idx_opt (fst (snd (nth i pts d))) with Some j => 0 <= j < 2 ^ 31 - 2 | None => True end)%Z ->
    dec_pt_mag (nth i (ti_pmarks T) 0%Z) = idx_opt (fst (snd (nth i pts d))).
Proof. exact @drawn_point_marker_decodes_mag. Qed.
Print Assumptions C02_poly_drawn_point_marker_decodes_mag.

Theorem C02_poly_created_nodes_decode_to_nothing :
  forall (F : Type) (A : Arith F) S P pts lines arcs labels T,
  poly_input A S P pts lines arcs labels = Some T -> ~ In none_name (p_point P) -> ~ In none_name (p_cond P) ->
  forall i, (List.length pts <= i < List.length (ti_points T))%nat ->
    dec_pt (nth i (ti_pmarks T) 0%Z) = (None, None) /\ dec_pt_mag (nth i (ti_pmarks T) 0%Z) = None.
Proof. exact @created_nodes_decode_to_nothing. Qed.
Print Assumptions C02_poly_created_nodes_decode_to_nothing.

(* the Hidden flag of a line or arc is no input: a hidden entity keeps its boundary property and conductor *)
Theorem C02_poly_hidden_flag_ignored :
  forall (F : Type) (A : Arith F) S P pts lines arcs lines' arcs' labels,
  map fst lines = map fst lines' -> map fst arcs = map fst arcs' ->
  map (fun l => (e_bdry (snd l), e_cond (snd l))) lines = map (fun l => (e_bdry (snd l), e_cond (snd l))) lines' ->
  map (fun l => (e_bdry (snd l), e_cond (snd l))) arcs = map (fun l => (e_bdry (snd l), e_cond (snd l))) arcs' ->
  poly_input A S P pts lines arcs labels = poly_input A S P pts lines' arcs' labels.
Proof. exact @poly_input_ignores_hidden. Qed.
Print Assumptions C02_poly_hidden_flag_ignored.

(* ------------------------------ C02: holes and regions --------------------------------------- *)

Theorem C02_poly_holes_are_the_nomesh_labels :
  forall (F : Type) (A : Arith F) S P pts lines arcs labels T,
  poly_input A S P pts lines arcs labels = Some T ->
  ti_holes T = map (fun l => (lb_x l, lb_y l)) (filter is_hole labels).
Proof. exact @poly_input_holes. Qed.
Print Assumptions C02_poly_holes_are_the_nomesh_labels.

Theorem C02_poly_hole_iff_nomesh_label :
  forall (F : Type) (A : Arith F) S P pts lines arcs labels T h,
  poly_input A S P pts lines arcs labels = Some T ->
  (In h (ti_holes T) <-> exists l, In l labels /\ lb_block l = (-1)%Z /\ h = (lb_x l, lb_y l)).
Proof. exact @holes_iff. Qed.
Print Assumptions C02_poly_hole_iff_nomesh_label.

(* one region per meshed label, in order, at the label's position; attribute = rank among the MESHED labels + 1
   (so attribute - 1 indexes the list of meshed labels = the [NumBlockLabels] list of a file written by xfemm);
   constraint = area_constraint of the label's converted mesh size *)
Theorem C02_poly_regions_are_the_meshed_labels :
  forall (F : Type) (A : Arith F) S P pts lines arcs labels T,
  poly_input A S P pts lines arcs labels = Some T ->
  List.length (ti_regions T) = List.length (meshed labels) /\
  forall j dl dr, (j < List.length (meshed labels))%nat ->
    nth j (ti_regions T) dr
    = (lb_x (nth j (meshed labels) dl), lb_y (nth j (meshed labels) dl), aofZ A (Z.of_nat j + 1),
       area_constraint A (s_force S) (default_mesh_size A (s_smart S) (ti_points T))
                       (max_area_of_size A (lb_size (nth j (meshed labels) dl)))).
Proof. exact @poly_input_regions. Qed.
Print Assumptions C02_poly_regions_are_the_meshed_labels.

Theorem C02_poly_meshed_labels_have_material :
  forall (F : Type) (A : Arith F) S P pts lines arcs labels T l,
  poly_input A S P pts lines arcs labels = Some T -> In l (meshed labels) -> (0 <= lb_block l < p_nblock P)%Z.
Proof. exact @meshed_labels_have_material. Qed.
Print Assumptions C02_poly_meshed_labels_have_material.

(* ------------------------------ C18: sizes and angle (real-number reading) ------------------- *)
Local Open Scope R_scope.

(* the conversion done by the label parsers: mesh size d > 0 -> area of the circle of diameter d *)
Theorem C18_poly_mesh_size_conversion : forall d, 0 < d -> max_area_of_size RA d = PI * (d / 2) * (d / 2).
Proof. exact max_area_R. Qed.
Print Assumptions C18_poly_mesh_size_conversion.

Theorem C18_poly_constraint_at_most_circle : forall force dflt d,
  0 < d -> area_constraint RA force dflt (max_area_of_size RA d) <= PI * (d / 2) * (d / 2).
Proof. exact constraint_le_circle. Qed.
Print Assumptions C18_poly_constraint_at_most_circle.

(* an element whose area respects the constraint handed to Triangle fits C18's statement *)
Theorem C18_poly_element_within_circle : forall force dflt d area,
  0 < d -> area <= area_constraint RA force dflt (max_area_of_size RA d) -> area <= PI * (d / 2) * (d / 2).
Proof. exact element_within_circle. Qed.
Print Assumptions C18_poly_element_within_circle.

Theorem C18_poly_constraint_is_circle : forall force dflt d,
  0 < d -> (force = false \/ PI * (d / 2) * (d / 2) <= dflt) ->
  area_constraint RA force dflt (max_area_of_size RA d) = PI * (d / 2) * (d / 2).
Proof. exact constraint_is_circle. Qed.
Print Assumptions C18_poly_constraint_is_circle.

Theorem C18_poly_constraint_forced : forall dflt d,
  0 < d -> dflt < PI * (d / 2) * (d / 2) -> area_constraint RA true dflt (max_area_of_size RA d) = dflt.
Proof. exact constraint_forced. Qed.
Print Assumptions C18_poly_constraint_forced.

Theorem C18_poly_constraint_default : forall force dflt d,
  d <= 0 -> area_constraint RA force dflt (max_area_of_size RA d) = dflt.
Proof. exact constraint_default. Qed.
Print Assumptions C18_poly_constraint_default.

(* the default: smart mesh -> (diagonal of the bounding box of ALL PSLG nodes / 100)^2; otherwise the diagonal itself
   (a length used as an area); -1 for an empty drawing *)
Theorem C18_poly_default_mesh_size : forall smart p0 nodes,
  default_mesh_size RA smart (p0 :: nodes)
  = let mm := bbox RA p0 (p0 :: nodes) in
    let diag := cabsf RA (csub RA (snd mm) (fst mm)) in
    if smart then (diag / 100) * (diag / 100) else diag.
Proof. exact default_mesh_size_R. Qed.
Print Assumptions C18_poly_default_mesh_size.
Theorem C18_poly_default_mesh_size_empty : forall smart, default_mesh_size RA smart [] = -1.
Proof. exact default_mesh_size_empty. Qed.
Print Assumptions C18_poly_default_mesh_size_empty.
Theorem C18_poly_bounding_box_contains_nodes : forall p0 nodes p,
  In p (p0 :: nodes) -> in_box (bbox RA p0 (p0 :: nodes)) p.
Proof. exact bbox_contains. Qed.
Print Assumptions C18_poly_bounding_box_contains_nodes.

(* minimum angle: min(MinAngle + 3, 33.8) *)
Theorem C18_poly_min_angle_cap : forall S : @settings R, min_angle_arg RA S <= 338 / 10.
Proof. exact min_angle_cap. Qed.
Print Assumptions C18_poly_min_angle_cap.
Theorem C18_poly_min_angle_bump : forall S : @settings R, s_minangle S <= 308 / 10 -> min_angle_arg RA S = s_minangle S + 3.
Proof. exact min_angle_bump. Qed.
Print Assumptions C18_poly_min_angle_bump.
Theorem C18_poly_min_angle_at_least_setting : forall S : @settings R, s_minangle S <= 338 / 10 -> s_minangle S <= min_angle_arg RA S.
Proof. exact min_angle_ge_setting. Qed.
Print Assumptions C18_poly_min_angle_at_least_setting.
(* beyond the cap Triangle is asked for LESS than the setting (C18 quantifies over 1..33 degrees) *)
Theorem C18_poly_min_angle_at_least_setting_refuted : exists S : @settings R, min_angle_arg RA S < s_minangle S.
Proof. exact min_angle_beyond_cap_refuted. Qed.
Print Assumptions C18_poly_min_angle_at_least_setting_refuted.
Local Close Scope R_scope.

(* ------------------------------ C01: switches and written files ------------------------------ *)

Theorem C01_poly_switches : forall verbose angle,
  nonperiodic_switches verbose angle
  = ["-pPq"%string; angle; "eAaz"%string] ++ (if verbose then [] else ["Q"%string]) ++ ["I"%string; "j"%string].
Proof. exact switches_shape. Qed.
Print Assumptions C01_poly_switches.

Theorem C01_poly_switch_flags : forall verbose angle,
  In "j"%string (nonperiodic_switches verbose angle) /\
  (angle <> "Y"%string -> ~ In "Y"%string (nonperiodic_switches verbose angle)) /\
  (angle <> "Q"%string -> (In "Q"%string (nonperiodic_switches verbose angle) <-> verbose = false)).
Proof. exact switches_flags. Qed.
Print Assumptions C01_poly_switch_flags.

(* the written files reproduce Triangle's output arrays entry by entry, numbered from zero *)
Theorem C01_poly_node_file : forall (F : Type) (A : Arith F) (o : @tri_out F),
  (0 < o_np o)%Z ->
  List.length (node_file A o) = S (Z.to_nat (o_np o)) /\
  nth 0 (node_file A o) [] = [TI (o_np o); TI 2; TI 0; TI 1] /\
  forall k, (k < Z.to_nat (o_np o))%nat ->
    nth (S k) (node_file A o) []
    = [TI (Z.of_nat k); TF (zn (o_pointlist o) (azero A) (2 * Z.of_nat k)); TF (zn (o_pointlist o) (azero A) (2 * Z.of_nat k + 1));
       TI (zn (o_pointmarkers o) 0%Z (Z.of_nat k))].
Proof. exact @node_file_rows. Qed.
Print Assumptions C01_poly_node_file.

Theorem C02_poly_edge_file : forall (F : Type) (o : @tri_out F),
  (0 < o_ne o)%Z ->
  List.length (edge_file o) = S (Z.to_nat (o_ne o)) /\
  nth 0 (edge_file o) [] = [TI (o_ne o); TI 1] /\
  forall k, (k < Z.to_nat (o_ne o))%nat ->
    nth (S k) (edge_file o) []
    = [TI (Z.of_nat k); TI (zn (o_edgelist o) 0%Z (2 * Z.of_nat k)); TI (zn (o_edgelist o) 0%Z (2 * Z.of_nat k + 1));
       TI (zn (o_edgemarkers o) 0%Z (Z.of_nat k))].
Proof. exact @edge_file_rows. Qed.
Print Assumptions C02_poly_edge_file.

Theorem C02_poly_ele_file : forall (F : Type) (A : Arith F) (o : @tri_out F),
  (0 < o_nt o)%Z -> o_corners o = 3%Z -> o_nattr o = 1%Z ->
  exists rows, ele_file A o = Some rows /\
    List.length rows = S (Z.to_nat (o_nt o)) /\
    nth 0 rows [] = [TI (o_nt o); TI 3; TI 1] /\
    forall k, (k < Z.to_nat (o_nt o))%nat ->
      nth (S k) rows []
      = [TI (Z.of_nat k); TI (zn (o_trilist o) 0%Z (3 * Z.of_nat k + 0)); TI (zn (o_trilist o) 0%Z (3 * Z.of_nat k + 1));
         TI (zn (o_trilist o) 0%Z (3 * Z.of_nat k + 2)); TF (zn (o_triattr o) (azero A) (1 * Z.of_nat k + 0))].
Proof. exact @ele_file_rows. Qed.
Print Assumptions C02_poly_ele_file.

Theorem C01_poly_ele_file_general : forall (F : Type) (A : Arith F) (o : @tri_out F),
  (0 < o_nt o)%Z -> (1 <= o_corners o)%Z ->
  exists rows, ele_file A o = Some rows /\
    List.length rows = S (Z.to_nat (o_nt o)) /\
    forall k, (k < Z.to_nat (o_nt o))%nat ->
      nth (S k) rows []
      = [TI (Z.of_nat k)] ++ map (fun j => TI (zn (o_trilist o) 0%Z (o_corners o * Z.of_nat k + j))) (zseq (o_corners o))
        ++ map (fun j => TF (zn (o_triattr o) (azero A) (o_nattr o * Z.of_nat k + j))) (zseq (o_nattr o)).
Proof. exact @ele_file_rows_general. Qed.
Print Assumptions C01_poly_ele_file_general.

Theorem C01_poly_empty_tables_empty_files : forall (F : Type) (A : Arith F) (o : @tri_out F),
  ((o_np o <= 0)%Z -> node_file A o = []) /\ ((o_ne o <= 0)%Z -> edge_file o = []) /\ ((o_nt o <= 0)%Z -> ele_file A o = Some []).
Proof. exact @empty_tables_empty_files. Qed.
Print Assumptions C01_poly_empty_tables_empty_files.

(* Triangle failing: its status is returned and no mesh file is written *)
Theorem C01_poly_result_status : forall (F : Type) (A : Arith F) (st : Z) (o : @tri_out F),
  (st <> 0%Z -> nonperiodic_result A st o = (st, None)) /\
  (st = 0%Z -> nonperiodic_result A st o = (0%Z, Some (node_file A o, edge_file o, ele_file A o))).
Proof. exact @result_status. Qed.
Print Assumptions C01_poly_result_status.

(* ------------------------------ the hypotheses are satisfiable -------------------------------- *)
Definition ex_props : props := mkProps ["pp"%string] ["V0"%string; "V1"%string] ["c1"%string; "c2"%string] 2.
Definition ex_settings : @settings float := mkSettings false false false false 30%float.
Definition ex_pts : list ((float * float) * (Z * Z)) :=
  [((0, 0)%float, (-1, -1)%Z); ((4, 0)%float, (0, 1)%Z); ((4, 3)%float, (-1, 0)%Z); ((0, 3)%float, (-1, -1)%Z)].
Definition ex_lines : list (@dline float * ent_attr) :=
  [(mkDLine 0 1 (-1)%float 1, mkAttr 0 (-1) false); (mkDLine 1 2 (-1)%float 1, mkAttr (-1) 1 true);
   (mkDLine 2 3 1.5%float 3, mkAttr 1 0 false); (mkDLine 3 0 (-1)%float 1, mkAttr (-1) (-1) false)].
Definition ex_labels : list (@xlabel float) :=
  [mkLabel 3%float 2%float (-1) 0%float; mkLabel 1%float 1%float 0 0.5%float; mkLabel 2%float 1%float 1 0%float].

Example XPOLY_hypotheses_satisfiable :
  names_ok (p_point ex_props) /\ names_ok (p_bdry ex_props) /\ names_ok (p_cond ex_props) /\
  exists T, poly_input FA ex_settings ex_props ex_pts ex_lines [] ex_labels = Some T /\
            List.length (ti_points T) = 6%nat /\ ti_pmarks T = [0; 131074; 65536; 0; 0; 0]%Z /\
            ti_smarks T = [-2; -131072; -65539; -65539; -65539; 0]%Z /\
            List.length (ti_holes T) = 1%nat /\ List.length (ti_regions T) = 2%nat.
Proof.
  repeat split; try (repeat constructor; simpl; intuition discriminate); try (simpl; intuition discriminate).
  eexists. split; [vm_compute; reflexivity|]. repeat split.
Qed.

Example XPOLY_real_hypotheses_satisfiable :
  (0 < 0.5)%R /\ exists S : @settings R, (s_minangle S <= 308 / 10)%R.
Proof. split; [lra|]. exists (mkSettings false false false false 30%R). simpl. lra. Qed.
