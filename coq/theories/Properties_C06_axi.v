(* Properties_C06_axi.v — theorem statements about the AXISYMMETRIC magnetics solvers that belong to C06 (uniform axial flux density is reproduced).
   (the other parts are in Properties_C05_axi.v, Properties_C06_axi.v, Properties_C10_axi.v, Properties_C11_axi.v);
   they belong to (C05, C11, C06, C10).  Models: AsmMAxi.v (FSolver::StaticAxisymmetric; the solution is
   written by WriteStatic2D), AsmMHAxi.v (FSolver::HarmonicAxisymmetric; WriteHarmonic2D).
   Proofs: AsmMAxiProofs.v, AsmMAxiLinearProofs.v, AsmMHAxiProofs.v.  Real-number reading; complex numbers
   are pairs of reals.  Units: lengths in cm, V = A/c with c = 4 pi 1e-5, J in MA/m^2; the code's equations are
   2/(2 pi) times the SI weak form.  Names of the element data follow the code: rn[] = e_r, p[] = e_p, q[] = e_q,
   g[] = e_g (mid-side radii), R = e_R, a = e_a, a_hat = e_ah, R_hat = e_Rh, vol = e_vol = 2 R a_hat. *)
From Coq Require Import ZArith List Bool Arith Lia Reals Lra.
From XF Require Import Arith Sparse CSparse SparseProofs AsmOps AsmOpsProofs AsmE AsmEProofs AsmM AsmMProofs AsmMH AsmMHProofs
  ClosedFormProofs AsmMAxi AsmMAxiProofs AsmMAxiLinearProofs AsmMHAxi AsmMHAxiProofs.
Import ListNotations.
Local Open Scope R_scope.

(* ====================================================================================================== *)
(* C06 — uniform axial flux density                                                                       *)
(* ====================================================================================================== *)

(* (a) the row of an off-axis node of ANY element applied to the nodal values of A = B0 r/2 (the code's potential
   for B_z = B0; u = r A = B0 r^2/2 is affine in r^2, so the interpolation is exact): the radial-flux part
   vanishes identically, whatever R_hat and mu1 are; the axial part is -B0 p_j r_j / mu2 *)
Theorem C06_axi_row_on_uniform_Bz :
  forall (AP : aprob (F:=R)) (extRo extRi extZo : R) (res : list (nat * R * R))
         (el : melem (F:=R)) (lg : alogs (F:=R)) (B0 : R) (j : nat),
  no_mixed_edge (ap AP) el -> (j < 3)%nat -> e_axis AP el j = false ->
  e_ah AP el <> 0 -> e_R AP el <> 0 ->
  let Me := fst (fst (amelem_matrices RA AP extRo extRi extZo res (el, lg))) in
  let Av := fun k => B0 * e_r AP el k / 2 in
  m3get RA Me j 0 * Av 0%nat + m3get RA Me j 1 * Av 1%nat + m3get RA Me j 2 * Av 2%nat
    = - B0 * e_p AP el j * e_r AP el j / snd (e_mu AP extRo extRi extZo el).
Proof. exact axi_row_on_uniform_Bz. Qed.
Print Assumptions C06_axi_row_on_uniform_Bz.

(* (b) around ANY closed fan (any valence, any coordinates) with one axial permeability these contributions
   cancel: sum of p = sum of (z_i - z_{i+1}) = 0 *)
Theorem C06_axi_fan_row_zero : forall (ring : list (R * R)) (rc B0 mu2 : R),
  lsumR (fun pq => - B0 * (snd (fst pq) - snd (snd pq)) * rc / mu2) (ring_pairs ring) = 0.
Proof. exact axi_fan_row_zero. Qed.
Print Assumptions C06_axi_fan_row_zero.

(* (c) MODEL LEVEL: a closed fan of model elements (c, a_i, a_{i+1}) around an off-axis node c, all with the same
   effective axial permeability, without mixed-boundary edges: the assembled row of c vanishes on A = B0 r/2.
   The statement is TRUE for the faithful model (no "_refuted"): FEMM's formulation is exact for this field. *)
Theorem C06_axi_fan_rows_vanish :
  forall (AP : aprob (F:=R)) (extRo extRi extZo : R) (res : list (nat * R * R))
         (els : list (melem (F:=R) * alogs (F:=R))) (ring : list (R * R)) (c : nat) (B0 mu2 : R),
  (forall ela, In ela els ->
     tri_get (mp (fst ela)) 0 = c /\ no_mixed_edge (ap AP) (fst ela) /\ e_axis AP (fst ela) 0 = false /\
     e_ah AP (fst ela) <> 0 /\ e_R AP (fst ela) <> 0 /\ snd (e_mu AP extRo extRi extZo (fst ela)) = mu2) ->
  map (fun ela : melem (F:=R) * alogs (F:=R) =>
         ((e_r AP (fst ela) 1, e_z AP (fst ela) 1), (e_r AP (fst ela) 2, e_z AP (fst ela) 2))) els = ring_pairs ring ->
  lsum (row0_on_uniform AP extRo extRi extZo res B0) els = 0.
Proof. exact axi_fan_rows_vanish. Qed.
Print Assumptions C06_axi_fan_rows_vanish.

