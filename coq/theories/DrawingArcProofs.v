(* DrawingArcProofs.v — proofs about the drawing-edit model with arc segments (DrawingArc.v,
   property C16).  Everything in Section GenericA holds for EVERY record of geometric oracles
   [GA : GeoArc F] (and, with it, every libm).  The lemmas of DrawingProofs.v about the points,
   lines and block labels are reused through [ad_base]. *)
From Coq Require Import ZArith List Bool Arith Lia Reals Lra Floats.
From XF Require Import Arith Drawing DrawingProofs DrawingArc.
Import ListNotations.

(* ------------------------------------------------------------------------------------- *)
(* structural well-formedness of the arc list *)
Definition arc_ok {F} (N : nat) (a : @arc F) : Prop := an0 a < N /\ an1 a < N /\ an0 a <> an1 a.
Definition aends {F} (l : list (@arc F)) : list (nat * nat) := map (fun a => (an0 a, an1 a)) l.

Lemma arc_ok_mono {F} N M (a : @arc F) : N <= M -> arc_ok N a -> arc_ok M a.
Proof. unfold arc_ok; lia. Qed.

Section GenericA.
  Context {F : Type}.
  Variable GA : GeoArc F.
  Variable fx : bool.
  Local Notation G := (ga_geo GA).
  Local Notation pt := (F * F)%type.
  Local Notation nodeT := (@node F).
  Local Notation labT := (@lab F).
  Local Notation arcT := (@arc F).
  Local Notation drawingT := (@drawing F).
  Local Notation adrawingT := (@adrawing F).
  Local Notation opT := (@op F).
  Local Notation aopT := (@aop F).

  (* "the same arc" as addArcSegment's own test understands it: [e] the arc that is already in the
     list, [n] the later one: same start point, same end point (same orientation), and
     fabs(e.ArcLength - n.ArcLength) < 1.e-02 *)
  Definition dupA (e n : arcT) : Prop :=
    an0 e = an0 n /\ an1 e = an1 n /\ ga_close GA (alen e) (alen n) = true.
  Fixpoint NoDupArc (l : list arcT) : Prop :=
    match l with
    | [] => True
    | a :: r => Forall (fun t => ~ dupA a t) r /\ NoDupArc r
    end.

  Definition NNA (st : adrawingT) : nat := NN (ad_base st).
  Definition AWF (st : adrawingT) : Prop := Forall (arc_ok (NNA st)) (ad_arcs st).
  (* the invariant: Inv2 of DrawingProofs.v for the lines, every arc joins two distinct existing points,
     no arc is there twice — up to the ghost flag of a double split *)
  Definition InvA (st : adrawingT) : Prop :=
    Inv2 (ad_base st) /\ AWF st /\ (ad_asplit st = true \/ NoDupArc (ad_arcs st)).

  (* ---- NoDupArc under list operations --------------------------------------------------------- *)
  Lemma NoDupArc_app l1 l2 :
    NoDupArc (l1 ++ l2) <->
    NoDupArc l1 /\ NoDupArc l2 /\ (forall a b, In a l1 -> In b l2 -> ~ dupA a b).
  Proof.
    induction l1 as [|a l1 IH]; cbn.
    - intuition.
    - rewrite Forall_app, IH. split.
      + intros [[H1 H2] [H3 [H4 H5]]]. repeat split; auto.
        intros x b [->|Hx] Hb; [|eauto]. rewrite Forall_forall in H2. auto.
      + intros [[H1 H2] [H3 H4]]. repeat split; auto.
        rewrite Forall_forall. intros b Hb. apply H4; auto.
  Qed.

  Lemma NoDupArc_filter f l : NoDupArc l -> NoDupArc (filter f l).
  Proof.
    induction l as [|a l IH]; cbn; auto. intros [H1 H2]. destruct (f a); cbn; auto.
    split; auto. rewrite Forall_forall in *. intros t Ht. apply filter_In in Ht. apply H1, Ht.
  Qed.

  Lemma NoDupArc_map f l :
    (forall a b, In a l -> In b l -> ~ dupA a b -> ~ dupA (f a) (f b)) ->
    NoDupArc l -> NoDupArc (map f l).
  Proof.
    induction l as [|a l IH]; cbn; auto. intros Hf [H1 H2]. split.
    - rewrite Forall_forall in *. intros t Ht. apply in_map_iff in Ht. destruct Ht as [b [<- Hb]].
      apply Hf; auto.
    - apply IH; auto.
  Qed.

  (* [dupA] need not be reflexive (the oracle [ga_close] is arbitrary): two equal arcs at different places of
     the list are told apart by the standard [NoDup] of the arcs the function really changes *)
  Lemma NoDupArc_map_hit (f : arcT -> arcT) (hit : arcT -> bool) l :
    NoDup (filter hit l) ->
    (forall a b, In a l -> In b l -> ~ dupA a b -> (hit a = true -> hit b = true -> a <> b) -> ~ dupA (f a) (f b)) ->
    NoDupArc l -> NoDupArc (map f l).
  Proof.
    induction l as [|a l IH]; cbn; auto. intros ND Hf [H1 H2]. split.
    - rewrite Forall_forall in *. intros t Ht. apply in_map_iff in Ht. destruct Ht as [b [<- Hb]].
      apply Hf; auto. intros Ta Tb ->. rewrite Tb in ND. inversion ND; subst.
      apply H3. apply filter_In. auto.
    - apply IH; auto. destruct (hit a); [inversion ND; auto|auto].
  Qed.

  Lemma NoDupArc_map_nodup (f : arcT -> arcT) l :
    NoDup l ->
    (forall a b, In a l -> In b l -> ~ dupA a b -> a <> b -> ~ dupA (f a) (f b)) ->
    NoDupArc l -> NoDupArc (map f l).
  Proof.
    induction l as [|a l IH]; cbn; auto. intros ND Hf [H1 H2]. inversion ND; subst. split.
    - rewrite Forall_forall in *. intros t Ht. apply in_map_iff in Ht. destruct Ht as [b [<- Hb]].
      apply Hf; auto. intros ->. auto.
    - apply IH; auto.
  Qed.

  (* order-respecting reading: in a duplicate-free list the later of two distinct positions is never a
     duplicate of the earlier *)
  Lemma NoDupArc_same_fields l l' :
    map (fun a => (an0 a, an1 a, alen a)) l = map (fun a => (an0 a, an1 a, alen a)) l' ->
    NoDupArc l -> NoDupArc l'.
  Proof.
    revert l'; induction l as [|a l IH]; intros [|b l'] E H; try discriminate; auto.
    cbn in E. injection E as E0 E1 E2 E. destruct H as [H1 H2]. split; [|eapply IH; eauto].
    clear IH H2. revert l' E. induction l as [|c l IH]; intros [|c' l'] E; try discriminate; auto.
    cbn in E. injection E as F0 F1 F2 E. inversion H1; subst. constructor; [|eapply IH; eauto].
    unfold dupA in *. rewrite <- E0, <- E1, <- E2, <- F0, <- F1, <- F2. assumption.
  Qed.

  Lemma AWF_same_ends (st st' : adrawingT) :
    NNA st <= NNA st' -> aends (ad_arcs st) = aends (ad_arcs st') -> AWF st -> AWF st'.
  Proof.
    unfold AWF. intros HN E H.
    assert (H' : Forall (arc_ok (NNA st')) (ad_arcs st)).
    { eapply Forall_impl; [|exact H]. intros a. apply arc_ok_mono; auto. }
    clear H. revert E H'. generalize (ad_arcs st') as l'. generalize (ad_arcs st) as l.
    induction l as [|a l IH]; intros [|b l'] E H; try discriminate; auto.
    cbn in E. injection E as E0 E1 E. inversion H; subst.
    constructor; [|eapply IH; eauto]. unfold arc_ok in *. rewrite <- E0, <- E1. assumption.
  Qed.

  (* states that differ only in selection flags / group / properties of their arcs, with at least as many points *)
  Lemma InvA_same (st st' : adrawingT) :
    Inv2 (ad_base st') -> NNA st <= NNA st' ->
    map (fun a => (an0 a, an1 a, alen a)) (ad_arcs st) = map (fun a => (an0 a, an1 a, alen a)) (ad_arcs st') ->
    ad_asplit st' = ad_asplit st ->
    InvA st -> InvA st'.
  Proof.
    intros I HN E D (_ & W & N). split; [exact I|]. split.
    - eapply AWF_same_ends; eauto. unfold aends.
      apply (f_equal (map (fun x : nat * nat * F => fst x))) in E. rewrite !map_map in E. exact E.
    - rewrite D. destruct N; [left; auto|right; eapply NoDupArc_same_fields; eauto].
  Qed.

  Lemma map_fields_map (f : arcT -> arcT) l :
    (forall a, an0 (f a) = an0 a /\ an1 (f a) = an1 a /\ alen (f a) = alen a) ->
    map (fun a => (an0 a, an1 a, alen a)) l = map (fun a => (an0 a, an1 a, alen a)) (map f l).
  Proof.
    intros Hf. rewrite map_map. apply map_ext. intros a. destruct (Hf a) as (-> & -> & ->). reflexivity.
  Qed.

  Lemma map_fields_upd (f : arcT -> arcT) l i :
    (forall a, an0 (f a) = an0 a /\ an1 (f a) = an1 a /\ alen (f a) = alen a) ->
    map (fun a => (an0 a, an1 a, alen a)) l = map (fun a => (an0 a, an1 a, alen a)) (upd_nth l i f).
  Proof.
    intros Hf. revert i; induction l as [|a l IH]; intros [|i]; cbn; auto.
    - destruct (Hf a) as (-> & -> & ->). reflexivity.
    - f_equal. apply IH.
  Qed.

  (* ---- unselectAllA, toggle_arc, deleteSelectedArcs ------------------------------------------- *)
  Lemma InvA_unselectAllA (st : adrawingT) : InvA st -> InvA (unselectAllA st).
  Proof.
    intros H. eapply InvA_same; [| | | |exact H].
    - apply Inv2_unselectAll, H.
    - unfold NNA, unselectAllA; cbn [ad_base]. rewrite unselectAll_NN. auto.
    - cbn. apply map_fields_map. intros; cbn; auto.
    - reflexivity.
  Qed.

  Lemma InvA_toggle_arc (st : adrawingT) k : InvA st -> InvA (toggle_arc st k).
  Proof.
    intros H. eapply InvA_same; [| | | |exact H]; cbn; auto; [apply H|].
    apply map_fields_upd. intros; cbn; auto.
  Qed.

  Lemma InvA_filter_arcs (st : adrawingT) f : InvA st -> InvA (set_arcs st (filter f (ad_arcs st))).
  Proof.
    intros (I & W & N). split; [exact I|]. split.
    - unfold AWF in *. cbn. apply Forall_forall. intros a Ha. apply filter_In in Ha.
      rewrite Forall_forall in W. apply W, Ha.
    - cbn. destruct N; [left; auto|right; apply NoDupArc_filter; auto].
  Qed.

  Lemma InvA_deleteSelectedArcs (st : adrawingT) : InvA st -> InvA (deleteSelectedArcs st).
  Proof. apply InvA_filter_arcs. Qed.

  (* replacing the base by one with at least as many points *)
  Lemma InvA_with_base (st : adrawingT) b : Inv2 b -> NN (ad_base st) <= NN b -> InvA st -> InvA (with_base st b).
  Proof.
    intros I HN H. eapply InvA_same; [| | | |exact H]; cbn; auto.
  Qed.

  (* ---- how a later state extends an earlier one ------------------------------------------------ *)
  Definition aext (st st' : adrawingT) : Prop :=
    ext (ad_base st) (ad_base st') /\ (ad_asplit st = true -> ad_asplit st' = true).
  Lemma aext_refl (st : adrawingT) : aext st st.
  Proof. split; [apply ext_refl|auto]. Qed.
  Lemma aext_trans (a b c : adrawingT) : aext a b -> aext b c -> aext a c.
  Proof. intros [A1 A2] [B1 B2]. split; [eapply ext_trans; eauto|auto]. Qed.
  Lemma aext_NN (st st' : adrawingT) : aext st st' -> NNA st <= NNA st'.
  Proof. intros [[A _] _]. exact A. Qed.

  (* arcs of a later state: either already there, or touching a point that is new *)
  Definition afresh (N0 : nat) (old l : list arcT) : Prop :=
    forall a, In a l -> In a old \/ N0 <= an0 a \/ N0 <= an1 a.

  (* ---- addNodeA ---------------------------------------------------------------------------------- *)
  Definition addNodeA_added (st : adrawingT) (nd : nodeT) (d : F) : adrawingT :=
    let k := length (anodes st) in
    let nodes' := anodes st ++ [nd] in
    let hit := on_arc GA nodes' (npt nd) d in
    mkAD (addNode G (ad_base st) nd d)
         (map (fun a => if hit a then fst (arc_halves GA nodes' (npt nd) k a) else a) (ad_arcs st)
          ++ map (fun a => snd (arc_halves GA nodes' (npt nd) k a)) (filter hit (ad_arcs st)))
         (ad_asplit st || any_ashare (filter hit (ad_arcs st))).

  Lemma addNodeA_cases (st : adrawingT) nd d :
    (addNodeA GA st nd d = st /\ addNode G (ad_base st) nd d = ad_base st) \/
    (addNodeA GA st nd d = addNodeA_added st nd d /\
     addNode G (ad_base st) nd d = addNode_added G (ad_base st) nd d).
  Proof.
    unfold addNodeA, addNodeA_added, addNode, addNode_added, anodes, alabs.
    destruct (existsb (near_node G (npt nd) d) (d_nodes (ad_base st))); [left; auto|].
    destruct (existsb (near_lab G (npt nd) d) (d_labs (ad_base st))); [left; auto|].
    right; auto.
  Qed.

  (* the points, lines and labels of addNodeA are those of Drawing.addNode *)
  Lemma addNodeA_base (st : adrawingT) nd d : ad_base (addNodeA GA st nd d) = addNode G (ad_base st) nd d.
  Proof.
    destruct (addNodeA_cases st nd d) as [[-> E]|[-> E]]; [symmetry; exact E|reflexivity].
  Qed.

  Lemma arc_share_sym (s t : arcT) : arc_share s t = arc_share t s.
  Proof. unfold arc_share. rewrite (Nat.eqb_sym (an0 s)), (Nat.eqb_sym (an1 s)). reflexivity. Qed.

  Lemma any_ashare_false l (a b : arcT) :
    any_ashare l = false -> In a l -> In b l -> a <> b -> arc_share a b = false.
  Proof.
    induction l as [|c l IH]; cbn; [tauto|]. intros H Ha Hb N.
    apply orb_false_iff in H. destruct H as [H1 H2].
    assert (E : forall t, In t l -> arc_share c t = false).
    { intros t Ht. destruct (arc_share c t) eqn:E; auto.
      assert (existsb (arc_share c) l = true) by (apply existsb_exists; eauto). congruence. }
    destruct Ha as [->|Ha], Hb as [->|Hb]; auto; try congruence.
    rewrite arc_share_sym. auto.
  Qed.

  Lemma arc_share_false (s t : arcT) : arc_share s t = false -> an0 s <> an0 t /\ an1 s <> an1 t.
  Proof.
    unfold arc_share. intros H. apply orb_false_iff in H. destruct H as [A B].
    apply Nat.eqb_neq in A, B. auto.
  Qed.

  Lemma any_ashare_NoDup (l : list arcT) : any_ashare l = false -> NoDup l.
  Proof.
    induction l as [|c l IH]; cbn; [constructor|]. intros H. apply orb_false_iff in H. destruct H as [H1 H2].
    constructor; [|auto]. intros Hc.
    assert (existsb (arc_share c) l = true).
    { apply existsb_exists. exists c. split; auto. unfold arc_share. rewrite Nat.eqb_refl. reflexivity. }
    congruence.
  Qed.

  Lemma arc_halves_fields nodes q k (a : arcT) :
    an0 (fst (arc_halves GA nodes q k a)) = an0 a /\ an1 (fst (arc_halves GA nodes q k a)) = k /\
    an0 (snd (arc_halves GA nodes q k a)) = k /\ an1 (snd (arc_halves GA nodes q k a)) = an1 a /\
    asel (fst (arc_halves GA nodes q k a)) = asel a /\ asel (snd (arc_halves GA nodes q k a)) = asel a.
  Proof. unfold arc_halves; cbn. auto 10. Qed.

  Lemma InvA_addNodeA_added (st : adrawingT) nd d :
    addNode G (ad_base st) nd d = addNode_added G (ad_base st) nd d ->
    InvA st -> InvA (addNodeA_added st nd d).
  Proof.
    intros EB (I & W & D). unfold addNodeA_added.
    set (k := length (anodes st)). set (nodes' := anodes st ++ [nd]).
    set (hit := on_arc GA nodes' (npt nd) d).
    assert (Wk : forall a, In a (ad_arcs st) -> an0 a < k /\ an1 a < k /\ an0 a <> an1 a).
    { intros a Ha. unfold AWF in W. rewrite Forall_forall in W. apply W, Ha. }
    assert (HF : forall a, an0 (fst (arc_halves GA nodes' (npt nd) k a)) = an0 a /\
                           an1 (fst (arc_halves GA nodes' (npt nd) k a)) = k /\
                           an0 (snd (arc_halves GA nodes' (npt nd) k a)) = k /\
                           an1 (snd (arc_halves GA nodes' (npt nd) k a)) = an1 a).
    { intros a. destruct (arc_halves_fields nodes' (npt nd) k a) as (A & B & C & E & _). auto. }
    split; [|split].
    - cbn [ad_base]. apply Inv2_addNode. exact I.
    - unfold AWF, NNA; cbn [ad_base ad_arcs]. rewrite EB. unfold NN, addNode_added; cbn [d_nodes]. rewrite app_length; cbn [length]. fold (anodes st). fold k.
      apply Forall_app. split; apply Forall_forall; intros s Hs; apply in_map_iff in Hs;
        destruct Hs as [a [<- Ha]].
      + destruct (Wk a Ha) as (A & B & C). destruct (hit a); unfold arc_ok.
        * destruct (HF a) as (-> & -> & _). lia.
        * lia.
      + apply filter_In in Ha. destruct (Wk a (proj1 Ha)) as (A & B & C). unfold arc_ok.
        destruct (HF a) as (_ & _ & -> & ->). lia.
    - cbn [ad_arcs ad_asplit]. destruct D as [D|D]; [left; rewrite D; auto|].
      destruct (any_ashare (filter hit (ad_arcs st))) eqn:AS; [left; apply orb_true_r|right].
      assert (SH : forall a b, In a (ad_arcs st) -> In b (ad_arcs st) -> hit a = true -> hit b = true ->
                   a <> b -> an0 a <> an0 b /\ an1 a <> an1 b).
      { intros a b Ha Hb Ta Tb N. apply arc_share_false.
        eapply any_ashare_false; eauto; apply filter_In; auto. }
      pose proof (any_ashare_NoDup _ AS) as NDH.
      apply NoDupArc_app. repeat split.
      + apply (NoDupArc_map_hit _ hit); auto. intros a b Ha Hb N AB S.
        destruct (Wk a Ha) as (A1 & A2 & A3), (Wk b Hb) as (B1 & B2 & B3).
        destruct (hit a) eqn:Ta, (hit b) eqn:Tb; unfold dupA in S.
        * destruct (SH a b Ha Hb Ta Tb (AB eq_refl eq_refl)) as (? & ?).
          destruct (HF a) as (E1 & _), (HF b) as (E2 & _). rewrite E1, E2 in S. tauto.
        * destruct (HF a) as (_ & E1 & _). rewrite E1 in S. lia.
        * destruct (HF b) as (_ & E1 & _). rewrite E1 in S. lia.
        * apply N. exact S.
      + apply NoDupArc_map_nodup; [exact NDH| |apply NoDupArc_filter; auto]. intros a b Ha Hb N AB S.
        apply filter_In in Ha, Hb. destruct Ha as [Ha Ta], Hb as [Hb Tb].
        destruct (SH a b Ha Hb Ta Tb AB) as (? & ?).
        unfold dupA in S. destruct (HF a) as (_ & _ & _ & E1), (HF b) as (_ & _ & _ & E2). rewrite E1, E2 in S. tauto.
      + intros x y Hx Hy S. apply in_map_iff in Hx, Hy.
        destruct Hx as [a [<- Ha]], Hy as [b [<- Hb]]. apply filter_In in Hb. destruct Hb as [Hb Tb].
        destruct (Wk a Ha) as (A1 & A2 & A3), (Wk b Hb) as (B1 & B2 & B3).
        unfold dupA in S. destruct (HF b) as (_ & _ & E3 & E4). rewrite E3, E4 in S.
        destruct (hit a) eqn:Ta.
        * destruct (HF a) as (E1 & E2 & _). rewrite E1, E2 in S. lia.
        * lia.
  Qed.

  Lemma aext_addNodeA (st : adrawingT) nd d : aext st (addNodeA GA st nd d).
  Proof.
    destruct (addNodeA_cases st nd d) as [[-> _]|[-> E]]; [apply aext_refl|].
    split; cbn [ad_base ad_asplit addNodeA_added].
    - apply ext_addNode.
    - intros ->. reflexivity.
  Qed.

  Lemma InvA_addNodeA (st : adrawingT) nd d : InvA st -> InvA (addNodeA GA st nd d).
  Proof.
    intros H. destruct (addNodeA_cases st nd d) as [[-> _]|[-> E]]; auto. apply InvA_addNodeA_added; auto.
  Qed.

  Lemma afresh_addNodeA (st : adrawingT) nd d N0 old :
    N0 <= NNA st -> afresh N0 old (ad_arcs st) -> afresh N0 old (ad_arcs (addNodeA GA st nd d)).
  Proof.
    intros HN H. destruct (addNodeA_cases st nd d) as [[-> _]|[-> _]]; auto.
    unfold addNodeA_added; cbn [ad_arcs]. intros s Hs. apply in_app_or in Hs.
    destruct Hs as [Hs|Hs]; apply in_map_iff in Hs; destruct Hs as [a [<- Ha]].
    - destruct (on_arc GA (anodes st ++ [nd]) (npt nd) d a); [|auto].
      right; right. destruct (arc_halves_fields (anodes st ++ [nd]) (npt nd) (length (anodes st)) a) as (_ & -> & _). exact HN.
    - right; left. destruct (arc_halves_fields (anodes st ++ [nd]) (npt nd) (length (anodes st)) a) as (_ & _ & -> & _). exact HN.
  Qed.

  Lemma fold_addNodeA_base {X} (mk : X -> nodeT) (t : F) (xs : list X) : forall (st : adrawingT),
    ad_base (fold_left (fun s x => addNodeA GA s (mk x) t) xs st) =
    fold_left (fun b x => addNode G b (mk x) t) xs (ad_base st).
  Proof.
    induction xs as [|x xs IH]; cbn; intros st; auto. rewrite IH, addNodeA_base. reflexivity.
  Qed.

  Lemma fold_addNodeA {X} (mk : X -> nodeT) (t : F) (xs : list X) : forall (st : adrawingT) N0 old,
    InvA st -> N0 <= NNA st -> afresh N0 old (ad_arcs st) ->
    let st1 := fold_left (fun s x => addNodeA GA s (mk x) t) xs st in
    InvA st1 /\ aext st st1 /\ afresh N0 old (ad_arcs st1).
  Proof.
    induction xs as [|x xs IH]; cbn; intros st N0 old I HN Fr.
    - split; [auto|split; [apply aext_refl|auto]].
    - pose proof (aext_addNodeA st (mk x) t) as E.
      destruct (IH (addNodeA GA st (mk x) t) N0 old) as (A & B & C).
      + apply InvA_addNodeA; auto.
      + apply aext_NN in E. lia.
      + apply afresh_addNodeA; auto.
      + split; [auto|split; [eapply aext_trans; eauto|auto]].
  Qed.

  (* ---- closestNodeA ------------------------------------------------------------------------------ *)
  Lemma closest_pairA (st : adrawingT) q1 q2 :
    closestNodeA GA st q1 = closestNodeA GA st q2 \/
    (closestNodeA GA st q1 < NNA st /\ closestNodeA GA st q2 < NNA st).
  Proof. apply closest_pair. Qed.

  (* ---- addSegmentA ------------------------------------------------------------------------------- *)
  Definition asA_newnodes (st : adrawingT) (n0 n1 : nat) : list pt :=
    intersections G (ad_base st) n0 n1 (asegs st) ++ line_arc_points GA st n0 n1.
  Definition asA_st1 (st : adrawingT) (n0 n1 : nat) (tol : F) : adrawingT :=
    fold_left (fun s p => addNodeA GA s (new_node p) (as_tol G (ad_base st) tol)) (asA_newnodes st n0 n1) st.
  Definition asA_st3 (st : adrawingT) (n0 n1 : nat) (par : option seg) (tol : F) : adrawingT :=
    let st1 := asA_st1 st n0 n1 tol in
    unselectAllA (with_base st1 (set_segs (ad_base st1) (asegs st1 ++ [seg_proto n0 n1 par]))).
  Definition asA_dmin (st : adrawingT) (n0 n1 : nat) (par : option seg) (tol : F) : F :=
    let nodes := anodes (asA_st3 st n0 n1 par tol) in
    if g_is0 G tol then g_dmin G (g_cabs G (pt_at G nodes n1) (pt_at G nodes n0)) else tol.

  Lemma addSegmentA_S fuel (st : adrawingT) n0 n1 par tol :
    addSegmentA GA (S fuel) st n0 n1 par tol =
    if Nat.eqb n0 n1 then st
    else if dup_in n0 n1 (asegs st) then st
    else
      let st3 := asA_st3 st n0 n1 par tol in
      let dmin := asA_dmin st n0 n1 par tol in
      match find_first (passes_through G (anodes st3) n0 n1 dmin) 0 (length (anodes st3)) with
      | None => st3
      | Some i =>
          let st4 := with_base st3 (deleteSelectedSegments (toggle_seg (ad_base st3) (length (asegs st3) - 1))) in
          addSegmentA GA fuel (addSegmentA GA fuel st4 n0 i (as_par' n0 n1 par) dmin) i n1 (as_par' n0 n1 par) dmin
      end.
  Proof. destruct par; reflexivity. Qed.

  (* pushing the proposed line after the intersection points have been added *)
  Lemma Inv2_push_seg (b b1 : drawingT) n0 n1 par :
    Inv2 b1 -> ext b b1 -> fresh_or_old (NN b) (d_segs b) (d_segs b1) ->
    n0 <> n1 -> n0 < NN b -> n1 < NN b -> dup_in n0 n1 (d_segs b) = false ->
    Inv2 (set_segs b1 (d_segs b1 ++ [seg_proto n0 n1 par])).
  Proof.
    intros A B C Hne H0 H1 Hd. destruct (seg_proto_ends n0 n1 par) as [P0 P1].
    destruct A as [W D]. destruct B as [BN BD]. split.
    - unfold WF in *. cbn. apply Forall_app. split; [exact W|]. constructor; [|constructor].
      unfold seg_ok. rewrite P0, P1. unfold NN in *. cbn. lia.
    - cbn. destruct D as [D|D]; [left; auto|right].
      apply NoDupSeg_app. repeat split; cbn; auto.
      intros a x Ha [<-|[]] S. unfold same_seg in S. rewrite P0, P1 in S.
      destruct (C a Ha) as [Hold|Hnew].
      + eapply dup_in_false; eauto.
      + lia.
  Qed.

  Lemma InvA_asA_st3 (st : adrawingT) n0 n1 par tol :
    InvA st -> n0 <> n1 -> n0 < NNA st -> n1 < NNA st -> dup_in n0 n1 (asegs st) = false ->
    InvA (asA_st3 st n0 n1 par tol) /\ aext st (asA_st3 st n0 n1 par tol).
  Proof.
    intros I Hne H0 H1 Hd. unfold asA_st3.
    destruct (fold_addNodeA (@new_node F) (as_tol G (ad_base st) tol) (asA_newnodes st n0 n1) st (NNA st) (ad_arcs st))
      as (A & B & C); auto.
    { intros s Hs; auto. }
    fold (asA_st1 st n0 n1 tol) in A, B, C. set (st1 := asA_st1 st n0 n1 tol) in *.
    (* the base of st1 is Drawing's fold: its lemma gives the freshness of the lines *)
    destruct (fold_addNode G (@new_node F) (as_tol G (ad_base st) tol) (asA_newnodes st n0 n1) (ad_base st) (NN (ad_base st))
                           (d_segs (ad_base st))) as (A' & B' & C'); [apply I|auto|intros s Hs; auto|].
    assert (EB : ad_base st1 = fold_left (fun b p => addNode G b (new_node p) (as_tol G (ad_base st) tol))
                                         (asA_newnodes st n0 n1) (ad_base st)).
    { unfold st1, asA_st1. apply fold_addNodeA_base. }
    rewrite <- EB in A', B', C'.
    assert (I2 : Inv2 (set_segs (ad_base st1) (asegs st1 ++ [seg_proto n0 n1 par]))).
    { apply (Inv2_push_seg (ad_base st)); auto. }
    split.
    - apply InvA_unselectAllA. apply InvA_with_base; auto.
    - destruct B as [[BN BD] BA]. split; [split|]; cbn [unselectAllA with_base ad_base ad_asplit].
      + rewrite unselectAll_NN. exact BN.
      + exact BD.
      + exact BA.
  Qed.

  Lemma addSegmentA_InvA : forall fuel (st : adrawingT) n0 n1 par tol,
    InvA st -> (n0 = n1 \/ (n0 < NNA st /\ n1 < NNA st)) ->
    InvA (addSegmentA GA fuel st n0 n1 par tol) /\ aext st (addSegmentA GA fuel st n0 n1 par tol).
  Proof.
    induction fuel as [|fuel IH]; intros st n0 n1 par tol I H.
    - cbn. split; [|apply aext_refl || (split; [split; auto|auto])].
      destruct I as ((W & D) & AW & ND). split; [split; auto|split; auto].
    - rewrite addSegmentA_S. destruct (Nat.eqb n0 n1) eqn:E; [split; [auto|apply aext_refl]|].
      apply Nat.eqb_neq in E. destruct H as [H|[H0 H1]]; [congruence|].
      destruct (dup_in n0 n1 (asegs st)) eqn:Hd; [split; [auto|apply aext_refl]|].
      destruct (InvA_asA_st3 st n0 n1 par tol I E H0 H1 Hd) as [I3 E3].
      cbv zeta. set (st3 := asA_st3 st n0 n1 par tol) in *. set (dmin := asA_dmin st n0 n1 par tol).
      destruct (find_first (passes_through G (anodes st3) n0 n1 dmin) 0 (length (anodes st3))) as [i|] eqn:FF; [|auto].
      apply find_first_spec in FF. destruct FF as [Hi _].
      set (st4 := with_base st3 (deleteSelectedSegments (toggle_seg (ad_base st3) (length (asegs st3) - 1)))).
      assert (I4 : InvA st4).
      { apply InvA_with_base; auto. apply Inv2_deleteSelectedSegments, Inv2_toggle_seg, I3. }
      assert (E4 : aext st st4) by (destruct E3 as [[A B] C]; split; [split; [exact A|exact B]|exact C]).
      assert (N4 : NNA st4 = NNA st3) by reflexivity.
      destruct (IH st4 n0 i (as_par' n0 n1 par) dmin I4) as [I5 E5].
      { right. apply aext_NN in E3. rewrite N4. unfold NNA, NN, anodes in *. lia. }
      destruct (IH (addSegmentA GA fuel st4 n0 i (as_par' n0 n1 par) dmin) i n1 (as_par' n0 n1 par) dmin I5) as [I6 E6].
      { right. apply aext_NN in E3. apply aext_NN in E5. rewrite N4 in E5. unfold NNA, NN, anodes in *. lia. }
      split; auto. eapply aext_trans; [exact E4|]. eapply aext_trans; eauto.
  Qed.

  (* ---- addArcSegmentA ---------------------------------------------------------------------------- *)
  Definition aaA_tol (st : adrawingT) (tol : F) : F := if g_is0 G tol then auto_tol G (anodes st) else tol.
  Definition aaA_st1 (st : adrawingT) (ar : arcT) (tol : F) : adrawingT :=
    fold_left (fun s p => addNodeA GA s (new_node p) (aaA_tol st tol)) (arc_new_points GA st ar) st.
  Definition aaA_st3 (st : adrawingT) (ar : arcT) (tol : F) : adrawingT :=
    let st1 := aaA_st1 st ar tol in unselectAllA (set_arcs st1 (ad_arcs st1 ++ [ar])).
  Definition aaA_dmin (st : adrawingT) (ar : arcT) (tol : F) : F :=
    let nodes := anodes (aaA_st3 st ar tol) in
    if g_is0 G tol then ga_arc_dmin GA (pt_at G nodes (an0 ar)) (pt_at G nodes (an1 ar)) (alen ar) else tol.
  Definition aaA_halves (st : adrawingT) (ar : arcT) (tol : F) (i : nat) : arcT * arcT :=
    let nodes := anodes (aaA_st3 st ar tol) in
    let ls := ga_split GA (pt_at G nodes (an0 ar)) (pt_at G nodes (an1 ar)) (pt_at G nodes i) (alen ar) in
    (asetlen (fst ls) (aset1 i ar), asetlen (snd ls) (aset0 i ar)).

  Lemma addArcSegmentA_S fuel (st : adrawingT) ar0 tol :
    addArcSegmentA GA (S fuel) st ar0 tol =
    if Nat.eqb (an0 ar0) (an1 ar0) then st
    else if existsb (arc_dup GA ar0) (ad_arcs st) then st
    else
      let ar := asetsel false ar0 in
      let st3 := aaA_st3 st ar tol in
      let dmin := aaA_dmin st ar tol in
      match find_first (arc_passes_through GA (anodes st3) ar dmin) 0 (length (anodes st3)) with
      | None => st3
      | Some i =>
          let st4 := deleteSelectedArcs (toggle_arc st3 (length (ad_arcs st3) - 1)) in
          addArcSegmentA GA fuel (addArcSegmentA GA fuel st4 (fst (aaA_halves st ar tol i)) dmin)
                         (snd (aaA_halves st ar tol i)) dmin
      end.
  Proof. reflexivity. Qed.

  Lemma arc_dup_false (ar e : arcT) l :
    existsb (arc_dup GA ar) l = false -> In e l -> ~ dupA e ar.
  Proof.
    intros H He (A & B & C).
    assert (existsb (arc_dup GA ar) l = true).
    { apply existsb_exists. exists e. split; auto. unfold arc_dup. rewrite A, B, C, !Nat.eqb_refl. reflexivity. }
    congruence.
  Qed.

  Lemma InvA_aaA_st3 (st : adrawingT) ar tol :
    InvA st -> an0 ar <> an1 ar -> an0 ar < NNA st -> an1 ar < NNA st ->
    existsb (arc_dup GA ar) (ad_arcs st) = false ->
    InvA (aaA_st3 st ar tol) /\ aext st (aaA_st3 st ar tol).
  Proof.
    intros I Hne H0 H1 Hd. unfold aaA_st3.
    destruct (fold_addNodeA (@new_node F) (aaA_tol st tol) (arc_new_points GA st ar) st (NNA st) (ad_arcs st))
      as (A & B & C); auto.
    { intros s Hs; auto. }
    fold (aaA_st1 st ar tol) in A, B, C. set (st1 := aaA_st1 st ar tol) in *.
    pose proof (aext_NN _ _ B) as BN.
    assert (I2 : InvA (set_arcs st1 (ad_arcs st1 ++ [ar]))).
    { destruct A as (IB & W & D). split; [exact IB|]. split.
      - unfold AWF in *. cbn [ad_arcs set_arcs]. apply Forall_app. split; [exact W|]. constructor; [|constructor].
        unfold arc_ok. unfold NNA in *. cbn [ad_base set_arcs]. lia.
      - cbn [ad_arcs ad_asplit set_arcs]. destruct D as [D|D]; [left; auto|right].
        apply NoDupArc_app. repeat split; cbn; auto.
        intros a x Ha [<-|[]] S.
        destruct (C a Ha) as [Hold|Hnew].
        + eapply arc_dup_false; eauto.
        + destruct S as (S0 & S1 & _). lia. }
    split.
    - apply InvA_unselectAllA; auto.
    - destruct B as [[B1 B2] B3]. split; [split|]; cbn [unselectAllA set_arcs ad_base ad_asplit].
      + rewrite unselectAll_NN. exact B1.
      + exact B2.
      + exact B3.
  Qed.

  Lemma addArcSegmentA_InvA : forall fuel (st : adrawingT) ar tol,
    InvA st -> (an0 ar = an1 ar \/ (an0 ar < NNA st /\ an1 ar < NNA st)) ->
    InvA (addArcSegmentA GA fuel st ar tol) /\ aext st (addArcSegmentA GA fuel st ar tol).
  Proof.
    induction fuel as [|fuel IH]; intros st ar0 tol I H.
    - cbn. split; [|split; [split; auto|auto]].
      destruct I as ((W & D) & AW & ND). split; [split; auto|split; auto].
    - rewrite addArcSegmentA_S. destruct (Nat.eqb (an0 ar0) (an1 ar0)) eqn:E; [split; [auto|apply aext_refl]|].
      apply Nat.eqb_neq in E. destruct H as [H|[H0 H1]]; [congruence|].
      destruct (existsb (arc_dup GA ar0) (ad_arcs st)) eqn:Hd; [split; [auto|apply aext_refl]|].
      cbv zeta. set (ar := asetsel false ar0).
      assert (Hd' : existsb (arc_dup GA ar) (ad_arcs st) = false) by exact Hd.
      destruct (InvA_aaA_st3 st ar tol I E H0 H1 Hd') as [I3 E3].
      set (st3 := aaA_st3 st ar tol) in *. set (dmin := aaA_dmin st ar tol).
      destruct (find_first (arc_passes_through GA (anodes st3) ar dmin) 0 (length (anodes st3))) as [i|] eqn:FF; [|auto].
      apply find_first_spec in FF. destruct FF as [Hi Ti].
      assert (Ni : i <> an0 ar /\ i <> an1 ar).
      { unfold arc_passes_through in Ti.
        destruct (Nat.eqb i (an0 ar)) eqn:X0; [discriminate|]. destruct (Nat.eqb i (an1 ar)) eqn:X1; [discriminate|].
        apply Nat.eqb_neq in X0, X1. auto. }
      set (st4 := deleteSelectedArcs (toggle_arc st3 (length (ad_arcs st3) - 1))).
      assert (I4 : InvA st4) by (apply InvA_deleteSelectedArcs, InvA_toggle_arc; auto).
      assert (E4 : aext st st4) by (destruct E3 as [[A B] C]; split; [split; [exact A|exact B]|exact C]).
      assert (N4 : NNA st4 = NNA st3) by reflexivity.
      pose proof (aext_NN _ _ E3) as L3.
      destruct (IH st4 (fst (aaA_halves st ar tol i)) dmin I4) as [I5 E5].
      { right. cbn [aaA_halves fst an0 an1 asetlen aset1]. rewrite N4. unfold NNA, NN, anodes in *. cbn [an0 an1 ar asetsel] in *. lia. }
      destruct (IH (addArcSegmentA GA fuel st4 (fst (aaA_halves st ar tol i)) dmin) (snd (aaA_halves st ar tol i)) dmin I5)
        as [I6 E6].
      { right. pose proof (aext_NN _ _ E5) as L5. rewrite N4 in L5.
        cbn [aaA_halves snd an0 an1 asetlen aset0]. unfold NNA, NN, anodes in *. cbn [an0 an1 ar asetsel] in *. lia. }
      split; auto. eapply aext_trans; [exact E4|]. eapply aext_trans; eauto.
  Qed.

  (* ---- deleteSelectedNodesA ---------------------------------------------------------------------- *)
  Definition arcs_unselected (st : adrawingT) : Prop := forall a, In a (ad_arcs st) -> asel a = false.
  (* no selected line or arc has a selected end point (only needed for fx = false) *)
  Definition del_guardA (st : adrawingT) : Prop :=
    del_guard G (ad_base st) /\
    forall a, In a (ad_arcs st) -> asel a = true ->
      nsel (node_at G (anodes st) (an0 a)) = false /\ nsel (node_at G (anodes st) (an1 a)) = false.

  Lemma delete_node_atA_base (st : adrawingT) i : ad_base (delete_node_atA fx st i) = delete_node_at fx (ad_base st) i.
  Proof. reflexivity. Qed.

  Lemma delete_node_atA_arcs (st : adrawingT) i :
    (fx = true \/ forall a, In a (ad_arcs st) -> atouches i a = true -> asel a = false) ->
    ad_arcs (delete_node_atA fx st i) =
    map (adec_above i) (filter (fun a => negb (asel a) && negb (atouches i a)) (ad_arcs st)).
  Proof.
    intros Hg. unfold delete_node_atA; cbn [ad_arcs]. f_equal.
    induction (ad_arcs st) as [|a l IH]; cbn [map filter]; auto.
    rewrite IH by (destruct Hg as [Hg|Hg]; [left; exact Hg|right; intros; apply Hg; cbn; auto]).
    destruct (atouches i a) eqn:T.
    - destruct Hg as [->|Hg].
      + cbn. rewrite andb_false_r. reflexivity.
      + rewrite (Hg a) by (cbn; auto). destruct fx; cbn; reflexivity.
    - cbn. destruct (asel a); cbn; reflexivity.
  Qed.

  Lemma delete_node_atA_InvA (st : adrawingT) i :
    InvA st -> i < NNA st ->
    (fx = true \/ forall s, In s (asegs st) -> touches i s = true -> ssel s = false) ->
    (fx = true \/ forall a, In a (ad_arcs st) -> atouches i a = true -> asel a = false) ->
    InvA (delete_node_atA fx st i) /\ segs_unselected (ad_base (delete_node_atA fx st i)) /\
    arcs_unselected (delete_node_atA fx st i) /\ NNA (delete_node_atA fx st i) = NNA st - 1.
  Proof.
    intros (I & W & D) Hi Hs Ha.
    destruct (delete_node_at_Inv2 fx (ad_base st) i I Hi Hs) as (I1 & U1 & _ & N1).
    pose proof (delete_node_atA_arcs st i Ha) as ES.
    assert (Wk : forall a, In a (filter (fun a => negb (asel a) && negb (atouches i a)) (ad_arcs st)) ->
                 an0 a < NNA st /\ an1 a < NNA st /\ an0 a <> an1 a /\ an0 a <> i /\ an1 a <> i /\ asel a = false).
    { intros a Hx. apply filter_In in Hx. destruct Hx as [Hx Hb].
      unfold AWF in W. rewrite Forall_forall in W. destruct (W a Hx) as (A & B & C).
      apply andb_true_iff in Hb. destruct Hb as [Hb Hc]. apply negb_true_iff in Hb, Hc.
      unfold atouches in Hc. apply orb_false_iff in Hc. destruct Hc as [Hc Hd].
      apply Nat.eqb_neq in Hc, Hd. auto 10. }
    assert (DEC : forall a : arcT, an0 (adec_above i a) = (if Nat.ltb i (an0 a) then an0 a - 1 else an0 a) /\
                            an1 (adec_above i a) = (if Nat.ltb i (an1 a) then an1 a - 1 else an1 a) /\
                            alen (adec_above i a) = alen a /\ asel (adec_above i a) = asel a) by (intros; cbn; auto).
    split; [split; [|split]|split; [|split]].
    - exact I1.
    - unfold AWF, NNA. rewrite delete_node_atA_base, N1, ES. apply Forall_forall. intros s Hx. apply in_map_iff in Hx.
      destruct Hx as [a [<- Hx]]. destruct (Wk a Hx) as (A & B & C & C0 & C1 & _).
      unfold arc_ok. destruct (DEC a) as (-> & -> & _). unfold NNA in *.
      destruct (Nat.ltb_spec i (an0 a)), (Nat.ltb_spec i (an1 a)); lia.
    - cbn [ad_asplit delete_node_atA]. destruct D as [D|D]; [left; exact D|right]. rewrite ES.
      apply NoDupArc_map; [|apply NoDupArc_filter; auto].
      intros a b Hx Hy N S. apply N.
      destruct (Wk a Hx) as (A & B & C & C0 & C1 & _), (Wk b Hy) as (A' & B' & C' & C0' & C1' & _).
      unfold dupA in *. destruct (DEC a) as (E0 & E1 & E2 & _), (DEC b) as (E0' & E1' & E2' & _).
      rewrite E0, E1, E2, E0', E1', E2' in S. destruct S as (S1 & S2 & S3).
      split; [|split]; [eapply dec_inj; eauto|eapply dec_inj; eauto|exact S3].
    - exact U1.
    - intros s Hx. rewrite ES in Hx. apply in_map_iff in Hx. destruct Hx as [a [<- Hx]].
      destruct (DEC a) as (_ & _ & _ & ->). apply Wk in Hx. tauto.
    - unfold NNA. rewrite delete_node_atA_base. exact N1.
  Qed.

  Lemma delete_loopA_base : forall fuel i (st : adrawingT),
    ad_base (delete_nodes_loopA GA fx fuel i st) = delete_nodes_loop G fx fuel i (ad_base st).
  Proof.
    induction fuel as [|fuel IH]; intros i st; [reflexivity|]. cbn [delete_nodes_loopA delete_nodes_loop]. unfold anodes.
    destruct (Nat.ltb i (length (d_nodes (ad_base st)))); [|reflexivity].
    destruct (nsel (node_at G (d_nodes (ad_base st)) i)); rewrite IH; reflexivity.
  Qed.

  (* the points and lines of deleteSelectedNodesA are those of Drawing.deleteSelectedNodes *)
  Lemma deleteSelectedNodesA_base (st : adrawingT) :
    ad_base (deleteSelectedNodesA GA fx st) = deleteSelectedNodes G fx (ad_base st).
  Proof. unfold deleteSelectedNodesA, deleteSelectedNodes. apply delete_loopA_base. Qed.

  Lemma delete_loopA_InvA : forall fuel i (st : adrawingT),
    InvA st -> (fx = true \/ del_guardA st) -> InvA (delete_nodes_loopA GA fx fuel i st).
  Proof.
    induction fuel as [|fuel IH]; intros i st I Gd; [cbn; auto|]. cbn [delete_nodes_loopA].
    destruct (Nat.ltb_spec i (length (anodes st))) as [Hi|Hi]; [|auto].
    destruct (nsel (node_at G (anodes st) i)) eqn:S; [|apply IH; auto].
    assert (Hs : fx = true \/ forall s, In s (asegs st) -> touches i s = true -> ssel s = false).
    { destruct Gd as [Gd|[Gd _]]; [left; exact Gd|right].
      intros s Hx T. destruct (ssel s) eqn:E; auto. destruct (Gd s Hx E) as [A B].
      unfold touches in T. apply orb_true_iff in T. unfold anodes in S.
      destruct T as [T|T]; apply Nat.eqb_eq in T; subst i; congruence. }
    assert (Ha : fx = true \/ forall a, In a (ad_arcs st) -> atouches i a = true -> asel a = false).
    { destruct Gd as [Gd|[_ Gd]]; [left; exact Gd|right].
      intros a Hx T. destruct (asel a) eqn:E; auto. destruct (Gd a Hx E) as [A B].
      unfold atouches in T. apply orb_true_iff in T.
      destruct T as [T|T]; apply Nat.eqb_eq in T; subst i; congruence. }
    destruct (delete_node_atA_InvA st i I Hi Hs Ha) as (I1 & U & UA & _).
    apply IH; [exact I1|]. right. split.
    - intros s Hx E. rewrite (U s Hx) in E. discriminate.
    - intros a Hx E. rewrite (UA a Hx) in E. discriminate.
  Qed.

  Lemma deleteSelectedNodesA_InvA (st : adrawingT) :
    InvA st -> (fx = true \/ del_guardA st) -> InvA (deleteSelectedNodesA GA fx st).
  Proof. intros. unfold deleteSelectedNodesA. apply delete_loopA_InvA; auto. Qed.

  (* ---- enforcePSLGA re-establishes the invariant from ANY drawing ------------------------------ *)
  Lemma fold_addSegmentA_InvA fuel d (pp : seg -> pt * pt) (ls : list seg) : forall (st : adrawingT),
    InvA st ->
    let r := fold_left (fun s ln => addSegmentA GA fuel s (closestNodeA GA s (fst (pp ln))) (closestNodeA GA s (snd (pp ln)))
                                                (Some ln) d) ls st in
    InvA r /\ aext st r.
  Proof.
    induction ls as [|l ls IH]; cbn; intros st I; [split; [auto|apply aext_refl]|].
    destruct (addSegmentA_InvA fuel st (closestNodeA GA st (fst (pp l))) (closestNodeA GA st (snd (pp l))) (Some l) d I)
      as [I1 E1]; [apply closest_pairA|].
    destruct (IH _ I1) as [I2 E2]. split; auto. eapply aext_trans; eauto.
  Qed.

  Lemma fold_addArcSegmentA_InvA fuel d (pp : arcT -> pt * pt) (ls : list arcT) : forall (st : adrawingT),
    InvA st ->
    let r := fold_left (fun s a => addArcSegmentA GA fuel s
                                     (aset1 (closestNodeA GA s (snd (pp a))) (aset0 (closestNodeA GA s (fst (pp a))) a)) d) ls st in
    InvA r /\ aext st r.
  Proof.
    induction ls as [|l ls IH]; cbn [fold_left]; intros st I; [split; [auto|apply aext_refl]|].
    destruct (addArcSegmentA_InvA fuel st
                (aset1 (closestNodeA GA st (snd (pp l))) (aset0 (closestNodeA GA st (fst (pp l))) l)) d I) as [I1 E1].
    { cbn [an0 an1 aset0 aset1]. apply closest_pairA. }
    destruct (IH _ I1) as [I2 E2]. split; auto. eapply aext_trans; eauto.
  Qed.

  Lemma enforcePSLGA_InvA fuel (st : adrawingT) : InvA (enforcePSLGA GA fuel st).
  Proof.
    unfold enforcePSLGA.
    set (d := auto_tol G (anodes st)).
    set (st0 := mkAD (mkDrawing [] [] [] (d_oof (ad_base st)) (d_dsplit (ad_base st))) [] (ad_asplit st)).
    assert (I0 : InvA st0).
    { split; [split; [constructor|right; exact I]|]. split; [constructor|right; exact I]. }
    destruct (fold_addNodeA (fun nd : nodeT => nd) d (anodes st) st0 0 [] I0) as (I1 & _ & _).
    { apply Nat.le_0_l. } { intros s []. }
    set (st1 := fold_left (fun s nd => addNodeA GA s nd d) (anodes st) st0) in *.
    destruct (fold_addSegmentA_InvA fuel d
                (fun ln => (pt_at G (anodes st) (s0 ln), pt_at G (anodes st) (s1 ln))) (asegs st) st1 I1) as [I2 _].
    cbn [fst snd] in I2.
    match type of I2 with InvA ?x => set (st2 := x) in * end.
    destruct (fold_addArcSegmentA_InvA fuel d
                (fun a => (pt_at G (anodes st) (an0 a), pt_at G (anodes st) (an1 a))) (ad_arcs st) st2 I2) as [I3 _].
    cbn [fst snd] in I3.
    match type of I3 with InvA ?x => set (st3 := x) in * end.
    destruct (fold_addBlockLabel G d (alabs st) (ad_base st3)) as (A & B & C).
    apply InvA_unselectAllA. apply InvA_with_base; [|unfold NN; rewrite A; auto|exact I3].
    eapply Inv2_frame; [exact A|exact B|exact C|apply I3].
  Qed.

  (* ---- createRadiusA ------------------------------------------------------------------------------ *)
  Lemma unselectAll_segs_unsel (b : drawingT) : segs_unselected (unselectAll b).
  Proof. intros s Hs. cbn in Hs. apply in_map_iff in Hs. destruct Hs as [x [<- _]]. reflexivity. Qed.
  Lemma unselectAllA_arcs_unsel (st : adrawingT) : arcs_unselected (unselectAllA st).
  Proof. intros s Hs. cbn in Hs. apply in_map_iff in Hs. destruct Hs as [x [<- _]]. reflexivity. Qed.

  Lemma del_guardA_unsel (st : adrawingT) : segs_unselected (ad_base st) -> arcs_unselected st -> del_guardA st.
  Proof.
    intros U UA. split.
    - intros s Hs E. rewrite (U s Hs) in E. discriminate.
    - intros a Ha E. rewrite (UA a Ha) in E. discriminate.
  Qed.

  Lemma Inv2_set_nodes_same_length (b : drawingT) nodes' :
    length nodes' = length (d_nodes b) -> Inv2 b -> Inv2 (set_nodes b nodes').
  Proof.
    intros E. apply Inv2_ends; cbn; auto. unfold NN; cbn. rewrite E. auto.
  Qed.

  Lemma radius_finish_InvA fuel (st : adrawingT) p0 plan grp bdry :
    InvA st -> InvA (radius_finish GA fx fuel st p0 plan grp bdry).
  Proof.
    intros I. destruct plan as [[[[[q1 q2] tol] e0] e1] len]. unfold radius_finish.
    set (st2 := addNodeA GA (addNodeA GA st (new_node q1) tol) (new_node q2) tol).
    assert (I2 : InvA st2) by (apply InvA_addNodeA, InvA_addNodeA, I).
    set (st3 := unselectAllA st2).
    assert (I3 : InvA st3) by (apply InvA_unselectAllA, I2).
    set (st4 := with_base st3 (set_nodes (ad_base st3) (upd_nth (anodes st3) (closestNodeA GA st3 p0) (nsetsel true)))).
    assert (I4 : InvA st4).
    { apply InvA_with_base; [|unfold NN; cbn; rewrite upd_nth_length; auto|exact I3].
      apply Inv2_set_nodes_same_length; [apply upd_nth_length|apply I3]. }
    assert (G4 : del_guardA st4).
    { apply del_guardA_unsel.
      - intros s Hs. apply (unselectAll_segs_unsel (ad_base st2)). exact Hs.
      - intros a Ha. apply (unselectAllA_arcs_unsel st2). exact Ha. }
    set (st5 := deleteSelectedNodesA GA fx st4).
    assert (I5 : InvA st5) by (apply deleteSelectedNodesA_InvA; auto).
    apply addArcSegmentA_InvA; [exact I5|]. cbn [an0 an1]. apply closest_pairA.
  Qed.

  Lemma createRadiusA_InvA fuel (st : adrawingT) n r : InvA st -> InvA (createRadiusA GA fx fuel st n r).
  Proof.
    intros I. unfold createRadiusA. destruct (ga_le0 GA r); [exact I|].
    destruct (filter (touches n) (asegs st)) as [|sA [|sB [|sC l]]];
      destruct (filter (atouches n) (ad_arcs st)) as [|aA [|aB [|aC l']]]; try exact I.
    - destruct (ga_rad_aa GA _ _ _ _ _ _ _ _); [apply radius_finish_InvA; exact I|exact I].
    - destruct (ga_rad_la GA _ _ _ _ _ _ _ _); [apply radius_finish_InvA; exact I|exact I].
    - destruct (ga_rad_ll GA _ _ _ _) as [[sw plan]|]; [apply radius_finish_InvA; exact I|exact I].
  Qed.

  (* ---- every command ------------------------------------------------------------------------------ *)
  (* the commands of Drawing.v that neither add nor remove points *)
  Definition keeps_points (o : opT) : bool :=
    match o with
    | OAddLabel _ _ | OSelectNode _ _ | OSelectSegment _ _ | OSelectLabel _ _ | OSelectGroup _ | OSetGroup _
    | OClearSelected | OSetNodeProp _ _ | OSetSegProp _ _ | OSetLabelProp _ _ | ODeleteSelectedSegments
    | ODeleteSelectedLabels => true
    | _ => false
    end.

  Lemma keeps_points_NN fuel (b : drawingT) o : keeps_points o = true -> NN (step G fx fuel b o) = NN b.
  Proof.
    destruct o; cbn [keeps_points]; try discriminate; intros _; cbn [step]; unfold NN.
    - destruct (addBlockLabel_frame G b (new_lab G (x, y)) (auto_tol G (d_nodes b))) as (A & _). rewrite A. reflexivity.
    - cbn. apply upd_nth_length.
    - reflexivity.
    - reflexivity.
    - cbn. apply map_length.
    - cbn. rewrite !map_length. reflexivity.
    - cbn. apply map_length.
    - cbn. apply map_length.
    - reflexivity.
    - reflexivity.
    - reflexivity.
    - reflexivity.
  Qed.

  Lemma keeps_points_Inv2 fuel (b : drawingT) o : keeps_points o = true -> Inv2 b -> Inv2 (step G fx fuel b o).
  Proof.
    intros K I. apply step_Inv2; auto. destruct o; cbn in *; auto; discriminate.
  Qed.

  Lemma InvA_on_base_keeps fuel (st : adrawingT) o :
    keeps_points o = true -> InvA st -> InvA (on_base st (fun b => step G fx fuel b o)).
  Proof.
    intros K I. unfold on_base. apply InvA_with_base; [apply keeps_points_Inv2; auto; apply I| |exact I].
    rewrite keeps_points_NN; auto.
  Qed.

  Definition aop_guard (st : adrawingT) (o : aopT) : Prop :=
    match o with ABase ODeleteSelectedNodes => fx = true \/ del_guardA st | _ => True end.

  Lemma stepA_InvA fuel (st : adrawingT) (o : aopT) :
    InvA st -> aop_guard st o -> InvA (stepA GA fx fuel st o).
  Proof.
    intros I Gd. destruct o as [o|x0 y0 x1 y1 ang ms|x y|k g ms| |x y r]; [destruct o|..]; cbn [stepA].
    - (* OAddNode *) apply InvA_addNodeA; auto.
    - (* OAddSegment *) apply addSegmentA_InvA; auto. apply closest_pairA.
    - (* OAddLabel *) apply InvA_on_base_keeps; auto.
    - (* OSelectNode *) apply InvA_on_base_keeps; auto.
    - (* OSelectSegment *) apply InvA_on_base_keeps; auto.
    - (* OSelectLabel *) apply InvA_on_base_keeps; auto.
    - (* OSelectGroup *)
      eapply InvA_same; [| | | |exact I]; cbn [ad_base ad_arcs ad_asplit].
      + apply keeps_points_Inv2; auto. apply I.
      + unfold NNA; cbn [ad_base]. rewrite keeps_points_NN; auto.
      + apply map_fields_map. intros a. destruct (Nat.eqb (agrp a) g); cbn; auto.
      + reflexivity.
    - (* OSetGroup *)
      eapply InvA_same; [| | | |exact I]; cbn [ad_base ad_arcs ad_asplit].
      + apply keeps_points_Inv2; auto. apply I.
      + unfold NNA; cbn [ad_base]. rewrite keeps_points_NN; auto.
      + apply map_fields_map. intros a. destruct (asel a); cbn; auto.
      + reflexivity.
    - (* OClearSelected *) apply InvA_unselectAllA; auto.
    - (* OSetNodeProp *) apply InvA_on_base_keeps; auto.
    - (* OSetSegProp *) apply InvA_on_base_keeps; auto.
    - (* OSetLabelProp *) apply InvA_on_base_keeps; auto.
    - (* ODeleteSelected *)
      set (st1 := deleteSelectedArcs (on_base st deleteSelectedSegments)).
      assert (I1 : InvA st1).
      { apply InvA_deleteSelectedArcs. unfold on_base. apply InvA_with_base; auto.
        apply Inv2_deleteSelectedSegments, I. }
      assert (G1 : del_guardA st1).
      { apply del_guardA_unsel.
        - intros s Hs. cbn in Hs. apply filter_In in Hs. destruct Hs as [_ Hs]. apply negb_true_iff in Hs. exact Hs.
        - intros a Ha. cbn in Ha. apply filter_In in Ha. destruct Ha as [_ Ha]. apply negb_true_iff in Ha. exact Ha. }
      pose proof (deleteSelectedNodesA_InvA st1 I1 (or_intror G1)) as I2.
      unfold on_base. apply InvA_with_base; auto.
      eapply Inv2_frame; [| | |apply I2]; reflexivity.
    - (* ODeleteSelectedNodes *) apply deleteSelectedNodesA_InvA; auto.
    - (* ODeleteSelectedSegments *) apply InvA_on_base_keeps; auto.
    - (* ODeleteSelectedLabels *) apply InvA_on_base_keeps; auto.
    - (* OMoveTranslate *) destruct (mode_valid mode); [apply enforcePSLGA_InvA|auto].
    - (* OMoveRotate *) destruct (mode_valid mode); [apply enforcePSLGA_InvA|auto].
    - (* OScale *) destruct (mode_valid mode); [apply enforcePSLGA_InvA|auto].
    - (* OCopyTranslate *) destruct (mode_valid mode); [apply enforcePSLGA_InvA|auto].
    - (* OCopyRotate *) destruct (mode_valid mode); [apply enforcePSLGA_InvA|auto].
    - (* OMirror *) destruct (mode_valid mode); [|auto].
      destruct (g_mirror_axis G x0 y0 x1 y1) as [[x p]|]; [apply enforcePSLGA_InvA|auto].
    - (* AAddArc *) destruct (anodes st) eqn:EN; [exact I|].
      apply InvA_unselectAllA. apply addArcSegmentA_InvA.
      + unfold on_base. apply InvA_with_base; auto.
        * unfold toggle_node. apply Inv2_set_nodes_same_length; [apply upd_nth_length|apply I].
        * unfold NN, toggle_node; cbn. rewrite upd_nth_length. auto.
      + cbn [an0 an1]. unfold NNA, on_base; cbn [ad_base with_base]. unfold NN, toggle_node; cbn [d_nodes set_nodes].
        rewrite upd_nth_length. apply closest_pairA.
    - (* ASelectArc *) apply InvA_toggle_arc; auto.
    - (* ASetArcProp *)
      eapply InvA_same; [| | | |exact I]; cbn [ad_base ad_arcs ad_asplit set_arcs]; auto; [apply I|].
      apply map_fields_map. intros a. destruct (asel a); cbn; auto.
    - (* ADeleteSelectedArcs *) apply InvA_deleteSelectedArcs; auto.
    - (* ACreateRadius *) destruct (anodes st); [exact I|]. apply createRadiusA_InvA; auto.
  Qed.

  (* ---- all sequences of commands ------------------------------------------------------------------- *)
  Fixpoint guardedA (fuel : nat) (st : adrawingT) (ops : list aopT) : Prop :=
    match ops with
    | [] => True
    | o :: r => aop_guard st o /\ guardedA fuel (stepA GA fx fuel st o) r
    end.

  Lemma InvA_emptyA : InvA (@emptyA F).
  Proof. split; [apply Inv2_empty|]. split; [constructor|right; exact I]. Qed.

  Lemma runA_InvA fuel (ops : list aopT) : forall (st : adrawingT),
    InvA st -> guardedA fuel st ops -> InvA (runA GA fx fuel ops st).
  Proof.
    unfold runA. induction ops as [|o ops IH]; cbn; intros st I Gd; [auto|].
    destruct Gd as [G1 G2]. apply IH; auto. apply stepA_InvA; auto.
  Qed.

  Lemma guardedA_fixed fuel (ops : list aopT) : forall (st : adrawingT), fx = true -> guardedA fuel st ops.
  Proof.
    induction ops as [|o ops IH]; cbn; intros st H; auto. split; [|apply IH; auto].
    destruct o as [o| | | | |]; cbn; auto. destruct o; cbn; auto.
  Qed.

  Definition is_delnodesA (o : aopT) : bool := match o with ABase ODeleteSelectedNodes => true | _ => false end.
  Lemma guardedA_no_delnodes fuel (ops : list aopT) : forall (st : adrawingT),
    forallb (fun o => negb (is_delnodesA o)) ops = true -> guardedA fuel st ops.
  Proof.
    induction ops as [|o ops IH]; cbn; intros st H; auto.
    apply andb_true_iff in H. destruct H as [H1 H2]. split; [|apply IH; auto].
    destruct o as [o| | | | |]; cbn in *; auto. destruct o; cbn in *; auto; discriminate.
  Qed.

  (* the reachable drawings *)
  Theorem inv_reachableA fuel (ops : list aopT) :
    guardedA fuel emptyA ops -> InvA (runA GA fx fuel ops emptyA).
  Proof. intros H. apply runA_InvA; [apply InvA_emptyA|exact H]. Qed.

  Theorem arcs_wf_reachable fuel (ops : list aopT) :
    guardedA fuel emptyA ops -> AWF (runA GA fx fuel ops emptyA) /\ WF (ad_base (runA GA fx fuel ops emptyA)).
  Proof. intros H. destruct (inv_reachableA fuel ops H) as ((W & _) & A & _). auto. Qed.

  Theorem arcs_nodup_reachable fuel (ops : list aopT) :
    guardedA fuel emptyA ops -> ad_asplit (runA GA fx fuel ops emptyA) = false ->
    NoDupArc (ad_arcs (runA GA fx fuel ops emptyA)).
  Proof. intros H D. destruct (inv_reachableA fuel ops H) as (_ & _ & [E|E]); [congruence|exact E]. Qed.

  Theorem lines_nodup_reachableA fuel (ops : list aopT) :
    guardedA fuel emptyA ops -> d_dsplit (ad_base (runA GA fx fuel ops emptyA)) = false ->
    NoDupSeg (d_segs (ad_base (runA GA fx fuel ops emptyA))).
  Proof. intros H D. destruct (inv_reachableA fuel ops H) as ((_ & [E|E]) & _); [congruence|exact E]. Qed.

  (* ---- nothing remains selected -------------------------------------------------------------------- *)
  Definition noselA (st : adrawingT) : Prop := nosel (ad_base st) /\ arcs_unselected st.

  Lemma noselA_unselectAllA (st : adrawingT) : noselA (unselectAllA st).
  Proof. split; [apply nosel_unselectAll|apply unselectAllA_arcs_unsel]. Qed.

  Lemma enforcePSLGA_noselA fuel (st : adrawingT) : noselA (enforcePSLGA GA fuel st).
  Proof. unfold enforcePSLGA. apply noselA_unselectAllA. Qed.

  Lemma addArcSegmentA_noselA_pres : forall fuel (st : adrawingT) ar tol,
    noselA st -> noselA (addArcSegmentA GA fuel st ar tol).
  Proof.
    induction fuel as [|fuel IH]; intros st ar tol H; [exact H|].
    rewrite addArcSegmentA_S. destruct (Nat.eqb (an0 ar) (an1 ar)); auto.
    destruct (existsb (arc_dup GA ar) (ad_arcs st)); auto.
    cbv zeta. set (st3 := aaA_st3 st (asetsel false ar) tol).
    assert (H3 : noselA st3) by apply noselA_unselectAllA.
    destruct (find_first _ 0 (length (anodes st3))); auto.
    apply IH, IH. split; [apply H3|].
    intros a Ha. cbn in Ha. apply filter_In in Ha. destruct Ha as [_ Ha]. apply negb_true_iff in Ha. exact Ha.
  Qed.

  (* an accepted addArcSegment ends with nothing selected; a rejected one leaves the drawing alone *)
  Lemma addArcSegmentA_clears_selection fuel (st : adrawingT) ar tol :
    addArcSegmentA GA (S fuel) st ar tol = st \/ noselA (addArcSegmentA GA (S fuel) st ar tol).
  Proof.
    rewrite addArcSegmentA_S. destruct (Nat.eqb (an0 ar) (an1 ar)); auto.
    destruct (existsb (arc_dup GA ar) (ad_arcs st)); auto.
    right. cbv zeta. set (st3 := aaA_st3 st (asetsel false ar) tol).
    assert (H3 : noselA st3) by apply noselA_unselectAllA.
    destruct (find_first _ 0 (length (anodes st3))); auto.
    apply addArcSegmentA_noselA_pres, addArcSegmentA_noselA_pres. split; [apply H3|].
    intros a Ha. cbn in Ha. apply filter_In in Ha. destruct Ha as [_ Ha]. apply negb_true_iff in Ha. exact Ha.
  Qed.

  Lemma delete_node_atA_arcs_unsel (st : adrawingT) i : arcs_unselected (delete_node_atA fx st i).
  Proof.
    intros a Ha. unfold delete_node_atA in Ha; cbn [ad_arcs] in Ha. apply in_map_iff in Ha.
    destruct Ha as [b [<- Hb]]. apply filter_In in Hb. destruct Hb as [_ Hb]. apply negb_true_iff in Hb. exact Hb.
  Qed.

  Lemma deleteSelectedNodesA_arcs_unsel (st : adrawingT) :
    arcs_unselected st -> arcs_unselected (deleteSelectedNodesA GA fx st).
  Proof.
    unfold deleteSelectedNodesA. generalize (length (anodes st)) as fuel. intros fuel.
    generalize 0 as i. revert st. induction fuel as [|fuel IH]; intros st i U; [exact U|]. cbn [delete_nodes_loopA].
    destruct (Nat.ltb i (length (anodes st))); [|exact U].
    destruct (nsel (node_at G (anodes st) i)); [|apply IH; auto].
    apply IH. apply delete_node_atA_arcs_unsel.
  Qed.

  (* after deleting the selected points of a drawing in which no line and no arc is selected, nothing is selected *)
  Lemma deleteSelectedNodesA_noselA (st : adrawingT) :
    segs_unselected (ad_base st) -> arcs_unselected st -> (forall l, In l (alabs st) -> lsel l = false) ->
    noselA (deleteSelectedNodesA GA fx st).
  Proof.
    intros US UA UL. split; [|apply deleteSelectedNodesA_arcs_unsel; exact UA].
    rewrite deleteSelectedNodesA_base. repeat split.
    - intros n Hn. rewrite deleteSelectedNodes_nodes in Hn. apply filter_In in Hn.
      destruct Hn as [_ Hn]. apply negb_true_iff in Hn. exact Hn.
    - apply deleteSelectedNodes_segs_unsel. exact US.
    - rewrite deleteSelectedNodes_labs. exact UL.
  Qed.

  Lemma radius_finish_noselA fuel (st : adrawingT) p0 plan grp bdry :
    noselA (radius_finish GA fx fuel st p0 plan grp bdry).
  Proof.
    destruct plan as [[[[[q1 q2] tol] e0] e1] len]. unfold radius_finish.
    set (st2 := addNodeA GA (addNodeA GA st (new_node q1) tol) (new_node q2) tol).
    apply addArcSegmentA_noselA_pres. apply deleteSelectedNodesA_noselA.
    - intros s Hs. apply (unselectAll_segs_unsel (ad_base st2)). exact Hs.
    - intros a Ha. apply (unselectAllA_arcs_unsel st2). exact Ha.
    - intros l Hl. destruct (nosel_unselectAll (ad_base st2)) as (_ & _ & C). apply C. exact Hl.
  Qed.

  (* createRadius: either refused (the drawing is untouched) or nothing is selected afterwards *)
  Theorem createRadiusA_clears_selection fuel (st : adrawingT) n r :
    createRadiusA GA fx fuel st n r = st \/ noselA (createRadiusA GA fx fuel st n r).
  Proof.
    unfold createRadiusA. destruct (ga_le0 GA r); [left; reflexivity|].
    destruct (filter (touches n) (asegs st)) as [|sA [|sB [|sC l]]];
      destruct (filter (atouches n) (ad_arcs st)) as [|aA [|aB [|aC l']]]; try (left; reflexivity).
    - destruct (ga_rad_aa GA _ _ _ _ _ _ _ _); [right; apply radius_finish_noselA|left; reflexivity].
    - destruct (ga_rad_la GA _ _ _ _ _ _ _ _); [right; apply radius_finish_noselA|left; reflexivity].
    - destruct (ga_rad_ll GA _ _ _ _) as [[sw plan]|]; [right; apply radius_finish_noselA|left; reflexivity].
  Qed.

  Definition clears_selectionA (o : aopT) : bool :=
    match o with ABase o => clears_selection G o | _ => false end.

  Theorem stepA_clears_selection fuel (st : adrawingT) (o : aopT) :
    clears_selectionA o = true -> noselA (stepA GA fx fuel st o).
  Proof.
    destruct o as [o| | | | |]; cbn [clears_selectionA]; try discriminate.
    destruct o; cbn [clears_selection stepA]; try discriminate; intros H.
    - (* OSetGroup *) split; [apply (step_clears_selection G fx fuel (ad_base st) (OSetGroup g)); reflexivity|].
      intros a Ha. cbn in Ha. apply in_map_iff in Ha. destruct Ha as [b [<- _]]. reflexivity.
    - apply noselA_unselectAllA.
    - (* ODeleteSelected *)
      set (st1 := deleteSelectedArcs (on_base st deleteSelectedSegments)).
      split.
      + unfold on_base; cbn [ad_base with_base]. rewrite deleteSelectedNodesA_base.
        apply (step_clears_selection G fx fuel (ad_base st) ODeleteSelected). reflexivity.
      + unfold on_base; cbn [ad_arcs with_base]. apply deleteSelectedNodesA_arcs_unsel.
        intros a Ha. cbn in Ha. apply filter_In in Ha. destruct Ha as [_ Ha]. apply negb_true_iff in Ha. exact Ha.
    - rewrite H. apply enforcePSLGA_noselA.
    - rewrite H. apply enforcePSLGA_noselA.
    - rewrite H. apply enforcePSLGA_noselA.
    - rewrite H. apply enforcePSLGA_noselA.
    - rewrite H. apply enforcePSLGA_noselA.
    - apply andb_true_iff in H. destruct H as [H1 H2]. rewrite H1.
      destruct (g_mirror_axis G x0 y0 x1 y1) as [[x p]|]; [apply enforcePSLGA_noselA|discriminate].
  Qed.

  (* mi_addarc: luaAddArc ends with unselectAll whenever the drawing has a point *)
  Theorem addarc_clears_selection fuel (st : adrawingT) x0 y0 x1 y1 ang ms :
    anodes st <> [] -> noselA (stepA GA fx fuel st (AAddArc x0 y0 x1 y1 ang ms)).
  Proof.
    intros H. cbn [stepA]. destruct (anodes st); [congruence|]. apply noselA_unselectAllA.
  Qed.

  Theorem createradius_clears_selection fuel (st : adrawingT) x y r :
    stepA GA fx fuel st (ACreateRadius x y r) = st \/ noselA (stepA GA fx fuel st (ACreateRadius x y r)).
  Proof.
    cbn [stepA]. destruct (anodes st); [left; reflexivity|]. apply createRadiusA_clears_selection.
  Qed.

  (* ---- deleteSelectedNodesA: which arcs remain, and what they refer to --------------------------- *)
  (* what an arc refers to: its two end NODES (coordinates, group, properties) and its own attributes *)
  Definition aview (nodes : list nodeT) (a : arcT) :=
    (node_at G nodes (an0 a), node_at G nodes (an1 a), agrp a, alen a, amax a, abdry a, aprop a).
  Definition acview (st : adrawingT) := map (aview (anodes st)) (ad_arcs st).
  Definition aends_unselected (v : nodeT * nodeT * nat * F * F * nat * nat) : bool :=
    match v with (n0, n1, _, _, _, _, _) => negb (nsel n0) && negb (nsel n1) end.

  Lemma delete_node_atA_acview (st : adrawingT) i :
    arcs_unselected st ->
    acview (delete_node_atA fx st i) = map (aview (anodes st)) (filter (fun a => negb (atouches i a)) (ad_arcs st)).
  Proof.
    intros U. pose proof (delete_node_atA_arcs st i (or_intror (fun a Ha _ => U a Ha))) as ES.
    assert (EF : filter (fun a => negb (asel a) && negb (atouches i a)) (ad_arcs st) =
                 filter (fun a => negb (atouches i a)) (ad_arcs st)).
    { apply filter_ext_in. intros a Ha. rewrite (U a Ha). reflexivity. }
    rewrite EF in ES. unfold acview, anodes. rewrite ES, delete_node_atA_base, delete_node_at_nodes, map_map.
    apply map_ext_in. intros a Ha. apply filter_In in Ha. destruct Ha as [_ Ha]. apply negb_true_iff in Ha.
    unfold atouches in Ha. apply orb_false_iff in Ha. destruct Ha as [A B]. apply Nat.eqb_neq in A, B.
    unfold aview. cbn [adec_above an0 an1 agrp alen amax abdry aprop]. rewrite !node_at_remove; auto.
  Qed.

  Lemma delete_loopA_acview : forall fuel i (st : adrawingT),
    arcs_unselected st ->
    filter aends_unselected (acview (delete_nodes_loopA GA fx fuel i st)) = filter aends_unselected (acview st).
  Proof.
    induction fuel as [|fuel IH]; intros i st U; [reflexivity|]. cbn [delete_nodes_loopA].
    destruct (Nat.ltb i (length (anodes st))); [|reflexivity].
    destruct (nsel (node_at G (anodes st) i)) eqn:S; [|apply IH; auto].
    rewrite IH by apply delete_node_atA_arcs_unsel. rewrite (delete_node_atA_acview st i U). clear U. unfold acview.
    induction (ad_arcs st) as [|a l IHl]; cbn [filter map]; auto.
    destruct (atouches i a) eqn:T; cbn [negb filter map].
    - rewrite IHl.
      assert (X : aends_unselected (aview (anodes st) a) = false).
      { unfold aends_unselected, aview. unfold atouches in T. apply orb_true_iff in T.
        destruct T as [T|T]; apply Nat.eqb_eq in T; rewrite T, S; cbn; auto. apply andb_false_r. }
      rewrite X. reflexivity.
    - rewrite IHl. reflexivity.
  Qed.

  (* after deleting the selected points every remaining arc still refers to the same two end nodes (same
     coordinates, group, properties) and keeps ArcLength, MaxSideLength, group and properties; exactly the arcs
     with a deleted end point disappear; the order is kept *)
  Theorem delete_renumbers_arcs_consistently (st : adrawingT) :
    arcs_unselected st ->
    acview (deleteSelectedNodesA GA fx st) = filter aends_unselected (acview st).
  Proof.
    intros U. rewrite <- (delete_loopA_acview (length (anodes st)) 0 st U).
    fold (deleteSelectedNodesA GA fx st). symmetry.
    assert (A : forall n, In n (anodes (deleteSelectedNodesA GA fx st)) -> nsel n = false).
    { intros n Hn. unfold anodes in Hn. rewrite deleteSelectedNodesA_base, deleteSelectedNodes_nodes in Hn.
      apply filter_In in Hn. destruct Hn as [_ Hn]. apply negb_true_iff in Hn. exact Hn. }
    unfold acview. induction (ad_arcs (deleteSelectedNodesA GA fx st)) as [|a l IH]; cbn [map filter]; auto.
    unfold aends_unselected at 1, aview at 1. rewrite !(node_at_unsel G) by exact A. cbn [negb andb]. f_equal. apply IH.
  Qed.

  (* ---- the copies made by one pass of translateCopy / rotateCopy / mirrorCopy ---------------------- *)
  (* an arc as the pair of its end NODES and its own attributes *)
  Definition aresolve (nodes : list nodeT) (a : arcT) :=
    (node_at G nodes (an0 a), node_at G nodes (an1 a), asel a, agrp a, alen a, amax a, abdry a, aprop a).
  Definition asel_valid (st : adrawingT) : Prop :=
    forall a, In a (ad_arcs st) -> asel a = true -> an0 a < NNA st /\ an1 a < NNA st.

  Definition apair_img (fn : pt -> pt) (base : list nodeT) (a : arcT) : list nodeT :=
    [copy_node fn (node_at G base (an0 a)); copy_node fn (node_at G base (an1 a))].
  (* the image of an arc: start = image of the start (mirror: of the END — the copy runs the other way round),
     same ArcLength, MaxSideLength, group and properties, not selected *)
  Definition arc_img (rev : bool) (fn : pt -> pt) (base : list nodeT) (a : arcT) :=
    (copy_node fn (node_at G base (if rev then an1 a else an0 a)),
     copy_node fn (node_at G base (if rev then an0 a else an1 a)), false, agrp a, alen a, amax a, abdry a, aprop a).

  Definition copy_arc_step (rev : bool) (fn : pt -> pt) (s : adrawingT) (a : arcT) : adrawingT :=
    if asel a then
      let b := ad_base s in
      let k := length (d_nodes b) in
      mkAD (set_nodes b (d_nodes b ++ [copy_node fn (node_at G (d_nodes b) (an0 a)); copy_node fn (node_at G (d_nodes b) (an1 a))]))
           (ad_arcs s ++ [mkArc (if rev then S k else k) (if rev then k else S k) false (agrp a) (alen a) (amax a) (abdry a) (aprop a)])
           (ad_asplit s)
    else s.

  Lemma copy_arcs_unfold rev fn (st : adrawingT) : copy_arcs GA rev fn st = fold_left (copy_arc_step rev fn) (ad_arcs st) st.
  Proof. reflexivity. Qed.

  Lemma copy_arcs_aux rev fn (base : list nodeT) : forall (l : list arcT) (s : adrawingT),
    (forall a, In a l -> asel a = true -> an0 a < length base /\ an1 a < length base) ->
    (exists extra, anodes s = base ++ extra) ->
    let r := fold_left (copy_arc_step rev fn) l s in
    exists app,
      anodes r = anodes s ++ flat_map (apair_img fn base) (filter asel l) /\
      ad_arcs r = ad_arcs s ++ app /\
      map (aresolve (anodes r)) app = map (arc_img rev fn base) (filter asel l) /\
      (forall x, In x app -> an0 x < length (anodes r) /\ an1 x < length (anodes r) /\ an0 x <> an1 x /\ asel x = false) /\
      asegs r = asegs s /\ alabs r = alabs s.
  Proof.
    induction l as [|a l IH]; intros s Hv [extra He]; cbn [fold_left].
    - exists []. cbn [filter flat_map map]. rewrite !app_nil_r.
      split; [reflexivity|split; [reflexivity|split; [reflexivity|split; [intros x []|split; reflexivity]]]].
    - cbv zeta. destruct (asel a) eqn:Sa.
      + destruct (Hv a (or_introl eq_refl) Sa) as [V0 V1].
        set (A := copy_node fn (node_at G (anodes s) (an0 a))). set (B := copy_node fn (node_at G (anodes s) (an1 a))).
        set (k := length (anodes s)).
        set (nw := mkArc (if rev then S k else k) (if rev then k else S k) false (agrp a) (alen a) (amax a) (abdry a) (aprop a)).
        set (s' := mkAD (set_nodes (ad_base s) (anodes s ++ [A; B])) (ad_arcs s ++ [nw]) (ad_asplit s)).
        assert (Es : copy_arc_step rev fn s a = s') by (unfold copy_arc_step; rewrite Sa; reflexivity).
        rewrite Es.
        destruct (IH s') as (app & E1 & E2 & E3 & E4 & E5 & E6).
        { intros ln Hl. apply Hv. right; exact Hl. }
        { exists (extra ++ [A; B]). unfold anodes, s'; cbn. fold (anodes s). rewrite He, <- app_assoc. reflexivity. }
        assert (EA : A = copy_node fn (node_at G base (an0 a))) by (unfold A; rewrite He, node_at_app_l; auto).
        assert (EB : B = copy_node fn (node_at G base (an1 a))) by (unfold B; rewrite He, node_at_app_l; auto).
        assert (N' : anodes s' = anodes s ++ [A; B]) by reflexivity.
        assert (A' : ad_arcs s' = ad_arcs s ++ [nw]) by reflexivity.
        rewrite N' in E1. rewrite A' in E2.
        exists (nw :: app).
        cbn [filter]. rewrite Sa. cbn [flat_map map].
        split; [|split; [|split; [|split; [|split]]]].
        * rewrite E1, <- app_assoc. unfold apair_img at 2. rewrite <- EA, <- EB. reflexivity.
        * rewrite E2, <- app_assoc. reflexivity.
        * f_equal; [|exact E3]. unfold aresolve, arc_img, nw. cbn [an0 an1 asel agrp alen amax abdry aprop]. rewrite E1.
          rewrite <- app_assoc. cbn [List.app]. fold k.
          destruct rev; unfold k; rewrite (node_at_len G), (node_at_len1 G), EA, EB; reflexivity.
        * intros x [<-|H]; [|apply E4, H]. unfold nw; cbn [an0 an1 asel]. rewrite E1, !app_length. cbn [length]. fold k.
          destruct rev; repeat split; lia.
        * rewrite E5. reflexivity.
        * rewrite E6. reflexivity.
      + assert (Es : copy_arc_step rev fn s a = s) by (unfold copy_arc_step; rewrite Sa; reflexivity).
        rewrite Es. cbn [filter]. rewrite Sa. apply IH; [|eauto]. intros ln Hl. apply Hv. right; exact Hl.
  Qed.

  Definition arc_node_block (fn : pt -> pt) (m : nat) (st : adrawingT) : list nodeT :=
    if mode_arcs m then flat_map (apair_img fn (anodes st)) (filter asel (ad_arcs st)) else [].
  Definition arc_block (rev : bool) (fn : pt -> pt) (m : nat) (st : adrawingT) :=
    if mode_arcs m then map (arc_img rev fn (anodes st)) (filter asel (ad_arcs st)) else [].

  (* one pass of a copy command on a drawing with arcs: what is appended, for every reading of the oracles.
     Points: images of the selected points, of the ends of the selected lines, of the ends of the selected arcs.
     Lines, block labels: as in Drawing.v.  Arcs: one copy per selected arc, joining the images of its ends. *)
  Theorem copy_passA_spec rev fn fl m (st : adrawingT) :
    sel_valid (ad_base st) -> asel_valid st ->
    let r := copy_passA GA rev fn fl m st in
    anodes r = anodes st ++ node_block G fn m (ad_base st) ++ arc_node_block fn m st /\
    (exists sapp, asegs r = asegs st ++ sapp /\
                  map (resolve G (anodes r)) sapp = seg_block G fn m (ad_base st) /\
                  (forall x, In x sapp -> s0 x < length (anodes r) /\ s1 x < length (anodes r) /\ ssel x = false)) /\
    (exists app, ad_arcs r = ad_arcs st ++ app /\
                 map (aresolve (anodes r)) app = arc_block rev fn m st /\
                 (forall x, In x app -> an0 x < length (anodes r) /\ an1 x < length (anodes r) /\ an0 x <> an1 x /\
                                         asel x = false)) /\
    alabs r = alabs st ++ lab_block fl m (ad_base st).
  Proof.
    intros V VA. unfold copy_passA, arc_node_block, arc_block.
    destruct (copy_pass_spec G fn fl m (ad_base st) V) as (N1 & (sapp & S1 & S2 & S3) & L1).
    cbv zeta in N1, S1, S2, S3, L1.
    set (st1 := with_base st (copy_pass G fn fl m (ad_base st))) in *.
    assert (N1' : anodes st1 = anodes st ++ node_block G fn m (ad_base st)) by exact N1.
    assert (S1' : asegs st1 = asegs st ++ sapp) by exact S1.
    assert (L1' : alabs st1 = alabs st ++ lab_block fl m (ad_base st)) by exact L1.
    assert (A1 : ad_arcs st1 = ad_arcs st) by reflexivity.
    cbv zeta. destruct (mode_arcs m).
    - rewrite copy_arcs_unfold.
      destruct (copy_arcs_aux rev fn (anodes st) (ad_arcs st1) st1) as (app & E1 & E2 & E3 & E4 & E5 & E6).
      { rewrite A1. intros a Ha Sa. apply VA; auto. }
      { eexists. exact N1'. }
      set (r := fold_left (copy_arc_step rev fn) (ad_arcs st1) st1) in *.
      rewrite A1 in E1, E3. split; [|split; [|split]].
      + rewrite E1, N1', <- app_assoc. reflexivity.
      + exists sapp. rewrite E5, S1'. split; [reflexivity|]. split.
        * rewrite <- S2. apply map_ext_in. intros x Hx. destruct (S3 x Hx) as (X0 & X1 & _).
          rewrite E1. apply resolve_app_l; assumption.
        * intros x Hx. destruct (S3 x Hx) as (X0 & X1 & X2). rewrite E1, app_length.
          change (d_nodes (copy_pass G fn fl m (ad_base st))) with (anodes st1) in X0, X1. repeat split; [lia|lia|exact X2].
      + exists app. rewrite E2, A1. split; [reflexivity|]. split; [exact E3|exact E4].
      + rewrite E6. exact L1'.
    - split; [|split; [|split]].
      + rewrite N1', app_nil_r. reflexivity.
      + exists sapp. split; [exact S1'|]. split; [exact S2|intros x Hx; apply S3, Hx].
      + exists []. rewrite app_nil_r. split; [reflexivity|]. split; [reflexivity|intros x []].
      + exact L1'.
  Qed.

  (* ---- several passes (ncopies): every pass copies the ORIGINAL selection ------------------------- *)
  Lemma aresolve_app_l (nodes more : list nodeT) (x : arcT) :
    an0 x < length nodes -> an1 x < length nodes -> aresolve (nodes ++ more) x = aresolve nodes x.
  Proof. intros A B. unfold aresolve. rewrite !(node_at_app_l G) by assumption. reflexivity. Qed.

  Lemma arc_node_block_unsel fn m (st : adrawingT) : filter nsel (arc_node_block fn m st) = [].
  Proof.
    apply filter_nil. intros a Ha. unfold arc_node_block in Ha. destruct (mode_arcs m); [|destruct Ha].
    apply in_flat_map in Ha. destruct Ha as [b [_ Hb]]. destruct Hb as [<-|[<-|[]]]; reflexivity.
  Qed.

  Definition passesA (rev : bool) (fs : list ((pt -> pt) * (labT -> labT))) (m : nat) (st : adrawingT) : adrawingT :=
    fold_left (fun s f => copy_passA GA rev (fst f) (snd f) m s) fs st.

  Theorem passesA_spec rev m (fs : list ((pt -> pt) * (labT -> labT))) : forall (st : adrawingT),
    sel_valid (ad_base st) -> asel_valid st ->
    let r := passesA rev fs m st in
    anodes r = anodes st ++ flat_map (fun f => node_block G (fst f) m (ad_base st) ++ arc_node_block (fst f) m st) fs /\
    (exists sapp, asegs r = asegs st ++ sapp /\
                  map (resolve G (anodes r)) sapp = flat_map (fun f => seg_block G (fst f) m (ad_base st)) fs /\
                  (forall x, In x sapp -> s0 x < length (anodes r) /\ s1 x < length (anodes r) /\ ssel x = false)) /\
    (exists app, ad_arcs r = ad_arcs st ++ app /\
                 map (aresolve (anodes r)) app = flat_map (fun f => arc_block rev (fst f) m st) fs /\
                 (forall x, In x app -> an0 x < length (anodes r) /\ an1 x < length (anodes r) /\ an0 x <> an1 x /\
                                         asel x = false)) /\
    alabs r = alabs st ++ flat_map (fun f => lab_block (snd f) m (ad_base st)) fs.
  Proof.
    unfold passesA. induction fs as [|f fs IH]; intros st V VA; cbn [fold_left flat_map].
    - cbv zeta. rewrite !app_nil_r. split; [reflexivity|]. split; [|split; [|reflexivity]].
      + exists []. rewrite app_nil_r. split; [reflexivity|split; [reflexivity|intros x []]].
      + exists []. rewrite app_nil_r. split; [reflexivity|split; [reflexivity|intros x []]].
    - destruct (copy_passA_spec rev (fst f) (snd f) m st V VA) as (N1 & (sapp1 & S1 & R1 & B1) & (app1 & A1 & Q1 & C1) & L1).
      cbv zeta in N1, S1, R1, B1, A1, Q1, C1, L1.
      set (st' := copy_passA GA rev (fst f) (snd f) m st) in *.
      assert (SS : same_selection (ad_base st) (ad_base st')).
      { split; [|split].
        - exists (node_block G (fst f) m (ad_base st) ++ arc_node_block (fst f) m st). split; [exact N1|].
          rewrite filter_app, node_block_unsel, arc_node_block_unsel. reflexivity.
        - exists sapp1. split; [exact S1|]. apply filter_nil. intros a Ha. apply B1, Ha.
        - exists (lab_block (snd f) m (ad_base st)). split; [exact L1|]. apply filter_nil. intros a Ha.
          unfold lab_block in Ha. destruct (mode_labels m); [|destruct Ha].
          apply in_map_iff in Ha. destruct Ha as [b [<- _]]. reflexivity. }
      assert (LN : length (anodes st) <= length (anodes st')) by (rewrite N1, app_length; lia).
      assert (V' : sel_valid (ad_base st')).
      { intros x Hx Sx. fold (asegs st') in Hx. rewrite S1 in Hx. apply in_app_or in Hx. destruct Hx as [Hx|Hx].
        - destruct (V x Hx Sx) as [P Q]. unfold NN in *. fold (anodes st) in P, Q. fold (anodes st'). lia.
        - destruct (B1 x Hx) as (_ & _ & C). congruence. }
      assert (VA' : asel_valid st').
      { intros x Hx Sx. rewrite A1 in Hx. apply in_app_or in Hx. destruct Hx as [Hx|Hx].
        - destruct (VA x Hx Sx) as [P Q]. unfold NNA, NN in *. fold (anodes st) in P, Q. fold (anodes st'). lia.
        - destruct (C1 x Hx) as (_ & _ & _ & C). congruence. }
      assert (BL : forall g, node_block G (fst g) m (ad_base st') = node_block G (fst g) m (ad_base st) /\
                             seg_block G (fst g) m (ad_base st') = seg_block G (fst g) m (ad_base st) /\
                             lab_block (snd g) m (ad_base st') = lab_block (snd g) m (ad_base st))
        by (intros g; apply blocks_same_selection; auto).
      assert (FA : filter asel (ad_arcs st') = filter asel (ad_arcs st)).
      { rewrite A1, filter_app. rewrite (filter_nil asel app1); [apply app_nil_r|]. intros a Ha. apply C1, Ha. }
      assert (VI : forall a, In a (filter asel (ad_arcs st)) -> an0 a < length (anodes st) /\ an1 a < length (anodes st)).
      { intros a Ha. apply filter_In in Ha. apply VA; tauto. }
      assert (BA : forall g : (pt -> pt) * (labT -> labT), arc_node_block (fst g) m st' = arc_node_block (fst g) m st /\
                             arc_block rev (fst g) m st' = arc_block rev (fst g) m st).
      { intros g. unfold arc_node_block, arc_block. rewrite FA. destruct (mode_arcs m); [|auto]. split.
        - apply flat_map_ext_in'. intros a Ha. destruct (VI a Ha). unfold apair_img. rewrite N1, !(node_at_app_l G) by assumption. reflexivity.
        - apply map_ext_in. intros a Ha. destruct (VI a Ha). unfold arc_img. rewrite N1.
          destruct rev; rewrite !(node_at_app_l G) by assumption; reflexivity. }
      destruct (IH st' V' VA') as (N2 & (sapp2 & S2 & R2 & B2) & (app2 & A2 & Q2 & C2) & L2). cbv zeta in *.
      set (r := fold_left (fun s f0 => copy_passA GA rev (fst f0) (snd f0) m s) fs st') in *.
      assert (F1 : flat_map (fun g => node_block G (fst g) m (ad_base st') ++ arc_node_block (fst g) m st') fs =
                   flat_map (fun g => node_block G (fst g) m (ad_base st) ++ arc_node_block (fst g) m st) fs).
      { apply flat_map_ext. intros g. destruct (BL g) as (-> & _). destruct (BA g) as (-> & _). reflexivity. }
      assert (F2 : flat_map (fun g => seg_block G (fst g) m (ad_base st')) fs = flat_map (fun g => seg_block G (fst g) m (ad_base st)) fs)
        by (apply flat_map_ext; intros g; apply BL).
      assert (F3 : flat_map (fun g => lab_block (snd g) m (ad_base st')) fs = flat_map (fun g => lab_block (snd g) m (ad_base st)) fs)
        by (apply flat_map_ext; intros g; apply BL).
      assert (F4 : flat_map (fun g => arc_block rev (fst g) m st') fs = flat_map (fun g => arc_block rev (fst g) m st) fs)
        by (apply flat_map_ext; intros g; apply BA).
      rewrite F1 in N2. rewrite F2 in R2. rewrite F3 in L2. rewrite F4 in Q2.
      split; [|split; [|split]].
      + rewrite N2, N1, <- !app_assoc. reflexivity.
      + exists (sapp1 ++ sapp2). split; [rewrite S2, S1, <- app_assoc; reflexivity|]. split.
        * rewrite map_app, R2. f_equal. rewrite <- R1. apply map_ext_in. intros x Hx.
          destruct (B1 x Hx) as (X0 & X1 & _). rewrite N2. apply resolve_app_l; assumption.
        * intros x Hx. apply in_app_or in Hx. destruct Hx as [Hx|Hx]; [|apply B2, Hx].
          destruct (B1 x Hx) as (X0 & X1 & X2). rewrite N2, app_length. repeat split; [lia|lia|exact X2].
      + exists (app1 ++ app2). split; [rewrite A2, A1, <- app_assoc; reflexivity|]. split.
        * rewrite map_app, Q2. f_equal. rewrite <- Q1. apply map_ext_in. intros x Hx.
          destruct (C1 x Hx) as (X0 & X1 & _). rewrite N2. apply aresolve_app_l; assumption.
        * intros x Hx. apply in_app_or in Hx. destruct Hx as [Hx|Hx]; [|apply C2, Hx].
          destruct (C1 x Hx) as (X0 & X1 & X2 & X3). rewrite N2, app_length. repeat split; [lia|lia|exact X2|exact X3].
      + rewrite L2, L1, <- app_assoc. reflexivity.
  Qed.

  Lemma translateCopy_rawA_passes dx dy n m (st : adrawingT) :
    translateCopy_rawA GA dx dy n m st =
    passesA false (map (fun nc => (g_translate G (g_times G nc dx) (g_times G nc dy),
                                   fun l : labT => lsetpt (g_translate G (g_times G nc dx) (g_times G nc dy) (lpt l)) l)) (seq 0 n)) m st.
  Proof.
    unfold translateCopy_rawA, passesA. generalize (seq 0 n) as l. intros l. revert st.
    induction l as [|a l IH]; cbn; intros st; auto.
  Qed.

  Lemma rotateCopy_rawA_passes c zs m (st : adrawingT) :
    rotateCopy_rawA GA c zs m st =
    passesA false (map (fun z => (g_rotate G c z, fun l : labT => lsetpt (g_rotate G c z (lpt l)) l)) zs) m st.
  Proof. unfold rotateCopy_rawA, passesA. revert st. induction zs as [|a l IH]; cbn; intros st; auto. Qed.

  (* translateCopy with ncopies = n before its enforcePSLG: the arcs that are appended, for every reading of the
     oracles: copy nc of every selected arc joins the images of its ends under the translation by (nc+1)*(dx,dy) *)
  Theorem translateCopy_rawA_arcs_spec dx dy n m (st : adrawingT) :
    sel_valid (ad_base st) -> asel_valid st ->
    let tr nc := g_translate G (g_times G nc dx) (g_times G nc dy) in
    let r := translateCopy_rawA GA dx dy n m st in
    anodes r = anodes st ++ flat_map (fun nc => node_block G (tr nc) m (ad_base st) ++ arc_node_block (tr nc) m st) (seq 0 n) /\
    exists app, ad_arcs r = ad_arcs st ++ app /\
                map (aresolve (anodes r)) app = flat_map (fun nc => arc_block false (tr nc) m st) (seq 0 n).
  Proof.
    intros V VA. cbv zeta. rewrite translateCopy_rawA_passes.
    destruct (passesA_spec false m (map (fun nc => (g_translate G (g_times G nc dx) (g_times G nc dy),
                            fun l : labT => lsetpt (g_translate G (g_times G nc dx) (g_times G nc dy) (lpt l)) l)) (seq 0 n))
                           st V VA) as (A & _ & (app & B1 & B2 & _) & _).
    cbv zeta in *. rewrite !flat_map_concat_map, map_map in A, B2. cbn [fst snd] in A, B2.
    rewrite <- !flat_map_concat_map in A, B2.
    split; [exact A|exists app; split; [exact B1|exact B2]].
  Qed.

  Theorem rotateCopy_rawA_arcs_spec c zs m (st : adrawingT) :
    sel_valid (ad_base st) -> asel_valid st ->
    let r := rotateCopy_rawA GA c zs m st in
    anodes r = anodes st ++ flat_map (fun z => node_block G (g_rotate G c z) m (ad_base st) ++ arc_node_block (g_rotate G c z) m st) zs /\
    exists app, ad_arcs r = ad_arcs st ++ app /\
                map (aresolve (anodes r)) app = flat_map (fun z => arc_block false (g_rotate G c z) m st) zs.
  Proof.
    intros V VA. cbv zeta. rewrite rotateCopy_rawA_passes.
    destruct (passesA_spec false m (map (fun z => (g_rotate G c z, fun l : labT => lsetpt (g_rotate G c z (lpt l)) l)) zs)
                           st V VA) as (A & _ & (app & B1 & B2 & _) & _).
    cbv zeta in *. rewrite !flat_map_concat_map, map_map in A, B2. cbn [fst snd] in A, B2.
    rewrite <- !flat_map_concat_map in A, B2.
    split; [exact A|exists app; split; [exact B1|exact B2]].
  Qed.

  Lemma arc_node_block_ext fn fn' m (st : adrawingT) :
    (forall p, fn p = fn' p) -> arc_node_block fn m st = arc_node_block fn' m st.
  Proof.
    intros E. unfold arc_node_block. destruct (mode_arcs m); auto. apply flat_map_ext. intros a.
    unfold apair_img, copy_node. rewrite !E. reflexivity.
  Qed.
  Lemma arc_block_ext rev fn fn' m (st : adrawingT) :
    (forall p, fn p = fn' p) -> arc_block rev fn m st = arc_block rev fn' m st.
  Proof.
    intros E. unfold arc_block. destruct (mode_arcs m); auto. apply map_ext. intros a.
    unfold arc_img, copy_node. rewrite !E. reflexivity.
  Qed.

  Lemma InvA_sel_valid (st : adrawingT) : InvA st -> sel_valid (ad_base st) /\ asel_valid st.
  Proof.
    intros ((W & _) & AW & _). split; [apply WF_sel_valid; exact W|].
    intros a Ha _. unfold AWF in AW. rewrite Forall_forall in AW. destruct (AW a Ha) as (A & B & _). auto.
  Qed.

  (* the fields of an image: same ArcLength, MaxSideLength, group, boundary name and properties; unselected;
     ends at the images of the ends (mirror: exchanged) *)
  Lemma arc_img_fields rev fn (base : list nodeT) (a : arcT) :
    arc_img rev fn base a =
    (copy_node fn (node_at G base (if rev then an1 a else an0 a)),
     copy_node fn (node_at G base (if rev then an0 a else an1 a)), false, agrp a, alen a, amax a, abdry a, aprop a).
  Proof. reflexivity. Qed.

  (* ---- the end-point guard of addArcSegment: a point within dmin of an end point of the proposed arc is never the
     point at which the arc is split (given that the oracles satisfy  not (2*dmin < dmin)) ----------------------- *)
  Theorem arc_split_point_not_near_ends (nodes : list nodeT) (ar : arcT) (dmin : F) (i : nat) :
    g_lt G (g_twice G dmin) dmin = false ->
    arc_passes_through GA nodes ar dmin i = true ->
    i <> an0 ar /\ i <> an1 ar /\
    g_lt G (g_cabs G (pt_at G nodes i) (pt_at G nodes (an0 ar))) dmin = false /\
    g_lt G (g_cabs G (pt_at G nodes i) (pt_at G nodes (an1 ar))) dmin = false /\
    g_lt G (arc_dist GA nodes (pt_at G nodes i) ar) dmin = true.
  Proof.
    intros T H. unfold arc_passes_through in H.
    destruct (Nat.eqb i (an0 ar)) eqn:X0; [discriminate|]. destruct (Nat.eqb i (an1 ar)) eqn:X1; [discriminate|].
    apply Nat.eqb_neq in X0, X1. cbn [orb] in H.
    destruct (g_lt G (g_cabs G (pt_at G nodes i) (pt_at G nodes (an1 ar))) dmin) eqn:E1; [congruence|].
    destruct (g_lt G (g_cabs G (pt_at G nodes i) (pt_at G nodes (an0 ar))) dmin) eqn:E0; [congruence|].
    auto.
  Qed.

  (* the points at which one call of addArcSegment splits the proposed arc (the recursion is entered only through
     [find_first (arc_passes_through ...)]): none of them is within that call's dmin of an end point *)
  Theorem addArcSegmentA_splits_away_from_ends fuel (st : adrawingT) ar0 tol i :
    let ar := asetsel false ar0 in
    let st3 := aaA_st3 st ar tol in
    let dmin := aaA_dmin st ar tol in
    g_lt G (g_twice G dmin) dmin = false ->
    find_first (arc_passes_through GA (anodes st3) ar dmin) 0 (length (anodes st3)) = Some i ->
    g_lt G (g_cabs G (pt_at G (anodes st3) i) (pt_at G (anodes st3) (an0 ar0))) dmin = false /\
    g_lt G (g_cabs G (pt_at G (anodes st3) i) (pt_at G (anodes st3) (an1 ar0))) dmin = false /\
    addArcSegmentA GA (S fuel) st ar0 tol =
      (if Nat.eqb (an0 ar0) (an1 ar0) then st
       else if existsb (arc_dup GA ar0) (ad_arcs st) then st
       else addArcSegmentA GA fuel
              (addArcSegmentA GA fuel (deleteSelectedArcs (toggle_arc st3 (length (ad_arcs st3) - 1)))
                              (fst (aaA_halves st ar tol i)) dmin)
              (snd (aaA_halves st ar tol i)) dmin).
  Proof.
    cbv zeta. intros T FF. pose proof FF as FF'. apply find_first_spec in FF'. destruct FF' as [_ Ti].
    destruct (arc_split_point_not_near_ends _ _ _ _ T Ti) as (_ & _ & A & B & _).
    split; [exact A|]. split; [exact B|].
    rewrite addArcSegmentA_S. cbv zeta. rewrite FF. reflexivity.
  Qed.

  (* ---- the arc-free fragment IS the model of Drawing.v -------------------------------------------- *)
  Lemma addNodeA_arcfree (b : drawingT) f nd d : addNodeA GA (mkAD b [] f) nd d = mkAD (addNode G b nd d) [] f.
  Proof.
    unfold addNodeA, addNode, anodes, alabs; cbn [ad_base ad_arcs ad_asplit].
    destruct (existsb (near_node G (npt nd) d) (d_nodes b)); [reflexivity|].
    destruct (existsb (near_lab G (npt nd) d) (d_labs b)); [reflexivity|].
    cbn. rewrite orb_false_r. reflexivity.
  Qed.

  Lemma fold_addNodeA_arcfree {X} (mk : X -> nodeT) t (xs : list X) : forall (b : drawingT) f,
    fold_left (fun s x => addNodeA GA s (mk x) t) xs (mkAD b [] f) =
    mkAD (fold_left (fun s x => addNode G s (mk x) t) xs b) [] f.
  Proof. induction xs as [|x xs IH]; cbn; intros b f; auto. rewrite addNodeA_arcfree. apply IH. Qed.

  Lemma addSegmentA_arcfree : forall fuel (b : drawingT) f n0 n1 par tol,
    addSegmentA GA fuel (mkAD b [] f) n0 n1 par tol = mkAD (addSegment G fuel b n0 n1 par tol) [] f.
  Proof.
    induction fuel as [|fuel IH]; intros b f n0 n1 par tol; [reflexivity|].
    rewrite addSegmentA_S, addSegment_S. unfold asegs; cbn [ad_base].
    destruct (Nat.eqb n0 n1); [reflexivity|]. destruct (dup_in n0 n1 (d_segs b)); [reflexivity|].
    assert (E3 : asA_st3 (mkAD b [] f) n0 n1 par tol = mkAD (as_st3 G b n0 n1 par tol) [] f).
    { unfold asA_st3, as_st3, asA_st1, as_st1, asA_newnodes, line_arc_points. cbn [ad_base ad_arcs flat_map].
      rewrite app_nil_r. unfold asegs; cbn [ad_base]. rewrite fold_addNodeA_arcfree. reflexivity. }
    assert (ED : asA_dmin (mkAD b [] f) n0 n1 par tol = as_dmin G b n0 n1 par tol).
    { unfold asA_dmin, as_dmin. rewrite E3. reflexivity. }
    cbv zeta. rewrite E3, ED. unfold anodes, asegs; cbn [ad_base].
    destruct (find_first _ 0 (length (d_nodes (as_st3 G b n0 n1 par tol)))); [|reflexivity].
    unfold with_base; cbn [ad_base ad_arcs ad_asplit]. rewrite IH, IH. reflexivity.
  Qed.

  Lemma delete_loopA_arcfree : forall fuel i (b : drawingT) f,
    delete_nodes_loopA GA fx fuel i (mkAD b [] f) = mkAD (delete_nodes_loop G fx fuel i b) [] f.
  Proof.
    induction fuel as [|fuel IH]; intros i b f; [reflexivity|]. cbn [delete_nodes_loopA delete_nodes_loop].
    unfold anodes; cbn [ad_base].
    destruct (Nat.ltb i (length (d_nodes b))); [|reflexivity].
    destruct (nsel (node_at G (d_nodes b) i)); [|apply IH].
    unfold delete_node_atA; cbn [ad_base ad_arcs ad_asplit map filter]. apply IH.
  Qed.

  Lemma deleteSelectedNodesA_arcfree (b : drawingT) f :
    deleteSelectedNodesA GA fx (mkAD b [] f) = mkAD (deleteSelectedNodes G fx b) [] f.
  Proof. unfold deleteSelectedNodesA, deleteSelectedNodes. apply delete_loopA_arcfree. Qed.

  Lemma fold_addSegmentA_arcfree fuel d (pp : seg -> pt * pt) (ls : list seg) : forall (b : drawingT) f,
    fold_left (fun s ln => addSegmentA GA fuel s (closestNodeA GA s (fst (pp ln))) (closestNodeA GA s (snd (pp ln))) (Some ln) d)
              ls (mkAD b [] f) =
    mkAD (fold_left (fun s ln => addSegment G fuel s (closestNode G s (fst (pp ln))) (closestNode G s (snd (pp ln))) (Some ln) d)
                    ls b) [] f.
  Proof.
    induction ls as [|l ls IH]; cbn [fold_left]; intros b f; auto.
    unfold closestNodeA at 1 2; cbn [ad_base]. rewrite addSegmentA_arcfree. apply IH.
  Qed.

  Lemma enforcePSLGA_arcfree fuel (b : drawingT) f :
    enforcePSLGA GA fuel (mkAD b [] f) = mkAD (enforcePSLG G fuel b) [] f.
  Proof.
    unfold enforcePSLGA, enforcePSLG, anodes, asegs, alabs; cbn [ad_base ad_arcs ad_asplit].
    rewrite (fold_addNodeA_arcfree (fun nd : nodeT => nd)).
    rewrite (fold_addSegmentA_arcfree fuel (auto_tol G (d_nodes b))
               (fun ln => (pt_at G (d_nodes b) (s0 ln), pt_at G (d_nodes b) (s1 ln)))).
    cbn [fst snd fold_left]. reflexivity.
  Qed.

  Lemma set_nodes_id (b : drawingT) : set_nodes b (d_nodes b) = b.
  Proof. destruct b; reflexivity. Qed.

  Lemma move_rawA_arcfree fn fl m (b : drawingT) f :
    move_rawA fn fl m (mkAD b [] f) = mkAD (move_raw fn fl m b) [] f.
  Proof.
    unfold move_rawA, move_raw, with_base, select_arc_ends; cbn [ad_base ad_arcs ad_asplit fold_left].
    rewrite set_nodes_id. destruct (mode_arcs m); reflexivity.
  Qed.

  Lemma copy_passA_arcfree rev fn fl m (b : drawingT) f :
    copy_passA GA rev fn fl m (mkAD b [] f) = mkAD (copy_pass G fn fl m b) [] f.
  Proof. unfold copy_passA, with_base, copy_arcs; cbn [ad_base ad_arcs ad_asplit fold_left]. destruct (mode_arcs m); reflexivity. Qed.

  Lemma translateCopy_rawA_arcfree dx dy n m (b : drawingT) f :
    translateCopy_rawA GA dx dy n m (mkAD b [] f) = mkAD (translateCopy_raw G dx dy n m b) [] f.
  Proof.
    unfold translateCopy_rawA, translateCopy_raw. generalize (seq 0 n) as l. intros l. revert b.
    induction l as [|a l IH]; cbn [fold_left]; intros b; auto. rewrite copy_passA_arcfree. apply IH.
  Qed.

  Lemma rotateCopy_rawA_arcfree c zs m (b : drawingT) f :
    rotateCopy_rawA GA c zs m (mkAD b [] f) = mkAD (rotateCopy_raw G c zs m b) [] f.
  Proof.
    unfold rotateCopy_rawA, rotateCopy_raw. revert b.
    induction zs as [|a l IH]; cbn [fold_left]; intros b; auto. rewrite copy_passA_arcfree. apply IH.
  Qed.

  (* every command of Drawing.v, on a drawing without arcs, does in the extended model exactly what it does in
     Drawing.v (and creates no arc) *)
  Theorem stepA_arcfree fuel (b : drawingT) f (o : opT) :
    stepA GA fx fuel (mkAD b [] f) (ABase o) = mkAD (step G fx fuel b o) [] f.
  Proof.
    destruct o; cbn [stepA step]; unfold on_base, with_base, closestNodeA, anodes; cbn [ad_base ad_arcs ad_asplit map];
      try reflexivity.
    - apply addNodeA_arcfree.
    - apply addSegmentA_arcfree.
    - unfold deleteSelectedArcs, set_arcs; cbn [ad_base ad_arcs ad_asplit filter].
      rewrite deleteSelectedNodesA_arcfree. reflexivity.
    - apply deleteSelectedNodesA_arcfree.
    - destruct (mode_valid mode); [|reflexivity]. rewrite move_rawA_arcfree. apply enforcePSLGA_arcfree.
    - destruct (mode_valid mode); [|reflexivity]. rewrite move_rawA_arcfree. apply enforcePSLGA_arcfree.
    - destruct (mode_valid mode); [|reflexivity]. rewrite move_rawA_arcfree. apply enforcePSLGA_arcfree.
    - destruct (mode_valid mode); [|reflexivity]. rewrite translateCopy_rawA_arcfree. apply enforcePSLGA_arcfree.
    - destruct (mode_valid mode); [|reflexivity]. rewrite rotateCopy_rawA_arcfree. apply enforcePSLGA_arcfree.
    - destruct (mode_valid mode); [|reflexivity].
      destruct (g_mirror_axis G x0 y0 x1 y1) as [[x p]|]; [|reflexivity].
      rewrite copy_passA_arcfree. apply enforcePSLGA_arcfree.
  Qed.

  Theorem runA_arcfree fuel (ops : list opT) : forall (b : drawingT) f,
    runA GA fx fuel (map ABase ops) (mkAD b [] f) = mkAD (run G fx fuel ops b) [] f.
  Proof.
    unfold runA, run. induction ops as [|o ops IH]; cbn [map fold_left]; intros b f; auto.
    rewrite stepA_arcfree. apply IH.
  Qed.

  (* so every theorem of Properties_C16.v about [run G fx fuel ops empty] is a theorem about the extended model *)
  Corollary runA_arcfree_empty fuel (ops : list opT) :
    runA GA fx fuel (map ABase ops) emptyA = lift (run G fx fuel ops empty).
  Proof. apply runA_arcfree. Qed.

  (* ---- what a new point does to the arcs it lies on (the combinatorial half of "arcs meet lines and arcs
     only at points"; the other half — that the oracle finds every crossing — is metric) ------------- *)
  Theorem addNodeA_splits_the_arcs_it_lies_on (st : adrawingT) nd d :
    length (anodes (addNodeA GA st nd d)) <> length (anodes st) ->
    let k := length (anodes st) in
    let hit := on_arc GA (anodes st ++ [nd]) (npt nd) d in
    anodes (addNodeA GA st nd d) = anodes st ++ [nd] /\
    exists firsts seconds,
      ad_arcs (addNodeA GA st nd d) = firsts ++ seconds /\
      length firsts = length (ad_arcs st) /\ length seconds = length (filter hit (ad_arcs st)) /\
      (forall j a, nth_error (ad_arcs st) j = Some a ->
         exists a', nth_error firsts j = Some a' /\
           (if hit a then an0 a' = an0 a /\ an1 a' = k else a' = a)) /\
      (forall j a, nth_error (filter hit (ad_arcs st)) j = Some a ->
         exists a', nth_error seconds j = Some a' /\ an0 a' = k /\ an1 a' = an1 a /\
                    agrp a' = agrp a /\ amax a' = amax a /\ abdry a' = abdry a /\ aprop a' = aprop a).
  Proof.
    intros H. cbv zeta.
    destruct (addNodeA_cases st nd d) as [[E _]|[E EB]]; [rewrite E in H; congruence|]. rewrite E.
    unfold addNodeA_added; cbn [ad_base ad_arcs]. split.
    - unfold anodes; cbn [ad_base]. rewrite EB. reflexivity.
    - eexists; eexists. split; [reflexivity|]. split; [apply map_length|]. split; [apply map_length|]. split.
      + intros j a Hj. rewrite nth_error_map, Hj. cbn [option_map]. eexists; split; [reflexivity|].
        destruct (on_arc GA (anodes st ++ [nd]) (npt nd) d a); [|reflexivity].
        destruct (arc_halves_fields (anodes st ++ [nd]) (npt nd) (length (anodes st)) a) as (A & B & _). auto.
      + intros j a Hj. rewrite nth_error_map, Hj. cbn [option_map]. eexists; split; [reflexivity|].
        unfold arc_halves; cbn. auto 10.
  Qed.
End GenericA.

(* ------------------------------------------------------------------------------------- *)
(* the real-number reading *)
Section RealReadingA.
  Local Open Scope R_scope.
  Variable L : Libm R.
  Local Notation adrawingR := (@adrawing R).

  (* translateCopy before enforcePSLG, real reading: copy nc of a selected arc joins the end points of the original
     translated by exactly (nc+1)*(dx,dy), with the original's ArcLength, MaxSideLength, group and properties *)
  Theorem arc_copies_at_transformed_coordinates (dx dy : R) (n m : nat) (st : adrawingR) :
    sel_valid (ad_base st) -> asel_valid st ->
    let tr (nc : nat) (p : R * R) := (fst p + INR (S nc) * dx, snd p + INR (S nc) * dy) in
    let r := translateCopy_rawA (geoArcA RA L) dx dy n m st in
    anodes r = anodes st ++ flat_map (fun nc => node_block (geoA RA) (tr nc) m (ad_base st) ++
                                                arc_node_block (geoArcA RA L) (tr nc) m st) (seq 0 n) /\
    exists app, ad_arcs r = ad_arcs st ++ app /\
                map (aresolve (geoArcA RA L) (anodes r)) app =
                flat_map (fun nc => arc_block (geoArcA RA L) false (tr nc) m st) (seq 0 n).
  Proof.
    intros V VA. cbv zeta. destruct (translateCopy_rawA_arcs_spec (geoArcA RA L) dx dy n m st V VA) as (A & app & B1 & B2).
    cbv zeta in *.
    assert (E : forall nc p, g_translate (geoA RA) (g_times (geoA RA) nc dx) (g_times (geoA RA) nc dy) p =
                             (fst p + INR (S nc) * dx, snd p + INR (S nc) * dy)) by (intros; apply translate_real).
    split.
    - rewrite A. f_equal. apply flat_map_ext. intros nc. f_equal.
      + apply node_block_ext. apply E.
      + apply arc_node_block_ext. apply E.
    - exists app. split; [exact B1|]. rewrite B2. apply flat_map_ext. intros nc. apply arc_block_ext. apply E.
  Qed.

  (* the hypothesis of the end-point-guard theorem in the real reading: it holds for every dmin >= 0 *)
  Lemma twice_not_less_real (dmin : R) : 0 <= dmin -> g_lt (geoA RA) (g_twice (geoA RA) dmin) dmin = false.
  Proof.
    intros H. cbn [g_lt g_twice geoA]. ra_simpl. apply Rltb_false. lra.
  Qed.
End RealReadingA.

(* boolean forms, for the refutations by evaluation *)
Definition dupAb {F} (GA : GeoArc F) (e n : @arc F) : bool :=
  Nat.eqb (an0 e) (an0 n) && Nat.eqb (an1 e) (an1 n) && ga_close GA (alen e) (alen n).
Fixpoint nodupAb {F} (GA : GeoArc F) (l : list (@arc F)) : bool :=
  match l with [] => true | a :: r => negb (existsb (dupAb GA a) r) && nodupAb GA r end.
Lemma NoDupArc_nodupAb {F} (GA : GeoArc F) l : NoDupArc GA l -> nodupAb GA l = true.
Proof.
  induction l as [|a l IH]; cbn; auto. intros [H1 H2]. rewrite IH by auto. rewrite andb_true_r.
  apply negb_true_iff. destruct (existsb (dupAb GA a) l) eqn:E; auto.
  apply existsb_exists in E. destruct E as [t [Ht S]]. rewrite Forall_forall in H1. exfalso. apply (H1 t Ht).
  unfold dupAb in S. apply andb_true_iff in S. destruct S as [S C]. apply andb_true_iff in S. destruct S as [A B].
  apply Nat.eqb_eq in A, B. split; [|split]; auto.
Qed.
Definition awfb {F} (st : @adrawing F) : bool :=
  forallb (fun a => Nat.ltb (an0 a) (NN (ad_base st)) && Nat.ltb (an1 a) (NN (ad_base st)) && negb (Nat.eqb (an0 a) (an1 a)))
          (ad_arcs st).

(* ------------------------------------------------------------------------------------- *)
(* witnesses, by evaluating the binary64 reading of the model (fx = true, the working tree) with the libm values
   that harness/h_drawing_arc.cpp recorded from the implementation for exactly these command sequences *)
Section WitnessesA.
  Local Open Scope float_scope.
  Local Notation aopF := (@aop float).

  Definition libm_A2 : Libm float := (libm_of_tables (T1node (T1node T1leaf 0x1.921fb54442d18p-1 0x1.6a09e667f3bccp-1 T1leaf) 0x1.9236959eac310p-1 0x1.6a1a131c98b95p-1 T1leaf) T1leaf (T2node (T2node (T2node (T2node T2leaf (-0x1.7ec8000000000p-41) 0x1.00000000005e4p+0 (-0x1.7ec7ffffff731p-41) T2leaf) (-0x1.7ec0000000000p-41) 0x1.00000000005e3p+0 (-0x1.7ebfffffff733p-41) T2leaf) 0x1.9bc8d5936ed00p-10 0x1.ffffdb32aea64p-1 0x1.9bc8dcfa5247cp-10 (T2node (T2node T2leaf 0x1.9bdb3788ac800p-10 0x1.ffffd1fd97af2p-1 0x1.9bdb4655f83adp-10 T2leaf) 0x1.232cf2baafe00p-9 0x1.6a09c92219555p+0 0x1.9bc8dcfa525a3p-10 T2leaf)) 0x1.2346fa6292900p-9 0x1.6a19f5d2d1388p+0 0x1.9bdb4655f842ep-10 (T2node (T2node (T2node T2leaf 0x1.ffffd201801d5p-1 0x1.9bc8ce2ed8a00p-10 0x1.91b8c30d043cep+0 T2leaf) 0x1.ffffeb8abfd56p-1 0x1.4059da570e900p-10 0x1.91cf9ecd16b30p+0 T2leaf) 0x1.fffffdf4ac942p-1 (-0x1.6e05a62539c00p-12) 0x1.9236959eacf06p+0 (T2node T2leaf 0x1.00000000005e2p+0 (-0x1.7e90000000000p-41) 0x1.921fb5444390dp+0 T2leaf)))).
  Definition ops_A2 : list aopF :=
    [ABase (OAddNode 0x0.0p+0 0x0.0p+0);
     ABase (OAddNode 0x1.0000000000000p+0 0x0.0p+0);
     AAddArc 0x0.0p+0 0x0.0p+0 0x1.0000000000000p+0 0x0.0p+0 0x1.6800000000000p+6 0x1.4000000000000p+2;
     AAddArc 0x0.0p+0 0x0.0p+0 0x1.0000000000000p+0 0x0.0p+0 0x1.68147ae147ae1p+6 0x1.4000000000000p+2;
     ABase (OAddNode 0x1.9c12703622600p-11 (-0x1.9b7f3af0bb600p-11))].
  Definition libm_A1 : Libm float := (libm_of_tables (T1node T1leaf 0x1.921fb54442d18p-1 0x1.6a09e667f3bccp-1 T1leaf) T1leaf (T2node T2leaf 0x1.6a09e667e04cep+0 (-0x1.da88a09d00000p-18) 0x1.922009273471fp+0 T2leaf)).
  Definition ops_A1 : list aopF :=
    [ABase (OAddNode 0x0.0p+0 0x0.0p+0);
     ABase (OAddNode 0x1.0000000000000p+0 0x0.0p+0);
     ABase (OAddNode 0x1.0000000000000p+0 0x1.4f8b588e368f1p-18);
     AAddArc 0x0.0p+0 0x0.0p+0 0x1.0000000000000p+0 0x0.0p+0 0x1.6800000000000p+6 0x1.4000000000000p+2].
  Definition libm_exA : Libm float := (libm_of_tables (T1node (T1node T1leaf 0x1.921fb54442d18p-2 0x1.87de2a6aea963p-2 T1leaf) 0x1.921fb54442d18p-1 0x1.6a09e667f3bccp-1 T1leaf) (T1node T1leaf 0x1.921fb54442d18p-1 0x1.fffffffffffffp-1 T1leaf) (T2node (T2node (T2node (T2node (T2node (T2node T2leaf (-0x1.f496a6bca9732p+1) 0x1.adfadd92cd3b2p-1 (-0x1.5bf934d1d2d99p+0) T2leaf) (-0x1.babcf0da8e37cp+1) 0x1.0126d8a22ebacp+1 (-0x1.0b6ac7f8d27ddp+0) (T2node T2leaf (-0x1.9578b91e3086dp+1) 0x1.38a0fcc311989p+1 (-0x1.d3f46e60dd860p-1) T2leaf)) (-0x1.6a09e667f3bc9p+1) (-0x1.6a09e667f3bc9p+1) (-0x1.2d97c7f3321d2p+1) (T2node (T2node T2leaf (-0x1.0000000000000p+0) 0x1.0000000000000p-53 (-0x1.921fb54442d18p+0) T2leaf) (-0x1.6a09e667f3bcfp-1) (-0x1.6a09e667f3bcfp-1) (-0x1.2d97c7f3321d2p+1) T2leaf)) (-0x1.6a09e667f3bcfp-1) 0x1.6a09e667f3bccp-1 (-0x1.921fb54442d1ap-1) (T2node (T2node (T2node T2leaf (-0x1.6a09e667f3bcep-1) 0x1.6a09e667f3bcbp-1 (-0x1.921fb54442d1ap-1) T2leaf) (-0x1.6a09e667f3bcdp-1) (-0x1.6a09e667f3bccp-1) (-0x1.2d97c7f3321d2p+1) (T2node T2leaf (-0x1.6a09e667f3bcbp-1) (-0x1.6a09e667f3bcep-1) (-0x1.2d97c7f3321d3p+1) T2leaf)) (-0x1.6a09e667f3bcap-1) (-0x1.6a09e667f3bcbp-1) (-0x1.2d97c7f3321d2p+1) (T2node (T2node T2leaf (-0x1.69b7004107cc0p-1) 0x1.e9e44576ed886p-6 (-0x1.874ba2bb7c6c4p+0) T2leaf) (-0x1.69a6fc4b8b239p-1) 0x1.0b8d0cf92235ep-5 (-0x1.864ba310d18e6p+0) T2leaf))) (-0x1.63021484ae2bbp-1) 0x1.1c01aa03be894p-3 (-0x1.5f97315254857p+0) (T2node (T2node (T2node (T2node T2leaf (-0x1.598f049504df1p-1) 0x1.aff2c5ba4616cp-3 (-0x1.4495d86823226p+0) T2leaf) (-0x1.5775c544ff263p-1) 0x1.c9f25c5bfedd7p-3 (-0x1.3fc176b7a8560p+0) (T2node T2leaf (-0x1.5555555555556p-1) 0x1.e2b7dddfefa66p-3 (-0x1.3b2028082e8d4p+0) T2leaf)) (-0x1.43d136248490fp-1) 0x1.43d136248490ep-2 (-0x1.1b6e192ebbe45p+0) (T2node (T2node T2leaf (-0x1.2f2cd6d80bf12p-1) (-0x1.fa5bdeac48e44p+1) (-0x1.7f1b02f92a5aep+1) T2leaf) (-0x1.0000000000002p-1) 0x1.ffffffffffffdp-2 (-0x1.921fb54442d1cp-1) T2leaf)) (-0x1.0000000000001p-1) 0x1.0000000000001p-1 (-0x1.921fb54442d18p-1) (T2node (T2node (T2node T2leaf (-0x1.5748f1de6234fp-2) 0x1.3ec3bc055b312p-1 (-0x1.f9cbc4269ab2bp-2) T2leaf) (-0x1.8000000000000p-53) (-0x1.ffffffffffffep-1) (-0x1.921fb54442d18p+1) (T2node T2leaf (-0x1.8000000000000p-53) 0x1.6a09e667f3bcep-1 (-0x1.0f876ccdf6cd8p-52) T2leaf)) (-0x1.0000000000000p-53) (-0x1.0000000000000p+0) (-0x1.921fb54442d18p+1) (T2node (T2node T2leaf (-0x1.2bec333018868p-56) 0x1.6a09e667f3bcdp-1 (-0x1.a827999fcef33p-56) T2leaf) (-0x1.0000000000000p-106) 0x1.0000000000001p+0 (-0x1.ffffffffffffep-107) T2leaf)))) 0x0.0p+0 0x1.0000000000000p+0 0x0.0p+0 (T2node (T2node (T2node (T2node (T2node T2leaf 0x0.0p+0 0x1.0000000000001p+0 0x0.0p+0 T2leaf) 0x1.0d0c28ffb1850p-57 0x1.6a09e667f3bcdp-1 0x1.7c7d998d2ee67p-57 (T2node T2leaf 0x1.6a09e667f3bcep-53 (-0x1.0000000000001p+0) 0x1.921fb54442d18p+1 T2leaf)) 0x1.a01fcac10e717p-3 0x1.5ac528f636b3bp-1 0x1.2a73a661eaf08p-2 (T2node (T2node T2leaf 0x1.ffffffffffffep-2 0x1.0000000000000p-1 0x1.921fb54442d17p-1 T2leaf) 0x1.0000000000001p-1 0x1.0000000000000p-1 0x1.921fb54442d19p-1 T2leaf)) 0x1.0000000000005p-1 0x1.ffffffffffffap-2 0x1.921fb54442d20p-1 (T2node (T2node (T2node T2leaf 0x1.2d3c008fd1894p-1 (-0x1.91a556151761cp-2) 0x1.145385fa3af72p+1 T2leaf) 0x1.46b144454d289p-1 (-0x1.380d333544fbep-2) 0x1.0218015527fb0p+1 (T2node T2leaf 0x1.5555555555556p-1 0x1.e2b7dddfefa68p-3 0x1.3b2028082e8d4p+0 T2leaf)) 0x1.63021484ae2bbp-1 0x1.1c01aa03be896p-3 0x1.5f97315254857p+0 (T2node (T2node T2leaf 0x1.6a09e667f3bcbp-1 0x1.6a09e667f3bccp-1 0x1.921fb54442d18p-1 T2leaf) 0x1.6a09e667f3bccp-1 (-0x1.6a09e667f3bccp-1) 0x1.2d97c7f3321d2p+1 T2leaf))) 0x1.6a09e667f3bccp-1 0x1.6a09e667f3bcdp-1 0x1.921fb54442d18p-1 (T2node (T2node (T2node (T2node T2leaf 0x1.6a09e667f3bccp-1 0x1.6a09e667f3bcep-1 0x1.921fb54442d17p-1 T2leaf) 0x1.6a09e667f3bcdp-1 (-0x1.0000000000000p-53) 0x1.921fb54442d19p+0 (T2node T2leaf 0x1.6a09e667f3bcdp-1 0x1.6a09e667f3bccp-1 0x1.921fb54442d19p-1 T2leaf)) 0x1.6a09e667f3bcdp-1 0x1.6a09e667f3bcep-1 0x1.921fb54442d18p-1 (T2node (T2node T2leaf 0x1.6a09e667f3bcep-1 (-0x1.6a09e667f3bcdp-1) 0x1.2d97c7f3321d2p+1 T2leaf) 0x1.6a09e667f3bcep-1 (-0x1.4000000000000p-52) 0x1.921fb54442d1ap+0 T2leaf)) 0x1.6a09e667f3bcfp-1 0x1.6a09e667f3bcep-1 0x1.921fb54442d19p-1 (T2node (T2node (T2node T2leaf 0x1.6a09e667f3bcfp-1 0x1.6a09e667f3bcfp-1 0x1.921fb54442d18p-1 T2leaf) 0x1.adfadd92cd3b2p-1 (-0x1.f496a6bca9732p+1) 0x1.770c750b0ad59p+1 (T2node T2leaf 0x1.0000000000000p+0 (-0x1.8000000000000p-53) 0x1.921fb54442d19p+0 T2leaf)) 0x1.0000000000000p+0 (-0x1.0000000000000p-53) 0x1.921fb54442d19p+0 (T2node (T2node T2leaf 0x1.0000000000000p+0 0x0.0p+0 0x1.921fb54442d18p+0 T2leaf) 0x1.0000000000000p+0 0x1.8000000000000p-51 0x1.921fb54442d15p+0 T2leaf)))))).
  Definition ops_exA : list aopF :=
    [ABase (OAddNode 0x0.0p+0 0x0.0p+0);
     ABase (OAddNode 0x1.0000000000000p+1 0x0.0p+0);
     ABase (OAddNode 0x1.0000000000000p+0 (-0x1.0000000000000p+0));
     ABase (OAddNode 0x1.0000000000000p+0 0x1.0000000000000p+0);
     ABase (OAddNode 0x1.0000000000000p+0 (-0x1.0000000000000p-2));
     AAddArc 0x0.0p+0 0x0.0p+0 0x1.0000000000000p+1 0x0.0p+0 0x1.6800000000000p+6 0x1.4000000000000p+2;
     ABase (OAddSegment 0x1.0000000000000p+0 (-0x1.0000000000000p+0) 0x1.0000000000000p+0 (-0x1.0000000000000p-2));
     ABase (OAddSegment 0x0.0p+0 0x0.0p+0 0x1.0000000000000p+0 0x1.0000000000000p+0);
     ABase (OAddSegment 0x1.0000000000000p+0 0x1.0000000000000p+0 0x1.0000000000000p+1 0x0.0p+0);
     ACreateRadius 0x1.0000000000000p+0 0x1.0000000000000p+0 0x1.0000000000000p-2;
     ASelectArc 0x1.3333333333333p-2 (-0x1.3333333333333p-2);
     ASetArcProp 2 1 0x1.4000000000000p+1;
     ABase (OClearSelected);
     ABase (OSelectGroup 1);
     ABase (OMirror 0x1.8000000000000p+1 0x0.0p+0 0x1.8000000000000p+1 0x1.0000000000000p+0 3)].
  (* A2, the arc analogue of C16-F2: two arcs of 90 and 90.02 degrees from point 0 to point 1 (accepted: the angles
     differ by more than 1e-2) and a new point within the tolerance of both: both are split there and the two
     first halves (0 -> 2) have ArcLengths that differ by less than 1e-2 — "the same arc" by addArcSegment's own test *)
  Lemma arc_double_split_refuted :
    guardedA (geoArcA FA libm_A2) true FUEL emptyA ops_A2 /\
    ~ NoDupArc (geoArcA FA libm_A2) (ad_arcs (runA (geoArcA FA libm_A2) true FUEL ops_A2 emptyA)).
  Proof.
    split; [apply guardedA_fixed; reflexivity|].
    intros N. apply NoDupArc_nodupAb in N. revert N. vm_compute. discriminate.
  Qed.
  Lemma A2_final_state :
    map (fun a => (an0 a, an1 a)) (ad_arcs (runA (geoArcA FA libm_A2) true FUEL ops_A2 emptyA)) = [(0, 2); (0, 2); (2, 1); (2, 1)]%nat /\
    ad_asplit (runA (geoArcA FA libm_A2) true FUEL ops_A2 emptyA) = true /\
    d_oof (ad_base (runA (geoArcA FA libm_A2) true FUEL ops_A2 emptyA)) = false.
  Proof. vm_compute. auto. Qed.

  (* A1 (regression of C16-A1): a third point 5e-6 from the end of a 90 degree arc of chord 1 — farther than the
     point-snap tolerance 1.4e-6, closer than dmin = 1.1e-5.  Before /repo 0d96bcd the recursive split of addArcSegment
     did not end on this input (stack overflow); with the end-point guard the arc 0 -> 1 is added in one piece *)
  Lemma A1_repaired_state :
    map (fun a => (an0 a, an1 a, alen a)) (ad_arcs (runA (geoArcA FA libm_A1) true FUEL ops_A1 emptyA)) = [(0%nat, 1%nat, 90)] /\
    length (anodes (runA (geoArcA FA libm_A1) true FUEL ops_A1 emptyA)) = 3%nat /\
    d_oof (ad_base (runA (geoArcA FA libm_A1) true FUEL ops_A1 emptyA)) = false.
  Proof. vm_compute. auto. Qed.
  (* the third point IS within dmin of the arc (the distance oracle says so) and within dmin of its end point 1: it is the
     end-point guard that keeps it from being a split point *)
  Lemma A1_point_is_near_the_arc_and_its_end :
    let GA := geoArcA FA libm_A1 in
    let st := runA GA true FUEL ops_A1 emptyA in
    let ar := mkArc 0%nat 1%nat false 0%nat 90 5 0%nat 0%nat in
    let dmin := ga_arc_dmin GA (pt_at (ga_geo GA) (anodes st) 0) (pt_at (ga_geo GA) (anodes st) 1) 90 in
    g_lt (ga_geo GA) (arc_dist GA (anodes st) (pt_at (ga_geo GA) (anodes st) 2) ar) dmin = true /\
    g_lt (ga_geo GA) (g_cabs (ga_geo GA) (pt_at (ga_geo GA) (anodes st) 2) (pt_at (ga_geo GA) (anodes st) 1)) dmin = true /\
    arc_passes_through GA (anodes st) ar dmin 2 = false.
  Proof. vm_compute. auto. Qed.

  (* non-vacuity: a reachable drawing with 9 points, 4 lines and 4 arcs built by add point / arc / line (the line
     crosses the arc: a point is inserted and the arc split), create-radius on a corner of two lines, property and
     group assignment, select by group, mirrored copy in arc mode *)
  Lemma example_reachableA :
    guardedA (geoArcA FA libm_exA) true FUEL emptyA ops_exA /\
    length (anodes (runA (geoArcA FA libm_exA) true FUEL ops_exA emptyA)) = 9%nat /\
    length (asegs (runA (geoArcA FA libm_exA) true FUEL ops_exA emptyA)) = 4%nat /\
    map (fun a => (an0 a, an1 a, agrp a, abdry a)) (ad_arcs (runA (geoArcA FA libm_exA) true FUEL ops_exA emptyA)) =
      [(0, 4, 1, 2); (4, 1, 0, 0); (6, 5, 0, 0); (8, 7, 1, 2)]%nat /\
    ad_asplit (runA (geoArcA FA libm_exA) true FUEL ops_exA emptyA) = false /\
    d_dsplit (ad_base (runA (geoArcA FA libm_exA) true FUEL ops_exA emptyA)) = false /\
    d_oof (ad_base (runA (geoArcA FA libm_exA) true FUEL ops_exA emptyA)) = false.
  Proof. split; [apply guardedA_fixed; reflexivity|]. vm_compute. auto 10. Qed.

  Lemma example_hypothesesA :
    let st := runA (geoArcA FA libm_exA) true FUEL ops_exA emptyA in
    InvA (geoArcA FA libm_exA) st /\ arcs_unselected st /\ asel_valid st /\ sel_valid (ad_base st) /\
    NoDupArc (geoArcA FA libm_exA) (ad_arcs st).
  Proof.
    cbv zeta.
    assert (I : InvA (geoArcA FA libm_exA) (runA (geoArcA FA libm_exA) true FUEL ops_exA emptyA)).
    { apply inv_reachableA. apply guardedA_fixed. reflexivity. }
    destruct (InvA_sel_valid _ _ I) as [V VA].
    split; [exact I|]. split; [|split; [exact VA|split; [exact V|]]].
    - intros a Ha.
      assert (E : forallb (fun a => negb (asel a)) (ad_arcs (runA (geoArcA FA libm_exA) true FUEL ops_exA emptyA)) = true)
        by (vm_compute; reflexivity).
      rewrite forallb_forall in E. apply negb_true_iff. apply E. exact Ha.
    - destruct I as (_ & _ & [D|D]); [|exact D]. revert D. vm_compute. discriminate.
  Qed.
End WitnessesA.
