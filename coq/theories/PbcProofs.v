(* PbcProofs.v — theorems about the pairing model Pbc.v of DoPeriodicBCTriangulation.
   Structure (indices, lists) is proved for every arithmetic reading; geometry over the reals. *)
From Coq Require Import ZArith List Bool Arith Lia Reals Lra.
From XF Require Import Arith Discretize Pbc.
Import ListNotations.

(* ------------------------------------------------------------------------------------------ *)
(* sortXY + pruning                                                                            *)
(* ------------------------------------------------------------------------------------------ *)
Definition key (e : nat * nat * nat) : nat * nat := (fst (fst e), snd (fst e)).
Definition flag (e : nat * nat * nat) : nat := snd e.
Definition mentions (u : nat) (e : nat * nat * nat) : Prop := fst (fst e) = u \/ snd (fst e) = u.

Lemma same_xy_spec a b : same_xy a b = true <-> key a = key b.
Proof.
  unfold same_xy, key. rewrite andb_true_iff, !Nat.eqb_eq.
  destruct a as [[x y] t], b as [[x' y'] t']; simpl. split; [intros [-> ->]; reflexivity|intros H; inversion H; auto].
Qed.

Lemma same_xy_false a b : same_xy a b = false <-> key a <> key b.
Proof. rewrite <- same_xy_spec. destruct (same_xy a b); split; congruence. Qed.

(* the loop written as a structural recursion ("keep the head, erase its copies from what the rest
   keeps"); the two agree *)
Fixpoint prune_rec (l : list (nat * nat * nat)) : list (nat * nat * nat) :=
  match l with
  | [] => []
  | e :: r => e :: filter (fun e' => negb (same_xy e e')) (prune_rec r)
  end.

Lemma filter_comm {T} (f g : T -> bool) l : filter f (filter g l) = filter g (filter f l).
Proof.
  induction l as [|a r IH]; simpl; [reflexivity|].
  destruct (g a) eqn:Eg, (f a) eqn:Ef; simpl; rewrite ?Eg, ?Ef, IH; reflexivity.
Qed.

Lemma filter_absorb {T} (f g : T -> bool) l : (forall x, g x = false -> f x = false) -> filter f (filter g l) = filter f l.
Proof.
  intros H. induction l as [|a r IH]; simpl; [reflexivity|].
  destruct (g a) eqn:Eg; simpl; rewrite IH; [reflexivity|]. rewrite (H a Eg). reflexivity.
Qed.

Lemma filter_length_le {T} (f : T -> bool) l : (length (filter f l) <= length l)%nat.
Proof. induction l as [|a r IH]; simpl; [lia|]. destruct (f a); simpl; lia. Qed.

Lemma same_xy_sym a b : same_xy a b = same_xy b a.
Proof. unfold same_xy. rewrite (Nat.eqb_sym (fst (fst a))), (Nat.eqb_sym (snd (fst a))). reflexivity. Qed.

(* a predicate that looks at x, y only commutes with pruning *)
Lemma prune_rec_filter (g : nat * nat * nat -> bool) : (forall a b, key a = key b -> g a = g b) ->
  forall l, prune_rec (filter g l) = filter g (prune_rec l).
Proof.
  intros Hg. induction l as [|a r IH]; simpl; [reflexivity|]. destruct (g a) eqn:Ea.
  - cbn [prune_rec]. rewrite IH. f_equal. apply filter_comm.
  - rewrite IH. symmetry. apply filter_absorb. intros x Hx.
    apply negb_false_iff, same_xy_spec in Hx. rewrite <- (Hg a x Hx). exact Ea.
Qed.

Lemma prune_loop_rec : forall fuel l, (length l <= fuel)%nat -> prune_loop fuel l = prune_rec l.
Proof.
  induction fuel as [|fuel IH]; intros l Hl.
  - destruct l; [reflexivity|simpl in Hl; lia].
  - destruct l as [|e r]; [reflexivity|]. cbn [prune_loop prune_rec]. f_equal.
    rewrite IH by (pose proof (filter_length_le (fun e' => negb (same_xy e e')) r); simpl in Hl; lia).
    apply prune_rec_filter. intros a b Hk. f_equal.
    destruct (same_xy e a) eqn:E1, (same_xy e b) eqn:E2; try reflexivity.
    + apply same_xy_spec in E1. apply same_xy_false in E2. congruence.
    + apply same_xy_spec in E2. apply same_xy_false in E1. congruence.
Qed.

Lemma prune_eq l : prune l = prune_rec l.
Proof. apply prune_loop_rec. lia. Qed.

Lemma prune_In e l : In e (prune l) -> In e l.
Proof.
  rewrite prune_eq. revert e. induction l as [|a r IH]; simpl; intros e H; [exact H|].
  destruct H as [->|H]; [left; reflexivity|]. apply filter_In in H. right. apply IH. tauto.
Qed.

Lemma prune_keys_NoDup l : NoDup (map key (prune l)).
Proof.
  rewrite prune_eq. induction l as [|a r IH]; simpl; [constructor|].
  constructor.
  - intros H. apply in_map_iff in H. destruct H as (e & He & Hin). apply filter_In in Hin.
    destruct Hin as [_ Hf]. apply negb_true_iff in Hf. apply same_xy_false in Hf. congruence.
  - clear -IH. induction (prune_rec r) as [|b q IHq]; simpl; [constructor|].
    inversion IH; subst. destruct (negb (same_xy a b)); simpl; [|auto].
    constructor; [|auto]. intros H. apply H1. apply in_map_iff in H. destruct H as (e & He & Hin).
    apply filter_In in Hin. apply in_map_iff. exists e. tauto.
Qed.

(* every entry is represented by an entry with the same x, y *)
Lemma prune_complete e l : In e l -> exists e', In e' (prune l) /\ key e' = key e.
Proof.
  rewrite prune_eq. induction l as [|a r IH]; simpl; [tauto|]. intros [->|H].
  - exists e. auto.
  - destruct (IH H) as (e' & Hin & Hk).
    destruct (same_xy a e') eqn:E.
    + exists a. split; [auto|]. apply same_xy_spec in E. congruence.
    + exists e'. split; [|exact Hk]. right. apply filter_In. rewrite E. auto.
Qed.

Lemma filter_all_id {T} (f : T -> bool) l : (forall x, In x l -> f x = true) -> filter f l = l.
Proof.
  induction l as [|a r IH]; simpl; intros H; [reflexivity|].
  rewrite (H a) by auto. f_equal. apply IH. intros x Hx. apply H. auto.
Qed.

(* nothing is erased when the x, y are pairwise different *)
Lemma prune_id l : NoDup (map key l) -> prune l = l.
Proof.
  rewrite prune_eq. induction l as [|a r IH]; simpl; intros H; [reflexivity|]. inversion H; subst.
  rewrite IH by assumption. f_equal.
  apply filter_all_id. intros e He. apply negb_true_iff, same_xy_false.
  intros K. apply H2. rewrite K. apply in_map. exact He.
Qed.

(* the first entry with some x, y is the one that survives (its flag is the one written) *)
Lemma prune_head a r : exists q, prune (a :: r) = a :: q.
Proof. unfold prune. simpl. eexists. reflexivity. Qed.

Lemma sort_xy_flag e : flag (sort_xy e) = flag e.
Proof. destruct e as [[x y] t]. unfold sort_xy, flag. destruct (Nat.ltb y x); reflexivity. Qed.

Lemma sort_xy_key x y t : key (sort_xy (x, y, t)) = (Nat.min x y, Nat.max x y).
Proof.
  unfold sort_xy, key. destruct (Nat.ltb_spec y x); simpl; f_equal; lia.
Qed.

Lemma sort_xy_mentions u e : mentions u (sort_xy e) <-> mentions u e.
Proof.
  destruct e as [[x y] t]. unfold sort_xy, mentions. destruct (Nat.ltb y x); simpl; tauto.
Qed.

(* ------------------------------------------------------------------------------------------ *)
(* the interleaved subdivision loops: what they append                                          *)
(* ------------------------------------------------------------------------------------------ *)
(* pairs of new nodes L+2j, L+2j+1 for j = from .. from+n-1 *)
Definition new_pts (L t from n : nat) : list (nat * nat * nat) :=
  map (fun j => (L + 2 * j, L + 2 * j + 1, t)) (seq from n).

Lemma new_pts_S L t from n : new_pts L t from (S n) = (L + 2 * from, L + 2 * from + 1, t) :: new_pts L t (S from) n.
Proof. reflexivity. Qed.

(* the two chains of sub-segments (first partner: even positions, second: odd) *)
Fixpoint chain_from (a b : nat) (l : list nat) : Prop :=
  match l with
  | [] => a = b
  | v :: r => chain_from v b r
  end.

Section Loops.
  Context {F : Type} (A : Arith F).
  Local Notation cplx := (F * F)%type.

  Section SegLoop.
    Variables (k : nat) (a0 a1 b0 b1 : cplx) (e0 e1 f0 f1 t c0 c1 : nat).

    Definition seg_new_nodes (from n : nat) : list cplx :=
      flat_map (fun j => [sub_point A a0 a1 j k; sub_point A b0 b1 j k]) (seq from n).

    Lemma seg_new_nodes_length from n : length (seg_new_nodes from n) = 2 * n.
    Proof. revert from. induction n; intros; simpl; [reflexivity|]. unfold seg_new_nodes in IHn. rewrite IHn. lia. Qed.

    Lemma seg_loop_done : forall fuel st, seg_pair_loop A fuel k k a0 a1 b0 b1 e0 e1 f0 f1 t c0 c1 st = st.
    Proof. destruct fuel; intros; simpl; [reflexivity|]. rewrite Nat.ltb_irrefl. reflexivity. Qed.

    (* from iteration j >= 1 on; L = number of points before the pair was started *)
    Lemma seg_loop_from L : forall fuel j nodes segs pts,
      (1 <= j < k)%nat -> (k - j <= fuel)%nat -> length nodes = L + 2 * j ->
      exists segs',
        seg_pair_loop A fuel j k a0 a1 b0 b1 e0 e1 f0 f1 t c0 c1 (nodes, segs, pts) =
        (nodes ++ seg_new_nodes j (k - 1 - j), segs ++ segs', pts ++ new_pts L t j (k - 1 - j)) /\
        length segs' = 2 * (k - j).
    Proof.
      induction fuel as [|fuel IH]; intros j nodes segs pts Hj Hf Hl; [lia|].
      cbn [seg_pair_loop]. destruct (Nat.ltb_spec j k) as [Hlt|Hge]; [|lia].
      destruct (Nat.eqb_spec j 0) as [->|_]; [lia|].
      destruct (Nat.eqb_spec j (k - 1)) as [Hlast|Hmid].
      - replace (S j) with k by lia. rewrite seg_loop_done.
        exists [(length nodes - 2, e1, c0); (length nodes - 1, f1, c1)].
        replace (k - 1 - j) with 0 by lia. simpl. rewrite !app_nil_r. split; [reflexivity|lia].
      - destruct (IH (S j) (nodes ++ [sub_point A a0 a1 j k; sub_point A b0 b1 j k])
                     (segs ++ [(length nodes - 2, length nodes, c0); (length nodes - 1, S (length nodes), c1)])
                     (pts ++ [(length nodes, S (length nodes), t)]))
          as (segs' & E & Ls); try lia.
        { rewrite app_length. simpl. lia. }
        exists ([(length nodes - 2, length nodes, c0); (length nodes - 1, S (length nodes), c1)] ++ segs').
        rewrite E. replace (k - 1 - j) with (S (k - 1 - S j)) by lia.
        unfold seg_new_nodes. cbn [seq flat_map]. rewrite new_pts_S.
        rewrite <- !app_assoc. cbn [app].
        replace (L + 2 * j) with (length nodes) by lia.
        replace (length nodes + 1) with (S (length nodes)) by lia.
        split; [reflexivity|]. cbn [length]. rewrite Ls. lia.
    Qed.

    (* the whole loop for k >= 2 parts: k-1 new nodes on each partner, interleaved, listed in pairs *)
    Lemma seg_loop_spec_fuel fuel nodes segs pts : (2 <= k)%nat -> (k <= fuel)%nat ->
      exists segs',
        seg_pair_loop A fuel 0 k a0 a1 b0 b1 e0 e1 f0 f1 t c0 c1 (nodes, segs, pts) =
        (nodes ++ seg_new_nodes 0 (k - 1), segs ++ segs', pts ++ new_pts (length nodes) t 0 (k - 1)) /\
        length segs' = 2 * k.
    Proof.
      intros Hk Hf. destruct fuel as [|fuel]; [lia|]. cbn [seg_pair_loop].
      destruct (Nat.ltb_spec 0 k) as [_|]; [|lia]. cbn [Nat.eqb].
      set (L := length nodes).
      destruct (seg_loop_from L fuel 1 (nodes ++ [sub_point A a0 a1 0 k; sub_point A b0 b1 0 k])
                  (segs ++ [(e0, L, c0); (f0, S L, c1)]) (pts ++ [(L, S L, t)])) as (segs' & E & Ls); try lia.
      { rewrite app_length. simpl. fold L. lia. }
      exists ([(e0, L, c0); (f0, S L, c1)] ++ segs').
      rewrite E. remember (k - 1 - 1) as m eqn:Em. replace (k - 1) with (S m) by lia.
      unfold seg_new_nodes. cbn [seq flat_map]. rewrite new_pts_S. rewrite <- !app_assoc. cbn [app].
      replace (L + 2 * 0) with L by lia. replace (L + 1) with (S L) by lia.
      split; [reflexivity|]. cbn [length]. rewrite Ls. lia.
    Qed.

    Lemma seg_loop_spec nodes segs pts : (2 <= k)%nat ->
      exists segs',
        seg_pair_loop A k 0 k a0 a1 b0 b1 e0 e1 f0 f1 t c0 c1 (nodes, segs, pts) =
        (nodes ++ seg_new_nodes 0 (k - 1), segs ++ segs', pts ++ new_pts (length nodes) t 0 (k - 1)) /\
        length segs' = 2 * k.
    Proof. intros Hk. apply seg_loop_spec_fuel; lia. Qed.
  End SegLoop.

  Section ArcLoop.
    Variables (k : nat) (c0 c1 d0 d1 : cplx) (p00 p01 p10 p11 t m0 m1 : nat).

    (* bgn = (bgn-c)*d+c *)
    Definition turn (c d z : cplx) : cplx := cadd A (cmul A (csub A z c) d) c.
    Fixpoint turns (c d z : cplx) (n : nat) : cplx :=
      match n with O => z | S m => turn c d (turns c d z m) end.

    Lemma turns_shift c d z n : turns c d (turn c d z) n = turns c d z (S n).
    Proof. induction n; simpl; [reflexivity|]. rewrite IHn. reflexivity. Qed.

    Definition arc_new_nodes (bg0 bg1 : cplx) (from n : nat) : list cplx :=
      flat_map (fun j => [turns c0 d0 bg0 (S j); turns c1 d1 bg1 (S j)]) (seq from n).

    Lemma arc_new_nodes_length bg0 bg1 from n : length (arc_new_nodes bg0 bg1 from n) = 2 * n.
    Proof. revert from. induction n; intros; simpl; [reflexivity|]. unfold arc_new_nodes in IHn. rewrite IHn. lia. Qed.

    Lemma arc_loop_done : forall fuel x y st, arc_pair_loop A fuel k k c0 c1 d0 d1 x y p00 p01 p10 p11 t m0 m1 st = st.
    Proof. destruct fuel; intros; simpl; [reflexivity|]. rewrite Nat.ltb_irrefl. reflexivity. Qed.

    (* [bg0 bg1] = the initial begin points; at iteration j the state holds their j-th turns *)
    Lemma arc_loop_from L bg0 bg1 : forall fuel j nodes segs pts,
      (1 <= j < k)%nat -> (k - j <= fuel)%nat -> length nodes = L + 2 * j ->
      exists segs',
        arc_pair_loop A fuel j k c0 c1 d0 d1 (turns c0 d0 bg0 j) (turns c1 d1 bg1 j) p00 p01 p10 p11 t m0 m1 (nodes, segs, pts) =
        (nodes ++ arc_new_nodes bg0 bg1 j (k - 1 - j), segs ++ segs', pts ++ new_pts L t j (k - 1 - j)) /\
        length segs' = 2 * (k - j).
    Proof.
      induction fuel as [|fuel IH]; intros j nodes segs pts Hj Hf Hl; [lia|].
      cbn [arc_pair_loop]. destruct (Nat.ltb_spec j k) as [Hlt|Hge]; [|lia].
      destruct (Nat.eqb_spec j 0) as [->|_]; [lia|].
      fold (turn c0 d0 (turns c0 d0 bg0 j)). fold (turn c1 d1 (turns c1 d1 bg1 j)).
      change (turn c0 d0 (turns c0 d0 bg0 j)) with (turns c0 d0 bg0 (S j)).
      change (turn c1 d1 (turns c1 d1 bg1 j)) with (turns c1 d1 bg1 (S j)).
      destruct (Nat.eqb_spec j (k - 1)) as [Hlast|Hmid].
      - assert (HS : S j = k) by lia. rewrite HS. rewrite arc_loop_done.
        exists [(length nodes - 2, p01, m0); (length nodes - 1, p11, m1)].
        replace (k - 1 - j) with 0 by lia. simpl. rewrite !app_nil_r. split; [reflexivity|lia].
      - destruct (IH (S j) (nodes ++ [turns c0 d0 bg0 (S j); turns c1 d1 bg1 (S j)])
                     (segs ++ [(length nodes - 2, length nodes, m0); (length nodes - 1, S (length nodes), m1)])
                     (pts ++ [(length nodes, S (length nodes), t)]))
          as (segs' & E & Ls); try lia.
        { rewrite app_length. simpl. lia. }
        exists ([(length nodes - 2, length nodes, m0); (length nodes - 1, S (length nodes), m1)] ++ segs').
        split; [|cbn [length app]; rewrite Ls; lia].
        etransitivity; [apply E|].
        replace (k - 1 - j) with (S (k - 1 - S j)) by lia.
        unfold arc_new_nodes. cbn [seq flat_map]. rewrite new_pts_S.
        rewrite <- !app_assoc. cbn [app].
        replace (L + 2 * j) with (length nodes) by lia.
        replace (length nodes + 1) with (S (length nodes)) by lia.
        reflexivity.
    Qed.

    Lemma arc_loop_spec_fuel fuel bg0 bg1 nodes segs pts : (2 <= k)%nat -> (k <= fuel)%nat ->
      exists segs',
        arc_pair_loop A fuel 0 k c0 c1 d0 d1 bg0 bg1 p00 p01 p10 p11 t m0 m1 (nodes, segs, pts) =
        (nodes ++ arc_new_nodes bg0 bg1 0 (k - 1), segs ++ segs', pts ++ new_pts (length nodes) t 0 (k - 1)) /\
        length segs' = 2 * k.
    Proof.
      intros Hk Hf. destruct fuel as [|fuel]; [lia|]. cbn [arc_pair_loop].
      destruct (Nat.ltb_spec 0 k) as [_|]; [|lia]. cbn [Nat.eqb].
      set (L := length nodes).
      fold (turn c0 d0 bg0). fold (turn c1 d1 bg1).
      change (turn c0 d0 bg0) with (turns c0 d0 bg0 1). change (turn c1 d1 bg1) with (turns c1 d1 bg1 1).
      destruct (arc_loop_from L bg0 bg1 fuel 1 (nodes ++ [turns c0 d0 bg0 1; turns c1 d1 bg1 1])
                  (segs ++ [(p00, L, m0); (p10, S L, m1)]) (pts ++ [(L, S L, t)])) as (segs' & E & Ls); try lia.
      { rewrite app_length. simpl. fold L. lia. }
      exists ([(p00, L, m0); (p10, S L, m1)] ++ segs').
      split; [|cbn [length app]; rewrite Ls; lia].
      etransitivity; [apply E|].
      remember (k - 1 - 1) as m eqn:Em. replace (k - 1) with (S m) by lia.
      unfold arc_new_nodes. cbn [seq flat_map]. rewrite new_pts_S. rewrite <- !app_assoc. cbn [app].
      replace (L + 2 * 0) with L by lia. replace (L + 1) with (S L) by lia.
      reflexivity.
    Qed.

    Lemma arc_loop_spec bg0 bg1 nodes segs pts : (2 <= k)%nat ->
      exists segs',
        arc_pair_loop A k 0 k c0 c1 d0 d1 bg0 bg1 p00 p01 p10 p11 t m0 m1 (nodes, segs, pts) =
        (nodes ++ arc_new_nodes bg0 bg1 0 (k - 1), segs ++ segs', pts ++ new_pts (length nodes) t 0 (k - 1)) /\
        length segs' = 2 * k.
    Proof. intros Hk. apply arc_loop_spec_fuel; lia. Qed.
  End ArcLoop.
End Loops.

(* ------------------------------------------------------------------------------------------ *)
(* positions of the new nodes                                                                   *)
(* ------------------------------------------------------------------------------------------ *)
Lemma nth_pairs {T} (f g : nat -> T) (d : T) : forall n from j, (j < n)%nat ->
  nth (2 * j) (flat_map (fun i => [f i; g i]) (seq from n)) d = f (from + j)%nat /\
  nth (2 * j + 1) (flat_map (fun i => [f i; g i]) (seq from n)) d = g (from + j)%nat.
Proof.
  induction n as [|n IH]; intros from j Hj; [lia|]. cbn [seq flat_map app].
  destruct j as [|j].
  - simpl. rewrite Nat.add_0_r. auto.
  - replace (2 * S j)%nat with (S (S (2 * j))) by lia. replace (S (S (2 * j)) + 1)%nat with (S (S (2 * j + 1))) by lia.
    cbn [nth]. destruct (IH (S from) j) as [H1 H2]; [lia|].
    rewrite H1, H2. replace (S from + j)%nat with (from + S j)%nat by lia. auto.
Qed.

Lemma nth_app_new {T} (l new : list T) (d : T) i : nth (length l + i) (l ++ new) d = nth i new d.
Proof. rewrite app_nth2 by lia. f_equal. lia. Qed.

Lemma nth_app_old {T} (l new : list T) (d : T) i : (i < length l)%nat -> nth i (l ++ new) d = nth i l d.
Proof. intros. apply app_nth1. assumption. Qed.

Lemma In_new_pts L t from n e : In e (new_pts L t from n) <->
  exists j, (from <= j < from + n)%nat /\ e = ((L + 2 * j)%nat, (L + 2 * j + 1)%nat, t).
Proof.
  unfold new_pts. rewrite in_map_iff. split.
  - intros (j & <- & Hj). apply in_seq in Hj. exists j. auto.
  - intros (j & Hj & ->). exists j. split; [reflexivity|]. apply in_seq. lia.
Qed.

(* ------------------------------------------------------------------------------------------ *)
(* geometry (real-number reading)                                                               *)
(* ------------------------------------------------------------------------------------------ *)
From XF Require Import DiscretizeProofs.
Local Open Scope R_scope.

(* affine maps of the plane: p |-> M p + t *)
Record aff := mkAff { m11 : R; m12 : R; m21 : R; m22 : R; tx : R; ty : R }.
Definition app (M : aff) (p : R * R) : R * R :=
  (m11 M * fst p + m12 M * snd p + tx M, m21 M * fst p + m22 M * snd p + ty M).
(* rigid motion: the linear part is orthogonal *)
Definition is_rigid (M : aff) : Prop :=
  m11 M * m11 M + m21 M * m21 M = 1 /\ m12 M * m12 M + m22 M * m22 M = 1 /\ m11 M * m12 M + m21 M * m22 M = 0.
Definition det (M : aff) : R := m11 M * m22 M - m12 M * m21 M.

Lemma rigid_preserves_dist M p q : is_rigid M -> dist2 (app M p) (app M q) = dist2 p q.
Proof.
  intros (H1 & H2 & H3). unfold dist2, app. cbn [fst snd].
  set (dx := fst p - fst q). set (dy := snd p - snd q).
  replace ((m11 M * fst p + m12 M * snd p + tx M - (m11 M * fst q + m12 M * snd q + tx M)) *
           (m11 M * fst p + m12 M * snd p + tx M - (m11 M * fst q + m12 M * snd q + tx M)) +
           (m21 M * fst p + m22 M * snd p + ty M - (m21 M * fst q + m22 M * snd q + ty M)) *
           (m21 M * fst p + m22 M * snd p + ty M - (m21 M * fst q + m22 M * snd q + ty M)))
    with ((m11 M * m11 M + m21 M * m21 M) * (dx * dx) + (m12 M * m12 M + m22 M * m22 M) * (dy * dy) +
          2 * (m11 M * m12 M + m21 M * m22 M) * (dx * dy)) by (unfold dx, dy; ring).
  rewrite H1, H2, H3. ring.
Qed.

Lemma IZR_nat_pos k : (k <> 0)%nat -> IZR (Z.of_nat k) <> 0.
Proof. intros H. apply not_0_IZR. lia. Qed.

(* (a) the created points of the two partners correspond under every affine map that takes the end
   points of the first to the end points of the second *)
Lemma affine_sub_point M a0 a1 b0 b1 j k : (k <> 0)%nat -> app M a0 = b0 -> app M a1 = b1 ->
  app M (sub_point RA a0 a1 j k) = sub_point RA b0 b1 j k.
Proof.
  intros Hk <- <-. pose proof (IZR_nat_pos k Hk) as Hz.
  destruct a0 as [x0 y0], a1 as [x1 y1].
  unfold sub_point, app, cadd, cdivr, cscale, csub. ra_simpl. cbn [fst snd].
  f_equal; field; assumption.
Qed.

(* ... and when the partners have the same length there is a proper rigid motion doing that *)
Lemma rigid_motion_exists a0 a1 b0 b1 : a0 <> a1 -> dist2 a0 a1 = dist2 b0 b1 ->
  exists M, is_rigid M /\ det M = 1 /\ app M a0 = b0 /\ app M a1 = b1.
Proof.
  destruct a0 as [x0 y0], a1 as [x1 y1], b0 as [p0 q0], b1 as [p1 q1]. unfold dist2. cbn [fst snd].
  intros Hne Hd.
  set (ux := x1 - x0). set (uy := y1 - y0). set (vx := p1 - p0). set (vy := q1 - q0).
  assert (Hn : ux * ux + uy * uy <> 0).
  { intros H0. apply Hne. assert (ux = 0 /\ uy = 0) as [E1 E2] by (split; nra).
    unfold ux, uy in *. f_equal; lra. }
  assert (Hv : vx * vx + vy * vy = ux * ux + uy * uy) by (unfold ux, uy, vx, vy; lra).
  set (n := ux * ux + uy * uy) in *.
  set (c := (ux * vx + uy * vy) / n). set (s := (ux * vy - uy * vx) / n).
  assert (Hcs : c * c + s * s = 1).
  { unfold c, s. replace ((ux * vx + uy * vy) / n * ((ux * vx + uy * vy) / n) + (ux * vy - uy * vx) / n * ((ux * vy - uy * vx) / n))
      with ((ux * ux + uy * uy) * (vx * vx + vy * vy) / (n * n)) by (field; assumption).
    rewrite Hv. fold n. field. assumption. }
  exists (mkAff c (- s) s c (p0 - (c * x0 - s * y0)) (q0 - (s * x0 + c * y0))).
  unfold is_rigid, det, app. cbn [m11 m12 m21 m22 tx ty fst snd].
  repeat split; try lra.
  - f_equal; ring.
  - assert (E1 : c * ux - s * uy = vx).
    { unfold c, s. replace ((ux * vx + uy * vy) / n * ux - (ux * vy - uy * vx) / n * uy) with (vx * (ux * ux + uy * uy) / n) by (field; assumption).
      fold n. field. assumption. }
    assert (E2 : s * ux + c * uy = vy).
    { unfold c, s. replace ((ux * vy - uy * vx) / n * ux + (ux * vx + uy * vy) / n * uy) with (vy * (ux * ux + uy * uy) / n) by (field; assumption).
      fold n. field. assumption. }
    unfold ux, uy, vx, vy in E1, E2. f_equal; lra.
Qed.

(* (b) arcs.  turn c d z = (z - c) d + c (complex product) *)
Local Notation turnR := (turn RA).
Local Notation turnsR := (turns RA).

(* proper motion z |-> (z - c0) w + c1 and improper motion z |-> conj(z - c0) w + c1 *)
Definition rot_aff (c0 c1 w : R * R) : aff :=
  mkAff (fst w) (- snd w) (snd w) (fst w)
        (fst c1 - (fst w * fst c0 - snd w * snd c0)) (snd c1 - (snd w * fst c0 + fst w * snd c0)).
Definition refl_aff (c0 c1 w : R * R) : aff :=
  mkAff (fst w) (snd w) (snd w) (- fst w)
        (fst c1 - (fst w * fst c0 + snd w * snd c0)) (snd c1 - (snd w * fst c0 - fst w * snd c0)).

Lemma rot_aff_rigid c0 c1 w : fst w * fst w + snd w * snd w = 1 -> is_rigid (rot_aff c0 c1 w) /\ det (rot_aff c0 c1 w) = 1.
Proof. intros H. unfold is_rigid, det, rot_aff. cbn [m11 m12 m21 m22]. repeat split; lra. Qed.
Lemma refl_aff_rigid c0 c1 w : fst w * fst w + snd w * snd w = 1 -> is_rigid (refl_aff c0 c1 w) /\ det (refl_aff c0 c1 w) = -1.
Proof. intros H. unfold is_rigid, det, refl_aff. cbn [m11 m12 m21 m22]. repeat split; lra. Qed.

Lemma rot_aff_centre c0 c1 w : app (rot_aff c0 c1 w) c0 = c1.
Proof. destruct c1. unfold app, rot_aff. cbn [m11 m12 m21 m22 tx ty fst snd]. f_equal; ring. Qed.
Lemma refl_aff_centre c0 c1 w : app (refl_aff c0 c1 w) c0 = c1.
Proof. destruct c1. unfold app, refl_aff. cbn [m11 m12 m21 m22 tx ty fst snd]. f_equal; ring. Qed.

(* one step: the motion commutes with the turn (same factor for a proper motion, conjugate factor
   for an improper one) *)
Lemma rot_aff_turn c0 c1 w d z : app (rot_aff c0 c1 w) (turnR c0 d z) = turnR c1 d (app (rot_aff c0 c1 w) z).
Proof.
  unfold turn, app, rot_aff, cadd, cmul, csub. ra_simpl. cbn [m11 m12 m21 m22 tx ty fst snd]. f_equal; ring.
Qed.
Lemma refl_aff_turn c0 c1 w d z :
  app (refl_aff c0 c1 w) (turnR c0 d z) = turnR c1 (cconj RA d) (app (refl_aff c0 c1 w) z).
Proof.
  unfold turn, app, refl_aff, cadd, cmul, csub, cconj. ra_simpl. cbn [m11 m12 m21 m22 tx ty fst snd]. f_equal; ring.
Qed.

Lemma rot_aff_turns c0 c1 w d z n : app (rot_aff c0 c1 w) (turnsR c0 d z n) = turnsR c1 d (app (rot_aff c0 c1 w) z) n.
Proof. induction n; simpl; [reflexivity|]. rewrite rot_aff_turn, IHn. reflexivity. Qed.
Lemma refl_aff_turns c0 c1 w d z n :
  app (refl_aff c0 c1 w) (turnsR c0 d z n) = turnsR c1 (cconj RA d) (app (refl_aff c0 c1 w) z) n.
Proof. induction n; simpl; [reflexivity|]. rewrite refl_aff_turn, IHn. reflexivity. Qed.

(* the factor w taking the first begin point (relative to its centre) to the second *)
Lemma arc_motion_exists c0 c1 bg0 bg1 : bg0 <> c0 -> dist2 bg0 c0 = dist2 bg1 c1 ->
  (exists w, fst w * fst w + snd w * snd w = 1 /\ app (rot_aff c0 c1 w) bg0 = bg1) /\
  (exists w, fst w * fst w + snd w * snd w = 1 /\ app (refl_aff c0 c1 w) bg0 = bg1).
Proof.
  destruct c0 as [cx cy], c1 as [ex ey], bg0 as [x0 y0], bg1 as [x1 y1]. unfold dist2. cbn [fst snd].
  intros Hne Hd.
  set (ux := x0 - cx). set (uy := y0 - cy). set (vx := x1 - ex). set (vy := y1 - ey).
  assert (Hn : ux * ux + uy * uy <> 0).
  { intros H0. apply Hne. assert (ux = 0 /\ uy = 0) as [E1 E2] by (split; nra).
    unfold ux, uy in *. f_equal; lra. }
  assert (Hv : vx * vx + vy * vy = ux * ux + uy * uy) by (unfold ux, uy, vx, vy; lra).
  set (n := ux * ux + uy * uy) in *.
  assert (Hlag : forall a b, (a * a + b * b = (ux * ux + uy * uy) * (vx * vx + vy * vy)) -> a / n * (a / n) + b / n * (b / n) = 1).
  { intros a b H. replace (a / n * (a / n) + b / n * (b / n)) with ((a * a + b * b) / (n * n)) by (field; assumption).
    rewrite H, Hv. fold n. field. assumption. }
  split.
  - (* w = conj(u) v / |u|^2 *)
    set (wr := (ux * vx + uy * vy) / n). set (wi := (ux * vy - uy * vx) / n).
    exists (wr, wi). cbn [fst snd]. split.
    + apply Hlag. ring.
    + unfold app, rot_aff. cbn [m11 m12 m21 m22 tx ty fst snd].
      assert (E1 : wr * ux - wi * uy = vx).
      { unfold wr, wi. replace ((ux * vx + uy * vy) / n * ux - (ux * vy - uy * vx) / n * uy) with (vx * (ux * ux + uy * uy) / n) by (field; assumption).
        fold n. field. assumption. }
      assert (E2 : wi * ux + wr * uy = vy).
      { unfold wr, wi. replace ((ux * vy - uy * vx) / n * ux + (ux * vx + uy * vy) / n * uy) with (vy * (ux * ux + uy * uy) / n) by (field; assumption).
        fold n. field. assumption. }
      clearbody wr wi. unfold ux, uy, vx, vy in E1, E2. f_equal; lra.
  - (* w = u v / |u|^2 *)
    set (wr := (ux * vx - uy * vy) / n). set (wi := (ux * vy + uy * vx) / n).
    exists (wr, wi). cbn [fst snd]. split.
    + apply Hlag. ring.
    + unfold app, refl_aff. cbn [m11 m12 m21 m22 tx ty fst snd].
      assert (E1 : wr * ux + wi * uy = vx).
      { unfold wr, wi. replace ((ux * vx - uy * vy) / n * ux + (ux * vy + uy * vx) / n * uy) with (vx * (ux * ux + uy * uy) / n) by (field; assumption).
        fold n. field. assumption. }
      assert (E2 : wi * ux - wr * uy = vy).
      { unfold wr, wi. replace ((ux * vy + uy * vx) / n * ux - (ux * vx - uy * vy) / n * uy) with (vy * (ux * ux + uy * uy) / n) by (field; assumption).
        fold n. field. assumption. }
      clearbody wr wi. unfold ux, uy, vx, vy in E1, E2. f_equal; lra.
Qed.

(* (b) every turn of the first begin point is taken to the same turn of the second begin point by one
   rigid motion that also takes centre to centre: a rotation (det 1) when both partners are turned
   by the same factor, a reflection-type motion (det -1) when by conjugate factors *)
Theorem arc_turns_correspond c0 c1 d0 d1 bg0 bg1 :
  bg0 <> c0 -> dist2 bg0 c0 = dist2 bg1 c1 -> d1 = d0 \/ d1 = cconj RA d0 ->
  exists M, is_rigid M /\ (d1 = d0 -> det M = 1) /\ app M c0 = c1 /\
            forall n, app M (turnsR c0 d0 bg0 n) = turnsR c1 d1 bg1 n.
Proof.
  intros Hne Hd Hdir. destruct (arc_motion_exists c0 c1 bg0 bg1 Hne Hd) as [(w & Hw & Hb) (w' & Hw' & Hb')].
  destruct (Req_EM_T (fst d1) (fst d0)) as [E1|N1]; [destruct (Req_EM_T (snd d1) (snd d0)) as [E2|N2]|].
  - (* d1 = d0 *)
    assert (E : d1 = d0) by (destruct d1, d0; simpl in *; subst; reflexivity).
    exists (rot_aff c0 c1 w). destruct (rot_aff_rigid c0 c1 w Hw) as [R1 R2].
    split; [exact R1|]. split; [auto|]. split; [apply rot_aff_centre|].
    intros n. rewrite rot_aff_turns, Hb, E. reflexivity.
  - destruct Hdir as [E|E]; [subst; tauto|].
    exists (refl_aff c0 c1 w'). destruct (refl_aff_rigid c0 c1 w' Hw') as [R1 R2].
    split; [exact R1|]. split; [intros ->; tauto|]. split; [apply refl_aff_centre|].
    intros n. rewrite refl_aff_turns, Hb', E. reflexivity.
  - destruct Hdir as [E|E]; [subst; tauto|]. exfalso. apply N1. rewrite E. reflexivity.
Qed.

(* with a unit factor the created points stay on the partner's circle *)
Lemma turns_on_circle c d z n : fst d * fst d + snd d * snd d = 1 -> dist2 (turnsR c d z n) c = dist2 z c.
Proof.
  intros Hd. induction n; simpl; [reflexivity|]. unfold turn. rewrite rotate_keeps_distance by assumption. exact IHn.
Qed.

(* ------------------------------------------------------------------------------------------ *)
(* (a)/(b) on the model's loops                                                                 *)
(* ------------------------------------------------------------------------------------------ *)
Local Close Scope R_scope.

(* two partner segments cut into k >= 2 parts: the loop appends 2(k-1) points; the j-th listed pair
   (L+2j, L+2j+1) are the points a0+(a1-a0)(j+1)/k and its image under every affine map that takes
   the end points a0, a1 to b0, b1 *)
Theorem seg_pair_is_affine_image k a0 a1 b0 b1 e0 e1 f0 f1 t c0 c1 nodes segs pts M :
  (2 <= k)%nat -> app M a0 = b0 -> app M a1 = b1 ->
  exists new segs',
    seg_pair_loop RA k 0 k a0 a1 b0 b1 e0 e1 f0 f1 t c0 c1 (nodes, segs, pts) =
    (nodes ++ new, segs ++ segs', pts ++ new_pts (length nodes) t 0 (k - 1)) /\
    length new = 2 * (k - 1) /\ length segs' = 2 * k /\
    forall j, (j < k - 1)%nat ->
      nth (2 * j) new (0%R, 0%R) = sub_point RA a0 a1 j k /\
      nth (2 * j + 1) new (0%R, 0%R) = app M (nth (2 * j) new (0%R, 0%R)).
Proof.
  intros Hk H0 H1.
  destruct (seg_loop_spec RA k a0 a1 b0 b1 e0 e1 f0 f1 t c0 c1 nodes segs pts Hk) as (segs' & E & Ls).
  exists (seg_new_nodes RA k a0 a1 b0 b1 0 (k - 1)), segs'.
  split; [exact E|]. split; [apply seg_new_nodes_length|]. split; [exact Ls|].
  intros j Hj. unfold seg_new_nodes.
  destruct (nth_pairs (fun j => sub_point RA a0 a1 j k) (fun j => sub_point RA b0 b1 j k) (0%R, 0%R) (k - 1) 0 j Hj) as [E1 E2].
  rewrite E1, E2. simpl. split; [reflexivity|]. symmetry. apply affine_sub_point; [lia|assumption|assumption].
Qed.

(* two partner arcs cut into k >= 2 parts: the j-th listed pair are the (j+1)-th turns of the two
   begin points, which correspond under one rigid motion (arc_turns_correspond) *)
Theorem arc_pair_is_rotation_image k c0 c1 d0 d1 bg0 bg1 p00 p01 p10 p11 t m0 m1 nodes segs pts :
  (2 <= k)%nat -> bg0 <> c0 -> dist2 bg0 c0 = dist2 bg1 c1 -> d1 = d0 \/ d1 = cconj RA d0 ->
  exists new segs' M,
    arc_pair_loop RA k 0 k c0 c1 d0 d1 bg0 bg1 p00 p01 p10 p11 t m0 m1 (nodes, segs, pts) =
    (nodes ++ new, segs ++ segs', pts ++ new_pts (length nodes) t 0 (k - 1)) /\
    length new = 2 * (k - 1) /\ length segs' = 2 * k /\
    is_rigid M /\ (d1 = d0 -> det M = 1%R) /\ app M c0 = c1 /\ app M bg0 = bg1 /\
    forall j, (j < k - 1)%nat ->
      nth (2 * j) new (0%R, 0%R) = turns RA c0 d0 bg0 (S j) /\
      nth (2 * j + 1) new (0%R, 0%R) = app M (nth (2 * j) new (0%R, 0%R)).
Proof.
  intros Hk Hne Hd Hdir.
  destruct (arc_loop_spec RA k c0 c1 d0 d1 p00 p01 p10 p11 t m0 m1 bg0 bg1 nodes segs pts Hk) as (segs' & E & Ls).
  destruct (arc_turns_correspond c0 c1 d0 d1 bg0 bg1 Hne Hd Hdir) as (M & HR & Hdet & Hc & Ht).
  exists (arc_new_nodes RA c0 c1 d0 d1 bg0 bg1 0 (k - 1)), segs', M.
  split; [exact E|]. split.
  { apply arc_new_nodes_length. }
  split; [exact Ls|]. split; [exact HR|]. split; [exact Hdet|]. split; [exact Hc|]. split; [exact (Ht 0)|].
  intros j Hj. unfold arc_new_nodes.
  destruct (nth_pairs (fun j => turns RA c0 d0 bg0 (S j)) (fun j => turns RA c1 d1 bg1 (S j)) (0%R, 0%R) (k - 1) 0 j Hj) as [E1 E2].
  rewrite E1, E2. cbn [Nat.add]. split; [reflexivity|]. symmetry. exact (Ht (S j)).
Qed.

(* the direction factors the model selects: equal when the NormalDirection flags of the partners
   differ, conjugate when they agree (for equal step angles) *)
Lemma arc_start_factors (nd0 nd1 : bool) (a0 a1 : parc (F:=R)) :
  pa_ec a1 = pa_ec a0 -> pa_es a1 = pa_es a0 ->
  let d0 := snd (arc_start0 RA nd0 a0) in
  let d1 := snd (arc_start1 RA nd1 a1) in
  (nd0 <> nd1 -> d1 = d0) /\ (nd0 = nd1 -> d1 = cconj RA d0).
Proof.
  intros Hc Hs. unfold arc_start0, arc_start1, cconj. destruct nd0, nd1; cbn [negb snd fst]; rewrite Hc, Hs; split; intros H;
    try congruence; try reflexivity; ra_simpl; f_equal; lra.
Qed.

(* ------------------------------------------------------------------------------------------ *)
(* (c) the point list of one condition                                                          *)
(* ------------------------------------------------------------------------------------------ *)
(* what one condition contributes: the two end-point pairs, then the k-1 pairs of created nodes *)
Definition pair_pts (L k e0 e1 f0 f1 t : nat) : list (nat * nat * nat) :=
  [(e0, f0, t); (e1, f1, t)] ++ new_pts L t 0 (k - 1).
(* nodes of the first partner, each with its partner node *)
Definition partners (L k e0 e1 f0 f1 : nat) : list (nat * nat) :=
  (e0, f0) :: (e1, f1) :: map (fun j => (L + 2 * j, L + 2 * j + 1)) (seq 0 (k - 1)).

Section PairPts.
  Context {F : Type} (A : Arith F).

  Lemma seg_pair_pts orig wls e k nodes segs pts :
    let l0 := wl_get A wls (pb_seg0 e) in let l1 := wl_get A wls (pb_seg1 e) in
    snd (seg_pair A orig wls e k (nodes, segs, pts)) =
    pts ++ pair_pts (length nodes) k (wl_n0 l0) (wl_n1 l0) (wl_n1 l1) (wl_n0 l1) (bool_nat (pb_anti e)).
  Proof.
    intros l0 l1. unfold seg_pair. fold l0 l1. unfold pair_pts.
    destruct (Nat.eqb_spec k 1) as [->|Hk1].
    - unfold new_pts. simpl. rewrite ?app_nil_r. reflexivity.
    - destruct (le_lt_dec 2 k) as [Hk|Hk].
      + match goal with |- snd (seg_pair_loop A k 0 k ?a0 ?a1 ?b0 ?b1 ?e0 ?e1 ?f0 ?f1 ?t ?c0 ?c1 (?n, ?s, ?p)) = _ =>
          destruct (seg_loop_spec A k a0 a1 b0 b1 e0 e1 f0 f1 t c0 c1 n s p Hk) as (segs' & E & _) end.
        rewrite E. cbn [snd]. rewrite <- app_assoc. reflexivity.
      + assert (k = 0) by lia. subst k. unfold new_pts. simpl. rewrite ?app_nil_r. reflexivity.
  Qed.

  Lemma arc_pair_pts orig nlines arcs was e k nodes segs pts :
    let s0 := arc_start0 A (wa_nd (wa_get A was (pb_seg0 e))) (pa_get A arcs (pb_seg0 e)) in
    let s1 := arc_start1 A (wa_nd (wa_get A was (pb_seg1 e))) (pa_get A arcs (pb_seg1 e)) in
    snd (arc_pair A orig nlines arcs was e k (nodes, segs, pts)) =
    pts ++ pair_pts (length nodes) k (fst (fst s0)) (snd (fst s0)) (fst (fst s1)) (snd (fst s1)) (bool_nat (pb_anti e)).
  Proof.
    intros s0 s1. unfold arc_pair. fold s0 s1. destruct s0 as [[s00 s01] d0], s1 as [[s10 s11] d1]. cbn [fst snd].
    unfold pair_pts.
    destruct (Nat.eqb_spec k 1) as [->|Hk1].
    - unfold new_pts. simpl. rewrite ?app_nil_r. reflexivity.
    - destruct (le_lt_dec 2 k) as [Hk|Hk].
      + match goal with |- snd (arc_pair_loop A k 0 k ?c0 ?c1 ?d0 ?d1 ?b0 ?b1 ?p0 ?p1 ?p2 ?p3 ?t ?m0 ?m1 (?n, ?s, ?p)) = _ =>
          destruct (arc_loop_spec A k c0 c1 d0 d1 p0 p1 p2 p3 t m0 m1 b0 b1 n s p Hk) as (segs' & E & _) end.
        rewrite E. cbn [snd]. rewrite <- app_assoc. reflexivity.
      + assert (k = 0) by lia. subst k. unfold new_pts. simpl. rewrite ?app_nil_r. reflexivity.
  Qed.
End PairPts.

Lemma sort_xy_new L j t : sort_xy (L + 2 * j, L + 2 * j + 1, t) = (L + 2 * j, L + 2 * j + 1, t).
Proof. unfold sort_xy. destruct (Nat.ltb_spec (L + 2 * j + 1) (L + 2 * j)); [lia|reflexivity]. Qed.

Lemma map_sort_new_pts L t from n : map sort_xy (new_pts L t from n) = new_pts L t from n.
Proof. unfold new_pts. rewrite map_map. apply map_ext. intros j. apply sort_xy_new. Qed.

Lemma NoDup_map_inj {T U} (f : T -> U) l : (forall x y, In x l -> In y l -> f x = f y -> x = y) -> NoDup l -> NoDup (map f l).
Proof.
  induction l as [|a r IH]; simpl; intros Hi Hn; [constructor|]. inversion Hn; subst. constructor.
  - intros H. apply in_map_iff in H. destruct H as (x & Hx & Hin). assert (x = a) by (apply Hi; auto). subst. auto.
  - apply IH; auto.
Qed.

(* (c) after sortXY and pruning: one entry per node of the first partner (both end points and every
   created node), holding that node and its partner, flagged with the condition's sign *)
Theorem ptlst_complete_nodup L k e0 e1 f0 f1 t :
  (e0 < L)%nat -> (e1 < L)%nat -> (f0 < L)%nat -> (f1 < L)%nat -> e0 <> e1 -> f0 <> e1 -> f1 <> e0 ->
  let final := prune (map sort_xy (pair_pts L k e0 e1 f0 f1 t)) in
  NoDup (map key final) /\ length final = 2 + (k - 1) /\
  (forall e, In e final -> flag e = t) /\
  forall u v, In (u, v) (partners L k e0 e1 f0 f1) ->
    In (sort_xy (u, v, t)) final /\ forall e, In e final -> mentions u e -> e = sort_xy (u, v, t).
Proof.
  intros H0 H1 H2 H3 Hne Hx1 Hx2 final.
  assert (Hraw : map sort_xy (pair_pts L k e0 e1 f0 f1 t) =
                 sort_xy (e0, f0, t) :: sort_xy (e1, f1, t) :: new_pts L t 0 (k - 1)).
  { unfold pair_pts. rewrite map_app, map_sort_new_pts. reflexivity. }
  assert (Hnd : NoDup (map key (map sort_xy (pair_pts L k e0 e1 f0 f1 t)))).
  { rewrite Hraw. cbn [map]. rewrite !sort_xy_key.
    assert (Hk : forall x y, (x < L)%nat -> ~ In (Nat.min x y, Nat.max x y) (map key (new_pts L t 0 (k - 1)))).
    { intros x y Hx H. apply in_map_iff in H. destruct H as (e & He & Hin). apply In_new_pts in Hin.
      destruct Hin as (j & _ & ->). unfold key in He. cbn [fst snd] in He. inversion He. lia. }
    constructor.
    - intros [H|H]; [inversion H; lia|]. exact (Hk e0 f0 H0 H).
    - constructor; [exact (Hk e1 f1 H1)|].
      unfold new_pts. rewrite map_map. apply NoDup_map_inj; [|apply seq_NoDup].
      intros x y _ _ H. unfold key in H. cbn [fst snd] in H. inversion H. lia. }
  assert (Hf : final = map sort_xy (pair_pts L k e0 e1 f0 f1 t)) by (apply prune_id; exact Hnd).
  split; [rewrite Hf; exact Hnd|]. split.
  { rewrite Hf, Hraw. cbn [length]. unfold new_pts. rewrite map_length, seq_length. reflexivity. }
  split.
  { intros e He. rewrite Hf in He. apply in_map_iff in He. destruct He as (r & <- & Hr).
    rewrite sort_xy_flag. unfold pair_pts in Hr. simpl app in Hr.
    destruct Hr as [<-|[<-|Hr]]; try reflexivity. apply In_new_pts in Hr. destruct Hr as (j & _ & ->). reflexivity. }
  intros u v Huv. split.
  - rewrite Hf. apply in_map. unfold partners in Huv. unfold pair_pts. apply in_or_app.
    destruct Huv as [E|[E|Huv]]; [inversion E; subst; left; simpl; auto|inversion E; subst; left; simpl; auto|].
    right. apply in_map_iff in Huv. destruct Huv as (j & E & Hj). inversion E; subst.
    apply In_new_pts. exists j. apply in_seq in Hj. split; [lia|reflexivity].
  - intros e He Hm. rewrite Hf in He. apply in_map_iff in He. destruct He as (r & <- & Hr).
    apply (proj1 (sort_xy_mentions _ _)) in Hm. f_equal.
    unfold pair_pts in Hr. simpl app in Hr. unfold partners in Huv. unfold mentions in Hm.
    assert (Hnew : forall j, In (L + 2 * j, L + 2 * j + 1, t) (new_pts L t 0 (k - 1)) -> True) by auto.
    destruct Hr as [<-|[<-|Hr]]; cbn [fst snd] in Hm.
    + destruct Huv as [E|[E|Huv]]; [inversion E; subst; reflexivity|inversion E; subst; lia|].
      apply in_map_iff in Huv. destruct Huv as (j & E & _). inversion E; subst. lia.
    + destruct Huv as [E|[E|Huv]]; [inversion E; subst; lia|inversion E; subst; reflexivity|].
      apply in_map_iff in Huv. destruct Huv as (j & E & _). inversion E; subst. lia.
    + apply In_new_pts in Hr. destruct Hr as (j & _ & ->). cbn [fst snd] in Hm.
      destruct Huv as [E|[E|Huv]]; [inversion E; subst; lia|inversion E; subst; lia|].
      apply in_map_iff in Huv. destruct Huv as (i & E & _). inversion E; subst.
      assert (i = j) by lia. subst. reflexivity.
Qed.

(* several conditions: whatever the raw list, pruning keeps exactly one entry per distinct (x, y),
   taken from the raw list *)
Theorem ptlst_prune_represents (raw : list (nat * nat * nat)) :
  let final := prune (map sort_xy raw) in
  NoDup (map key final) /\
  (forall e, In e final -> exists r, In r raw /\ e = sort_xy r) /\
  (forall r, In r raw -> exists e, In e final /\ key e = key (sort_xy r)).
Proof.
  intros final. split; [apply prune_keys_NoDup|]. split.
  - intros e He. apply prune_In in He. apply in_map_iff in He. destruct He as (r & <- & Hr). eauto.
  - intros r Hr. apply prune_complete. apply in_map. exact Hr.
Qed.

(* ------------------------------------------------------------------------------------------ *)
(* (d) the validity pass                                                                        *)
(* ------------------------------------------------------------------------------------------ *)
Definition cnt (isarc : bool) (e : pbce) : nat := if isarc then pb_narc e else pb_nseg e.
Definition ocnt (isarc : bool) (e : pbce) : nat := if isarc then pb_nseg e else pb_narc e.
Definition carries (b : nat) (o : option nat) : bool := match o with Some b' => Nat.eqb b' b | None => false end.
Definition occ (b : nat) (bcs : list (option nat)) : nat := length (filter (carries b) bcs).

(* what the counting loops do to one condition, seen entry by entry *)
Definition bump (isarc : bool) (i b : nat) (e : pbce) : pbce :=
  if Nat.eqb (pb_bc e) b then set_seg e (cnt isarc e) i isarc else e.
Fixpoint bump_all (isarc : bool) (i : nat) (bcs : list (option nat)) (e : pbce) : pbce :=
  match bcs with
  | [] => e
  | None :: r => bump_all isarc (S i) r e
  | Some b :: r => bump_all isarc (S i) r (bump isarc i b e)
  end.

Lemma count_one_map isarc i b pl pl' : count_one isarc i b pl = inr pl' ->
  pl' = map (bump isarc i b) pl /\ Forall (fun e => pb_bc e = b -> cnt isarc e <> 2) pl.
Proof.
  revert pl'. induction pl as [|e r IH]; simpl; intros pl' H.
  - inversion H. auto.
  - unfold bump at 1. destruct (Nat.eqb_spec (pb_bc e) b) as [Eb|Nb].
    + fold (cnt isarc e) in H. destruct (Nat.eqb_spec (cnt isarc e) 2) as [E2|N2]; [discriminate|].
      destruct (count_one isarc i b r) as [x|r'] eqn:Er; [discriminate|]. inversion H; subst.
      destruct (IH r' eq_refl) as [-> HF]. split; [reflexivity|]. constructor; auto.
    + destruct (count_one isarc i b r) as [x|r'] eqn:Er; [discriminate|]. inversion H; subst.
      destruct (IH r' eq_refl) as [-> HF]. split; [reflexivity|]. constructor; [tauto|auto].
Qed.

Lemma bump_facts isarc i b e :
  pb_bc (bump isarc i b e) = pb_bc e /\ pb_anti (bump isarc i b e) = pb_anti e /\
  ocnt isarc (bump isarc i b e) = ocnt isarc e /\
  cnt isarc (bump isarc i b e) = cnt isarc e + (if Nat.eqb (pb_bc e) b then 1 else 0).
Proof.
  unfold bump. destruct (Nat.eqb (pb_bc e) b); [|repeat split; lia].
  unfold set_seg, cnt, ocnt. destruct isarc; cbn [pb_bc pb_anti pb_nseg pb_narc]; repeat split; lia.
Qed.

Lemma bump_all_facts isarc : forall bcs i e,
  pb_bc (bump_all isarc i bcs e) = pb_bc e /\ pb_anti (bump_all isarc i bcs e) = pb_anti e /\
  ocnt isarc (bump_all isarc i bcs e) = ocnt isarc e /\
  cnt isarc (bump_all isarc i bcs e) = cnt isarc e + occ (pb_bc e) bcs.
Proof.
  induction bcs as [|[b|] r IH]; intros i e; cbn [bump_all].
  - unfold occ. simpl. repeat split; lia.
  - destruct (IH (S i) (bump isarc i b e)) as (A1 & A2 & A3 & A4).
    destruct (bump_facts isarc i b e) as (B1 & B2 & B3 & B4).
    rewrite A1, A2, A3, A4, B1, B2, B3, B4. unfold occ. cbn [filter carries].
    rewrite (Nat.eqb_sym b (pb_bc e)). destruct (Nat.eqb (pb_bc e) b); cbn [length]; repeat split; lia.
  - destruct (IH (S i) e) as (A1 & A2 & A3 & A4). unfold occ in *. cbn [filter carries]. auto.
Qed.

Lemma count_entities_map isarc : forall bcs i pl pl', count_entities isarc i bcs pl = inr pl' ->
  pl' = map (bump_all isarc i bcs) pl /\
  forall e, In e pl -> (cnt isarc e <= 2)%nat -> (cnt isarc (bump_all isarc i bcs e) <= 2)%nat.
Proof.
  induction bcs as [|[b|] r IH]; intros i pl pl' H; cbn [count_entities bump_all] in *.
  - inversion H. split; [symmetry; apply map_id|auto].
  - destruct (count_one isarc i b pl) as [x|pl1] eqn:E1; [discriminate|].
    destruct (count_one_map _ _ _ _ _ E1) as [-> HF]. destruct (IH _ _ _ H) as [-> Hle].
    split; [rewrite map_map; reflexivity|]. intros e He Hc. apply Hle; [apply in_map; exact He|].
    destruct (bump_facts isarc i b e) as (_ & _ & _ & B4). rewrite B4.
    rewrite Forall_forall in HF. specialize (HF e He).
    destruct (Nat.eqb_spec (pb_bc e) b) as [Eb|]; [specialize (HF Eb)|]; lia.
  - apply IH. exact H.
Qed.

Lemma combine_seq_nth {T} (l : list T) (d : T) : forall from i, (i < length l)%nat ->
  In ((from + i)%nat, nth i l d) (combine (seq from (length l)) l).
Proof.
  induction l as [|a r IH]; simpl; intros from i Hi; [lia|]. destruct i as [|i].
  - left. rewrite Nat.add_0_r. reflexivity.
  - right. replace (from + S i)%nat with (S from + i)%nat by lia. apply IH. lia.
Qed.

Lemma build_pbclst_In kind bdry b : (b < length bdry)%nat -> pbc_selected kind (nth b bdry 0%Z) = true ->
  In (mkPbce b (is_antiperiodic kind (nth b bdry 0%Z)) 0 0 0 0) (build_pbclst kind bdry).
Proof.
  intros Hb Hf. unfold build_pbclst. apply in_flat_map. exists (b, nth b bdry 0%Z). split.
  - exact (combine_seq_nth bdry 0%Z 0 b Hb).
  - rewrite Hf. simpl. auto.
Qed.

Lemma count_entities_nil isarc : forall bcs i, count_entities isarc i bcs [] = inr [].
Proof. induction bcs as [|[b|] r IH]; intros i; simpl; auto. Qed.

Lemma drop_unused_mixed pl e : In e pl -> (0 < pb_nseg e)%nat -> (0 < pb_narc e)%nat -> drop_unused pl = inl EMixed.
Proof.
  induction pl as [|a r IH]; simpl; intros Hin H1 H2; [tauto|].
  destruct (Nat.ltb 0 (pb_nseg a) && Nat.ltb 0 (pb_narc a)) eqn:Ea; [reflexivity|].
  destruct Hin as [->|Hin].
  - apply Nat.ltb_lt in H1, H2. rewrite H1, H2 in Ea. discriminate.
  - rewrite (IH Hin H1 H2). reflexivity.
Qed.

Lemma drop_unused_keeps pl : forall pl' e, drop_unused pl = inr pl' -> In e pl ->
  (2 <= pb_nseg e \/ 2 <= pb_narc e)%nat -> In e pl'.
Proof.
  induction pl as [|a r IH]; simpl; intros pl' e H Hin Hc; [tauto|].
  destruct (Nat.ltb 0 (pb_nseg a) && Nat.ltb 0 (pb_narc a)); [discriminate|].
  destruct (drop_unused r) as [x|r'] eqn:Er; [discriminate|]. inversion H; subst.
  destruct Hin as [->|Hin].
  - destruct (Nat.ltb_spec (pb_nseg e) 2), (Nat.ltb_spec (pb_narc e) 2); simpl; auto; lia.
  - destruct (Nat.ltb (pb_nseg a) 2 && Nat.ltb (pb_narc a) 2); [|right]; eapply IH; eauto.
Qed.

(* more than two lines carry one (anti)periodic condition: rejected *)
Theorem reject_more_than_two_segments {F} (A : Arith F) kind bdry orig lines arcs wls was b :
  (b < length bdry)%nat -> pbc_selected kind (nth b bdry 0%Z) = true -> (3 <= occ b (map (pl_bc (F:=F)) lines))%nat ->
  exists err, validity A kind bdry orig lines arcs wls was = inl err.
Proof.
  intros Hb Hf Hocc. unfold validity.
  destruct (count_entities false 0 (map pl_bc lines) (build_pbclst kind bdry)) as [x|p1] eqn:E1; [eauto|].
  exfalso. destruct (count_entities_map _ _ _ _ _ E1) as [_ Hle].
  specialize (Hle _ (build_pbclst_In kind bdry b Hb Hf)). cbn [cnt pb_nseg] in Hle.
  destruct (bump_all_facts false (map pl_bc lines) 0 (mkPbce b (is_antiperiodic kind (nth b bdry 0%Z)) 0 0 0 0)) as (_ & _ & _ & A4).
  cbn [cnt pb_nseg pb_bc] in A4. cbn [cnt] in Hle. lia.
Qed.

Theorem reject_more_than_two_arcs {F} (A : Arith F) kind bdry orig lines arcs wls was b :
  (b < length bdry)%nat -> pbc_selected kind (nth b bdry 0%Z) = true -> (3 <= occ b (map (pa_bc (F:=F)) arcs))%nat ->
  exists err, validity A kind bdry orig lines arcs wls was = inl err.
Proof.
  intros Hb Hf Hocc. unfold validity.
  destruct (count_entities false 0 (map pl_bc lines) (build_pbclst kind bdry)) as [x|p1] eqn:E1; [eauto|].
  destruct (count_entities true 0 (map pa_bc arcs) p1) as [x|p2] eqn:E2; [eauto|].
  exfalso. destruct (count_entities_map _ _ _ _ _ E1) as [-> _]. destruct (count_entities_map _ _ _ _ _ E2) as [_ Hle].
  set (e0 := mkPbce b (is_antiperiodic kind (nth b bdry 0%Z)) 0 0 0 0).
  set (e1 := bump_all false 0 (map pl_bc lines) e0).
  destruct (bump_all_facts false (map pl_bc lines) 0 e0) as (A1 & _ & A3 & _). fold e1 in A1, A3. cbn [ocnt pb_narc pb_bc e0] in A1, A3.
  assert (Hin : In e1 (map (bump_all false 0 (map pl_bc lines)) (build_pbclst kind bdry))) by (apply in_map, build_pbclst_In; assumption).
  specialize (Hle e1 Hin). cbn [cnt] in Hle.
  destruct (bump_all_facts true (map pa_bc arcs) 0 e1) as (_ & _ & _ & A4). cbn [cnt] in A4. rewrite A1 in A4. lia.
Qed.

(* one (anti)periodic condition on at least one line and at least one arc: rejected *)
Theorem reject_mixed {F} (A : Arith F) kind bdry orig lines arcs wls was b :
  (b < length bdry)%nat -> pbc_selected kind (nth b bdry 0%Z) = true ->
  (1 <= occ b (map (pl_bc (F:=F)) lines))%nat -> (1 <= occ b (map (pa_bc (F:=F)) arcs))%nat ->
  exists err, validity A kind bdry orig lines arcs wls was = inl err.
Proof.
  intros Hb Hf Ho1 Ho2. unfold validity.
  destruct (count_entities false 0 (map pl_bc lines) (build_pbclst kind bdry)) as [x|p1] eqn:E1; [eauto|].
  destruct (count_entities true 0 (map pa_bc arcs) p1) as [x|p2] eqn:E2; [eauto|].
  destruct (count_entities_map _ _ _ _ _ E1) as [-> _]. destruct (count_entities_map _ _ _ _ _ E2) as [-> _].
  set (e0 := mkPbce b (is_antiperiodic kind (nth b bdry 0%Z)) 0 0 0 0).
  set (e1 := bump_all false 0 (map pl_bc lines) e0). set (e2 := bump_all true 0 (map pa_bc arcs) e1).
  destruct (bump_all_facts false (map pl_bc lines) 0 e0) as (A1 & _ & A3 & A4). fold e1 in A1, A3, A4.
  destruct (bump_all_facts true (map pa_bc arcs) 0 e1) as (B1 & _ & B3 & B4). fold e2 in B1, B3, B4.
  cbn [cnt ocnt pb_nseg pb_narc pb_bc e0] in *. rewrite A1 in B4.
  rewrite (drop_unused_mixed _ e2); [eauto| |lia|lia].
  apply in_map, in_map, build_pbclst_In; assumption.
Qed.

(* -- dissimilar partners ---------------------------------------------------------------------- *)
Lemma upd_length {T} (l : list T) i f : length (upd l i f) = length l.
Proof. unfold upd. rewrite map_length, combine_length, seq_length. lia. Qed.

Lemma map_upd_inv {T U} (g : T -> U) (f : T -> T) (l : list T) i : (forall x, g (f x) = g x) -> map g (upd l i f) = map g l.
Proof.
  intros H. unfold upd. rewrite map_map. generalize 0.
  induction l as [|a r IH]; simpl; intros from; [reflexivity|].
  rewrite IH. f_equal. destruct (Nat.eqb from i); auto.
Qed.

Section Dissimilar.
  Context {F : Type} (A : Arith F).
  Local Notation cplx := (F * F)%type.
  Definition ends (w : wline (F:=F)) : nat * nat := (wl_n0 w, wl_n1 w).
  (* length of line i as the validity pass computes it *)
  Definition len_of (orig : list cplx) (wls : list (wline (F:=F))) (i : nat) : F :=
    seg_length A orig (wl_n0 (wl_get A wls i)) (wl_n1 (wl_get A wls i)).

  Lemma len_of_ends orig wls wls' i : map ends wls' = map ends wls -> len_of orig wls' i = len_of orig wls i.
  Proof.
    intros H. unfold len_of, wl_get.
    assert (E : forall ws, ends (nth i ws (mkWLine 0 0 (azero A))) = nth i (map ends ws) (0, 0)).
    { intros ws. exact (eq_sym (map_nth ends ws (mkWLine 0 0 (azero A)) i)). }
    pose proof (E wls') as E1. pose proof (E wls) as E2. rewrite H, <- E2 in E1.
    unfold ends in E1. inversion E1. reflexivity.
  Qed.

  Definition dissimilar (orig : list cplx) (wls : list (wline (F:=F))) (e : pbce) : Prop :=
    altb A (tol6 A) (aabs A (asub A (len_of orig wls (pb_seg0 e)) (len_of orig wls (pb_seg1 e)))) = true.

  Lemma reconcile_one_ends orig arcs e wls was wls' was' :
    reconcile_one A orig arcs e (wls, was) = inr (wls', was') -> map ends wls' = map ends wls.
  Proof.
    unfold reconcile_one. destruct (Nat.ltb 0 (pb_nseg e)).
    - destruct (altb A (tol6 A) _); [discriminate|].
      destruct (Nat.ltb 0 (pb_narc e)); [destruct (altb A (tol6 A) _); [discriminate|]|];
        intros H; inversion H; subst; rewrite !map_upd_inv; auto.
    - destruct (Nat.ltb 0 (pb_narc e)); [destruct (altb A (tol6 A) _); [discriminate|]|];
        intros H; inversion H; subst; reflexivity.
  Qed.

  Lemma reconcile_one_dissimilar orig arcs e wls was : (0 < pb_nseg e)%nat -> dissimilar orig wls e ->
    reconcile_one A orig arcs e (wls, was) = inl EDissimilarSegs.
  Proof.
    intros Hn Hd. unfold reconcile_one. apply Nat.ltb_lt in Hn. rewrite Hn.
    unfold dissimilar, len_of in Hd. rewrite Hd. reflexivity.
  Qed.

  Lemma reconcile_dissimilar orig arcs : forall pl wls was e, In e pl -> (0 < pb_nseg e)%nat -> dissimilar orig wls e ->
    exists err, reconcile A orig arcs pl (wls, was) = inl err.
  Proof.
    induction pl as [|a r IH]; intros wls was e Hin Hn Hd; [destruct Hin|]. cbn [reconcile].
    destruct Hin as [->|Hin].
    - rewrite reconcile_one_dissimilar by assumption. eauto.
    - destruct (reconcile_one A orig arcs a (wls, was)) as [x|[wls' was']] eqn:E; [eauto|].
      apply (IH wls' was' e Hin Hn). unfold dissimilar in *.
      rewrite !(len_of_ends orig wls wls') by (eapply reconcile_one_ends; eauto). exact Hd.
  Qed.
End Dissimilar.

Lemma bump_all_app isarc : forall l1 l2 i e,
  bump_all isarc i (l1 ++ l2) e = bump_all isarc (i + length l1) l2 (bump_all isarc i l1 e).
Proof.
  induction l1 as [|[b|] r IH]; intros l2 i e.
  - simpl. rewrite Nat.add_0_r. reflexivity.
  - change ((Some b :: r) ++ l2) with (Some b :: (r ++ l2)). cbn [bump_all length]. rewrite IH. f_equal. lia.
  - change ((None :: r) ++ l2) with (None :: (r ++ l2)). cbn [bump_all length]. rewrite IH. f_equal. lia.
Qed.

Lemma bump_all_absent isarc : forall l i e, occ (pb_bc e) l = 0 -> bump_all isarc i l e = e.
Proof.
  induction l as [|[b|] r IH]; intros i e H; cbn [bump_all]; [reflexivity| |].
  - unfold occ in H. cbn [filter carries] in H. unfold bump. rewrite (Nat.eqb_sym (pb_bc e) b).
    destruct (Nat.eqb b (pb_bc e)); [discriminate|]. apply IH. exact H.
  - apply IH. exact H.
Qed.

(* the slots seg[0], seg[1] of a condition carried by exactly two lines, at positions i < j *)
Lemma bump_all_two_slots l1 l2 l3 b anti :
  occ b l1 = 0 -> occ b l2 = 0 -> occ b l3 = 0 ->
  bump_all false 0 (l1 ++ Some b :: l2 ++ Some b :: l3) (mkPbce b anti 0 0 0 0) =
  mkPbce b anti 2 0 (length l1) (length l1 + 1 + length l2).
Proof.
  intros H1 H2 H3. rewrite bump_all_app.
  rewrite (bump_all_absent false l1 0 (mkPbce b anti 0 0 0 0) H1). cbn [bump_all Nat.add].
  unfold bump at 1. cbn [pb_bc]. rewrite Nat.eqb_refl. unfold set_seg. cbn [cnt pb_nseg pb_narc pb_bc pb_anti pb_seg0 pb_seg1 Nat.eqb].
  rewrite bump_all_app.
  rewrite (bump_all_absent false l2 (S (length l1)) (mkPbce b anti 1 0 (length l1) 0) H2). cbn [bump_all].
  unfold bump at 1. cbn [pb_bc]. rewrite Nat.eqb_refl. unfold set_seg. cbn [cnt pb_nseg pb_narc pb_bc pb_anti pb_seg0 pb_seg1 Nat.eqb].
  rewrite bump_all_absent by exact H3. f_equal. lia.
Qed.

(* exactly two lines (positions i < j of the line list) carry the condition, no arc does, and their
   lengths differ by more than 1e-6: rejected *)
Theorem reject_dissimilar {F} (A : Arith F) kind bdry orig (lines : list (pline (F:=F))) arcs wls was b l1 l2 l3 :
  (b < length bdry)%nat -> pbc_selected kind (nth b bdry 0%Z) = true ->
  map pl_bc lines = l1 ++ Some b :: l2 ++ Some b :: l3 -> occ b l1 = 0 -> occ b l2 = 0 -> occ b l3 = 0 ->
  occ b (map (pa_bc (F:=F)) arcs) = 0 ->
  altb A (tol6 A) (aabs A (asub A (len_of A orig wls (length l1)) (len_of A orig wls (length l1 + 1 + length l2)))) = true ->
  exists err, validity A kind bdry orig lines arcs wls was = inl err.
Proof.
  intros Hb Hf Hl H1 H2 H3 Ha Hd. unfold validity.
  destruct (count_entities false 0 (map pl_bc lines) (build_pbclst kind bdry)) as [x|p1] eqn:E1; [eauto|].
  destruct (count_entities true 0 (map pa_bc arcs) p1) as [x|p2] eqn:E2; [eauto|].
  destruct (drop_unused p2) as [x|p3] eqn:E3; [eauto|].
  destruct (count_entities_map _ _ _ _ _ E1) as [-> _]. destruct (count_entities_map _ _ _ _ _ E2) as [-> _].
  set (anti := is_antiperiodic kind (nth b bdry 0%Z)).
  set (e2 := mkPbce b anti 2 0 (length l1) (length l1 + 1 + length l2)).
  assert (Hin : In e2 p3).
  { eapply drop_unused_keeps; [exact E3| |left; simpl; lia].
    replace e2 with (bump_all true 0 (map pa_bc arcs) (bump_all false 0 (map pl_bc lines) (mkPbce b anti 0 0 0 0))).
    - apply in_map, in_map, build_pbclst_In; assumption.
    - rewrite Hl, bump_all_two_slots by assumption. apply bump_all_absent. exact Ha. }
  destruct (reconcile_dissimilar A orig arcs p3 wls was e2 Hin) as [err Herr]; [simpl; lia|exact Hd|].
  rewrite Herr. eauto.
Qed.

(* ------------------------------------------------------------------------------------------ *)
(* conditions that the selection of l. 1126 does not recognise produce no pairs at all          *)
(* ------------------------------------------------------------------------------------------ *)
Theorem no_pbc_no_pairs {F} (A : Arith F) kind dosmart bdry orig lines arcs edges eles :
  build_pbclst kind bdry = [] ->
  match pbc_mesh A kind dosmart bdry orig lines arcs edges eles with
  | POk _ _ pts => pts = []
  | PErr e => e = EBadInput
  end.
Proof.
  intros H. unfold pbc_mesh. destruct (read_back A lines arcs edges eles) as [[rls rars] refs].
  unfold validity. rewrite H, !count_entities_nil. cbn [drop_unused reconcile pairs_loop].
  destruct (rest_lines A dosmart _ orig lines _ [] (orig, [])) as [st1|]; [|reflexivity].
  destruct (rest_arcs A orig (length lines) arcs _ [] st1) as [[nodes' segs']|]; reflexivity.
Qed.

Lemma forallb_false {T} (f : T -> bool) l : forallb f l = false -> exists x, In x l /\ f x = false.
Proof.
  induction l as [|a r IH]; simpl; [discriminate|]. destruct (f a) eqn:E; simpl.
  - intros H. destruct (IH H) as (x & Hx & Hf). eauto.
  - intros _. eauto.
Qed.

(* the selection test against the readers' notion of an (anti)periodic condition: if the decision
   comes out true every such condition (BdryFormat 0..7) is selected ... *)
Theorem selection_complete : selection_matches_readers = true ->
  forall k fmt, (0 <= fmt <= 7)%Z -> reader_pbc k fmt = true -> pbc_selected k fmt = true.
Proof.
  unfold selection_matches_readers. intros H k fmt Hr Hp.
  rewrite forallb_forall in H. assert (Hk : In k [Magnetics; Electrostatics; HeatFlow]) by (destruct k; simpl; auto).
  specialize (H k Hk). rewrite forallb_forall in H.
  assert (Hf : In fmt [0; 1; 2; 3; 4; 5; 6; 7]%Z).
  { assert (fmt = 0 \/ fmt = 1 \/ fmt = 2 \/ fmt = 3 \/ fmt = 4 \/ fmt = 5 \/ fmt = 6 \/ fmt = 7)%Z by lia. simpl. intuition. }
  specialize (H fmt Hf). rewrite Hp in H. exact H.
Qed.

(* ... and if it comes out false there is a condition that the reader calls (anti)periodic for which,
   whatever lines and arcs carry it, no pair is listed (and no invalid assignment rejected) *)
Theorem selection_incomplete_no_pairs : selection_matches_readers = false ->
  exists k fmt, reader_pbc k fmt = true /\ pbc_selected k fmt = false /\
    forall (F : Type) (A : Arith F) dosmart orig lines arcs edges eles,
      match pbc_mesh A k dosmart [fmt] orig lines arcs edges eles with
      | POk _ _ pts => pts = []
      | PErr e => e = EBadInput
      end.
Proof.
  unfold selection_matches_readers. intros H. destruct (forallb_false _ _ H) as (k & _ & Hk).
  destruct (forallb_false _ _ Hk) as (fmt & _ & Hf). exists k, fmt.
  destruct (reader_pbc k fmt) eqn:E1; [|discriminate]. destruct (pbc_selected k fmt) eqn:E2; [discriminate|].
  split; [reflexivity|]. split; [reflexivity|]. intros. apply no_pbc_no_pairs.
  unfold build_pbclst. simpl. rewrite E2. reflexivity.
Qed.

(* ------------------------------------------------------------------------------------------ *)
(* (e) what a listed pair does to the solution (restated from SparseProofs.tie_system_equiv)    *)
(* ------------------------------------------------------------------------------------------ *)
From XF Require Import Sparse SparseProofs.
Local Open Scope R_scope.

(* one round of the solvers' loop "Apply any periodicity/antiperiodicity boundary conditions":
   if (pbclist[k].t==0) L.Periodicity(x,y); if (pbclist[k].t==1) L.AntiPeriodicity(x,y); *)
Definition apply_pair (L : lin (F:=R)) (e : nat * nat * nat) : lin (F:=R) :=
  let '(x, y, t) := e in
  if Nat.eqb t 0 then periodicity RA L x y
  else if Nat.eqb t 1 then antiperiodicity RA L x y else L.

(* V solves all equations of the system *)
Definition solves (n : nat) (L : lin (F:=R)) (V : list R) : Prop :=
  forall k, (k < n)%nat -> Ax (lM L) V k = vget RA (lb L) k.

Theorem periodic_pair_forces_equal (L : lin (F:=R)) (x y : nat) (V : list R) :
  mat_wf (lM L) -> ln L = length (lM L) -> length (lb L) = length (lM L) ->
  (x < y)%nat -> (y < length (lM L))%nat ->
  (mget RA (lM L) x x + mget RA (lM L) y y) / 2 - mget RA (lM L) x y <> 0 ->
  solves (length (lM L)) (apply_pair L (x, y, 0%nat)) V -> vget RA V y = vget RA V x.
Proof.
  intros Hwf Hn Hb Hxy Hy Hnz Hs.
  destruct (tie_system_equiv false L x y V Hwf Hn Hb Hxy Hy) as (_ & _ & Hiff).
  { cbn. replace (1 * mget RA (lM L) x y) with (mget RA (lM L) x y) by ring. exact Hnz. }
  apply Hiff in Hs. destruct Hs as [H _]. cbn in H. lra.
Qed.

Theorem antiperiodic_pair_forces_opposite (L : lin (F:=R)) (x y : nat) (V : list R) :
  mat_wf (lM L) -> ln L = length (lM L) -> length (lb L) = length (lM L) ->
  (x < y)%nat -> (y < length (lM L))%nat ->
  (mget RA (lM L) x x + mget RA (lM L) y y) / 2 + mget RA (lM L) x y <> 0 ->
  solves (length (lM L)) (apply_pair L (x, y, 1%nat)) V -> vget RA V y = - vget RA V x.
Proof.
  intros Hwf Hn Hb Hxy Hy Hnz Hs.
  destruct (tie_system_equiv true L x y V Hwf Hn Hb Hxy Hy) as (_ & _ & Hiff).
  { cbn. replace ((mget RA (lM L) x x + mget RA (lM L) y y) / 2 - -1 * mget RA (lM L) x y)
      with ((mget RA (lM L) x x + mget RA (lM L) y y) / 2 + mget RA (lM L) x y) by ring. exact Hnz. }
  apply Hiff in Hs. destruct Hs as [H _]. cbn in H. lra.
Qed.
