(* AsmMNLProofs.v — theorems about the model AsmMNL.v of the nonlinear loop of FSolver::Static2D
   (real-number reading). *)
From Coq Require Import ZArith List Bool Arith Lia Reals Lra.
From XF Require Import Arith Sparse SparseProofs AsmOps AsmOpsProofs AsmE AsmEProofs AsmM AsmMProofs BH.
Set Warnings "-ambiguous-paths".
From XF Require Import BHProofs AsmMNL.
Import ListNotations.
Local Open Scope R_scope.

Local Notation vgetR := (vget RA).
Local Notation probR := (mprob (F:=R)).
Local Notation elemR := (melem (F:=R)).
Local Notation matR := (mat (F:=R)).
Local Notation linR := (lin (F:=R)).
Local Notation Cx := (R * R)%type.

Ltac len9 Me H := let m0 := fresh "m" in let m1 := fresh "m" in let m2 := fresh "m" in let m3 := fresh "m" in
  let m4 := fresh "m" in let m5 := fresh "m" in let m6 := fresh "m" in let m7 := fresh "m" in let m8 := fresh "m" in
  destruct (len9_explicit Me H) as (m0 & m1 & m2 & m3 & m4 & m5 & m6 & m7 & m8 & ->).
Ltac len3 be H := destruct be as [|? [|? [|? [|]]]]; try discriminate H.

(* ========================================================================================== *)
(* 1. the combine statement  Me += Mx/mu2 + My/mu1 + Mxy*v12 + Mn;  be += Mn*V                  *)
(* ========================================================================================== *)
Section Combine.
  Implicit Type Me be Mx My Mxy Mn VV : vecT R.

  Lemma nl_combine_get Me be Mx My Mxy Mn mu1 mu2 VV :
    length Me = 9%nat -> length Mx = 9%nat -> length My = 9%nat -> length Mxy = 9%nat -> length Mn = 9%nat ->
    length be = 3%nat -> length VV = 3%nat ->
    let r := nl_combine RA Me be Mx My Mxy Mn mu1 mu2 VV in
    length (fst r) = 9%nat /\ length (snd r) = 3%nat /\
    (forall j k, (j < 3)%nat -> (k < 3)%nat ->
       m3get RA (fst r) j k = m3get RA Me j k + (m3get RA Mx j k / mu2 + m3get RA My j k / mu1) + m3get RA Mn j k) /\
    (forall j, (j < 3)%nat ->
       vgetR (snd r) j = vgetR be j + (m3get RA Mn j 0 * vgetR VV 0 + m3get RA Mn j 1 * vgetR VV 1 + m3get RA Mn j 2 * vgetR VV 2)).
  Proof.
    intros H1 H2 H3 H4 H5 H6 H7.
    len9 Me H1. len9 Mx H2. len9 My H3. len9 Mxy H4. len9 Mn H5. len3 be H6. len3 VV H7.
    cbv zeta. split; [reflexivity|]. split; [reflexivity|]. split.
    - intros j k Hj Hk.
      destruct j as [|[|[|j]]]; try lia; destruct k as [|[|[|k]]]; try lia; cbn; ra_simpl; lra.
    - intros j Hj. destruct j as [|[|[|j]]]; try lia; cbn; ra_simpl; lra.
  Qed.

  (* Mn = 0: the statement is the linear one of AsmM.combine_me and be is left alone *)
  Lemma nl_combine_zero Me be Mx My Mxy mu1 mu2 VV :
    length Me = 9%nat -> length be = 3%nat ->
    nl_combine RA Me be Mx My Mxy (repeat 0 9) mu1 mu2 VV = (combine_me RA Me Mx My Mxy mu1 mu2, be).
  Proof.
    intros H1 H6. len9 Me H1. len3 be H6.
    unfold nl_combine, combine_me, idx9. cbn [fold_left].
    unfold m3add, m3set, m3get, v3add. cbn [repeat nth vset vget Nat.mul Nat.add]. ra_simpl.
    f_equal. repeat (f_equal; try lra).
  Qed.
End Combine.

(* ========================================================================================== *)
(* 2. the iterate-independent part of the element loop body is that of the linear model        *)
(* ========================================================================================== *)
Section Parts.
  Variables (P : probR) (res : list (nat * R * R)).

  Definition el_blk (el : elemR) : mblock (F:=R) := nth (mblk el) (mblocks P) (dmblock RA).

  (* the linear element matrices for an arbitrary pair of permeabilities: what Static2D assembles for a
     linear material with effective permeabilities (mu1, mu2) in this element *)
  Definition secant_matrices (el : elemR) (mu : R * R) : vecT R * vecT R :=
    let '(Mx, My, Mxy, Me, be) := el_parts RA P res el in
    (combine_me RA Me Mx My Mxy (fst mu) (snd mu), be).

  Lemma melem_matrices_parts el :
    melem_matrices RA P res el =
      (fst (secant_matrices el (el_mu RA (el_blk el))), snd (secant_matrices el (el_mu RA (el_blk el))), el_mu RA (el_blk el)).
  Proof.
    unfold melem_matrices, secant_matrices, el_parts, el_blk. cbv zeta.
    destruct (fold_left (mixed_step RA P (mel_geom RA P el) el) [0%nat; 1%nat; 2%nat] (repeat (azero RA) 9, repeat (azero RA) 3)) as [Me be].
    destruct (el_mu RA (nth (mblk el) (mblocks P) (dmblock RA))) as [mu1 mu2]. reflexivity.
  Qed.

  Lemma m3add_length (Me : vecT R) j k v : length (m3add RA Me j k v) = length Me.
  Proof. unfold m3add, m3set. apply vset_length. Qed.
  Lemma v3add_length (be : vecT R) j v : length (v3add RA be j v) = length be.
  Proof. unfold v3add. apply vset_length. Qed.

  Lemma mixed_step_length g el (acc : vecT R * vecT R) j :
    length (fst (mixed_step RA P g el acc j)) = length (fst acc) /\
    length (snd (mixed_step RA P g el acc j)) = length (snd acc).
  Proof.
    unfold mixed_step. destruct (tri_get (me el) j); [|auto].
    destruct (Nat.eqb _ 2); [|auto]. destruct acc as [Me be]. cbn [fst snd].
    rewrite !m3add_length, !v3add_length. auto.
  Qed.

  Lemma el_parts_lengths el :
    let '(Mx, My, Mxy, Me, be) := el_parts RA P res el in
    length Mx = 9%nat /\ length My = 9%nat /\ length Mxy = 9%nat /\ length Me = 9%nat /\ length be = 3%nat.
  Proof.
    unfold el_parts. cbv zeta.
    set (g := mel_geom RA P el).
    assert (Hgp : gp g = [vgetR (gp g) 0; vgetR (gp g) 1; vgetR (gp g) 2]) by reflexivity.
    assert (Hgq : gq g = [vgetR (gq g) 0; vgetR (gq g) 1; vgetR (gq g) 2]) by reflexivity.
    pose proof (mixed_step_length g el) as HS.
    destruct (fold_left (mixed_step RA P g el) [0%nat; 1%nat; 2%nat] (repeat (azero RA) 9, repeat (azero RA) 3)) as [Me be] eqn:E.
    assert (HL : length Me = 9%nat /\ length be = 3%nat).
    { cbn [fold_left] in E.
      destruct (HS (repeat (azero RA) 9, repeat (azero RA) 3) 0%nat) as [A0 B0].
      destruct (HS (mixed_step RA P g el (repeat (azero RA) 9, repeat (azero RA) 3) 0%nat) 1%nat) as [A1 B1].
      destruct (HS (mixed_step RA P g el (mixed_step RA P g el (repeat (azero RA) 9, repeat (azero RA) 3) 0%nat) 1%nat) 2%nat) as [A2 B2].
      rewrite E in A2, B2. cbn [fst snd] in *. rewrite A2, A1, A0, B2, B1, B0. split; reflexivity. }
    destruct HL as [HMe Hbe].
    set (K := aneg RA (aone RA) / (aofZ RA 4 * ga g)).
    assert (Z9 : length (repeat (azero RA) 9) = 9%nat) by reflexivity.
    destruct (stiff_add_get (repeat (azero RA) 9) K (vgetR (gp g) 0) (vgetR (gp g) 1) (vgetR (gp g) 2) 0 0 Z9 ltac:(lia) ltac:(lia)) as [Lx _].
    destruct (stiff_add_get (repeat (azero RA) 9) K (vgetR (gq g) 0) (vgetR (gq g) 1) (vgetR (gq g) 2) 0 0 Z9 ltac:(lia) ltac:(lia)) as [Ly _].
    destruct (xy_add_get (repeat (azero RA) 9) K (vgetR (gp g) 0) (vgetR (gp g) 1) (vgetR (gp g) 2)
                         (vgetR (gq g) 0) (vgetR (gq g) 1) (vgetR (gq g) 2) 0 0 Z9 ltac:(lia) ltac:(lia)) as [Lxy _].
    rewrite <- Hgp in Lx, Lxy. rewrite <- Hgq in Ly, Lxy.
    split; [exact Lx|]. split; [exact Ly|]. split; [exact Lxy|]. split; [exact HMe|].
    cbn [fold_left]. unfold magnet_step. rewrite !v3add_length. exact Hbe.
  Qed.
End Parts.

(* ========================================================================================== *)
(* 3. B-H table on a straight line through the origin: GetBHProps returns (k, 0)               *)
(* ========================================================================================== *)
Section LineTable.
  Lemma line_bhprops (k b b0 b1 : R) : b0 <> b1 -> b <> 0 ->
    bhprops_of RA b (hseg RA b b0 b1 (b0 * k, b0 * 0) (b1 * k, b1 * 0) (k, 0) (k, 0))
                  (dhseg RA b b0 b1 (b0 * k, b0 * 0) (b1 * k, b1 * 0) (k, 0) (k, 0)) = ((k, 0), (0, 0)).
  Proof.
    intros H01 Hb.
    pose proof (line_hseg (k, 0) b b0 b1 H01) as E1. pose proof (line_dhseg (k, 0) b b0 b1 H01) as E2.
    cbn [fst snd] in E1, E2. rewrite E1, E2.
    unfold bhprops_of, cdivd, dmulc, csub, BH.half. cbn [fst snd]. ra_simpl. cbn.
    f_equal; f_equal; field; auto.
  Qed.

  (* GetBHProps of a straight-line table: v = H/B = k, dv = d(H/B)/d(B^2) = 0, at EVERY flux density *)
  Theorem line_getBHProps (k : R) Bd mux muo (B : R) :
    incr Bd -> (2 <= length Bd)%nat -> hd 0 Bd = 0 ->
    getBHProps RA (line_mat (k, 0) Bd mux muo) B = (k, 0).
  Proof.
    intros Hi Hlen H0. assert (Hne : Bd <> []) by (destruct Bd; [cbn in Hlen; lia|discriminate]).
    destruct (line_last (k, 0) Bd Hne) as [LH LS].
    unfold getBHProps, line_mat, lastB, lastH, lastS. cbn [mB mH mS mMux]. ra_simpl.
    destruct (Nat.eqb (length Bd) 0) eqn:En; [apply Nat.eqb_eq in En; lia|].
    destruct (Reqb (Rabs B) 0) eqn:Eb.
    - destruct Bd as [|b0 Bt]; [congruence|]. reflexivity.
    - apply Reqb_false in Eb.
      destruct (Rltb (last Bd 0) (Rabs B)) eqn:El.
      + rewrite LH, LS. cbn [fst snd].
        unfold bhprops_of, cdivd, dmulc, csub, cadd, cmuld, BH.half. cbn [fst snd]. ra_simpl. cbn.
        f_equal; field; auto.
      + apply Rltb_false in El.
        rewrite (line_scan (fun b b0 b1 h0 h1 s0 s1 => bhprops_of RA b (hseg RA b b0 b1 h0 h1 s0 s1) (dhseg RA b b0 b1 h0 h1 s0 s1))
                           (fun _ => ((k, 0), (0, 0))) (czero RA, czero RA) (k, 0) (Rabs B)); auto.
        * intros b0 b1 Hlt. cbn [fst snd]. apply line_bhprops; [lra|auto].
        * rewrite H0. apply Rabs_pos.
        * lra.
  Qed.
End LineTable.

(* ========================================================================================== *)
(* 4. reduction to the linear case                                                             *)
(* ========================================================================================== *)
Section Reduction.
  Variables (P : probR) (mats : list matR) (res : list (nat * R * R)).

  (* the element's block either has no table, or is LamType 0 with a straight-line table (H = k B, slopes k,
     from B = 0) whose permeability 1/(muo k) is the block's effective first-pass permeability *)
  Definition el_lin_ok (el : elemR) : Prop :=
    let m := nth (mblk el) mats (dmat RA) in
    let blk := el_blk P el in
    bhpoints m = 0%nat \/
    (bLamType blk = 0%nat /\
     exists k Bd mux, m = line_mat (k, 0) Bd mux (mMuo m) /\ incr Bd /\ (2 <= length Bd)%nat /\ hd 0 Bd = 0 /\
       el_mu RA blk = (1 / (mMuo m * k), 1 / (mMuo m * k))).

  Lemma Rmult_0_list (K : R) (v : vecT R) : K = 0 ->
    map (fun jw : nat * nat => K * vgetR v (fst jw) * vgetR v (snd jw)) idx9 = repeat 0 9.
  Proof. intros ->. cbn. repeat f_equal; ring. Qed.

  (* permeability update of an element of a straight-line block: the linear permeability again, no tangent term *)
  Lemma el_mu_Mn_line iter V el parts :
    el_lin_ok el -> el_mu_Mn RA P mats iter V el parts (el_mu RA (el_blk P el)) = (el_mu RA (el_blk P el), repeat 0 9).
  Proof.
    intros Hok. unfold el_mu_Mn. destruct parts as [[[[Mx My] Mxy] Me] be]. fold (el_blk P el).
    destruct (Nat.eqb iter 0); [reflexivity|].
    unfold nl_update. cbv zeta.
    destruct Hok as [H0 | (HL & k & Bd & mux & Hm & Hi & Hlen & Hhd & Hmu)].
    - rewrite H0. cbn [Nat.ltb Nat.leb]. rewrite !andb_false_r. cbn [fst snd]. reflexivity.
    - rewrite HL. cbn [Nat.eqb andb]. rewrite Hmu. cbn [fst snd].
      assert (Hq : aeqb RA (1 / (mMuo (nth (mblk el) mats (dmat RA)) * k)) (1 / (mMuo (nth (mblk el) mats (dmat RA)) * k)) = true)
        by (apply Reqb_true; reflexivity).
      rewrite Hq. cbn [andb].
      assert (Hnl : Nat.ltb 0 (bhpoints (nth (mblk el) mats (dmat RA))) = true).
      { apply Nat.ltb_lt. rewrite Hm. unfold bhpoints, line_mat. cbn [mB]. lia. }
      rewrite Hnl. unfold nl_mu_of.
      set (B := nl_Bmag RA _ _ _).
      rewrite Hm at 1. rewrite (line_getBHProps k Bd mux _ B Hi Hlen Hhd).
      ra_simpl. f_equal. apply Rmult_0_list. unfold Rdiv. ring.
  Qed.

  (* hence the element matrices of every pass are the linear ones *)
  Lemma nl_elem_matrices_line iter V el :
    el_lin_ok el ->
    nl_elem_matrices RA P mats res iter V el (el_mu RA (el_blk P el)) = melem_matrices RA P res el.
  Proof.
    intros Hok. unfold nl_elem_matrices. rewrite (el_mu_Mn_line iter V el _ Hok).
    rewrite melem_matrices_parts. unfold secant_matrices.
    pose proof (el_parts_lengths P res el) as HL.
    destruct (el_parts RA P res el) as [[[[Mx My] Mxy] Me] be].
    destruct HL as (_ & _ & _ & HMe & Hbe).
    rewrite nl_combine_zero by auto. reflexivity.
  Qed.

  (* first pass, ANY problem (no hypothesis on the tables): Iter = 0 assembles the linear problem whose
     permeabilities are the blocks' mu_x, mu_y — for a block with a table the initial slope GetSlopes stored *)
  Lemma nl_elem_matrices_first V el mu_old :
    nl_elem_matrices RA P mats res 0 V el mu_old = melem_matrices RA P res el.
  Proof.
    unfold nl_elem_matrices, el_mu_Mn. cbn [Nat.eqb].
    rewrite melem_matrices_parts. unfold secant_matrices. fold (el_blk P el).
    pose proof (el_parts_lengths P res el) as HL.
    destruct (el_parts RA P res el) as [[[[Mx My] Mxy] Me] be].
    destruct HL as (_ & _ & _ & HMe & Hbe).
    rewrite nl_combine_zero by auto. reflexivity.
  Qed.

  Definition lin_mus (els : list elemR) : list (R * R) := map (fun el => el_mu RA (el_blk P el)) els.

  Lemma nl_step_is_melem_step iter V M b rmus el mu_old :
    nl_elem_matrices RA P mats res iter V el mu_old = melem_matrices RA P res el ->
    nl_elem_step RA P mats res iter V (M, b, rmus) (el, mu_old)
      = (fst (melem_step RA P res (M, b) el), snd (melem_step RA P res (M, b) el), el_mu RA (el_blk P el) :: rmus).
  Proof.
    intros E. unfold nl_elem_step, melem_step. cbn [fst snd]. rewrite E.
    rewrite melem_matrices_parts.
    destruct (secant_matrices P res el (el_mu RA (el_blk P el))) as [Me be]. cbn [fst snd].
    destruct (mscatter RA (mp el) Me be M b) as [M' b']. reflexivity.
  Qed.

  Lemma nl_loop_line iter V : forall els M b rmus, Forall el_lin_ok els ->
    fold_left (nl_elem_step RA P mats res iter V) (combine els (lin_mus els)) (M, b, rmus)
      = (fst (fold_left (melem_step RA P res) els (M, b)), snd (fold_left (melem_step RA P res) els (M, b)),
         rev (lin_mus els) ++ rmus).
  Proof.
    induction els as [|el els IH]; intros M b rmus Hok; [reflexivity|].
    apply Forall_cons_iff in Hok. destruct Hok as [Hel Hok].
    cbn [lin_mus map combine fold_left].
    rewrite (nl_step_is_melem_step iter V M b rmus el _ (nl_elem_matrices_line iter V el Hel)).
    destruct (melem_step RA P res (M, b) el) as [M1 b1] eqn:E1. cbn [fst snd].
    fold (lin_mus els). rewrite (IH M1 b1 _ Hok). cbn [rev]. rewrite <- app_assoc. reflexivity.
  Qed.

  Lemma nl_loop_first V : forall els mus M b rmus, length mus = length els ->
    fold_left (nl_elem_step RA P mats res 0 V) (combine els mus) (M, b, rmus)
      = (fst (fold_left (melem_step RA P res) els (M, b)), snd (fold_left (melem_step RA P res) els (M, b)),
         rev (lin_mus els) ++ rmus).
  Proof.
    induction els as [|el els IH]; intros mus M b rmus Hlen; [destruct mus; reflexivity|].
    destruct mus as [|mu mus]; [discriminate Hlen|].
    cbn [lin_mus map combine fold_left].
    rewrite (nl_step_is_melem_step 0 V M b rmus el mu (nl_elem_matrices_first V el mu)).
    destruct (melem_step RA P res (M, b) el) as [M1 b1] eqn:E1. cbn [fst snd].
    fold (lin_mus els). rewrite (IH mus M1 b1 _ ltac:(cbn in Hlen; lia)). cbn [rev]. rewrite <- app_assoc. reflexivity.
  Qed.

  (* the LINEAR assembly of AsmM.asmM, started from an arbitrary CBigLinProb state L0 (Create'd or Wipe'd) *)
  Definition asm_from (L0 : linR) : linR :=
    let s := fold_left (melem_step RA P res) (melems P) (lM L0, lb L0) in
    nl_finish RA P L0 (fst s) (snd s).

  Theorem nl_pass_line iter L0 :
    Forall el_lin_ok (melems P) ->
    nl_pass RA P mats res iter L0 (lin_mus (melems P)) = (asm_from L0, lin_mus (melems P)).
  Proof.
    intros Hok. unfold nl_pass, asm_from. rewrite (nl_loop_line iter _ _ _ _ _ Hok).
    rewrite app_nil_r, rev_involutive. reflexivity.
  Qed.

  Theorem nl_pass_first L0 mus :
    length mus = length (melems P) ->
    nl_pass RA P mats res 0 L0 mus = (asm_from L0, lin_mus (melems P)).
  Proof.
    intros Hlen. unfold nl_pass, asm_from. rewrite (nl_loop_first _ _ _ _ _ _ Hlen).
    rewrite app_nil_r, rev_involutive. reflexivity.
  Qed.
End Reduction.

(* AsmM.asmM is asm_from the freshly created CBigLinProb *)
Lemma asmM_is_asm_from (P : probR) bw prec :
  asmM RA P bw prec = (asm_from P (circ_results RA P) (lcreate RA (length (mnodes P)) bw prec (adec RA 15 (-1))), circ_results RA P).
Proof.
  unfold asmM, asm_from, nl_finish. cbv zeta.
  destruct (fold_left (melem_step RA P (circ_results RA P)) (melems P) _) as [M b]. reflexivity.
Qed.

(* ========================================================================================== *)
(* 5. the whole iteration on straight-line tables: an inductive invariant                      *)
(* ========================================================================================== *)
Section IterateLine.
  Variables (P : probR) (mats : list matR) (res : list (nat * R * R)).

  (* before the first pass the stored permeabilities are irrelevant; afterwards they are the linear ones *)
  Definition line_inv (st : nlstate (F:=R)) : Prop :=
    let '(L, mus, c) := st in
    (cIter c = 0%nat /\ length mus = length (melems P)) \/ (cIter c <> 0%nat /\ mus = lin_mus P (melems P)).

  Lemma line_inv_state0 bw prec : line_inv (nl_state0 RA P mats bw prec).
  Proof. unfold line_inv, nl_state0, nl_ctl0. left. cbn [cIter]. split; [reflexivity|apply map_length]. Qed.

  Lemma nl_control_iter prec Vold V c : cIter (fst (nl_control RA prec Vold V c)) = S (cIter c).
  Proof.
    unfold nl_control. destruct (cLinear c); [reflexivity|].
    destruct (aeqb RA (nl_y RA V) (azero RA)); destruct (Nat.ltb 5 (cIter c)); reflexivity.
  Qed.

  (* EVERY pass of the loop assembles the linear system of the linear material (started from the Create'd
     matrix in the first pass and from the Wipe'd one afterwards), whatever the linear solver returns *)
  Theorem nl_every_pass_line (st : nlstate (F:=R)) :
    Forall (el_lin_ok P mats) (melems P) -> line_inv st ->
    let '(L, mus, c) := st in
    nl_assemble RA P mats res st
      = (asm_from P res (if Nat.eqb (cIter c) 0 then L else wipe RA L), lin_mus P (melems P)) /\
    forall V, line_inv (nl_after_solve RA st (fst (nl_assemble RA P mats res st)) (snd (nl_assemble RA P mats res st)) V).
  Proof.
    intros Hok Hinv. destruct st as [[L mus] c]. unfold line_inv in Hinv.
    assert (E : nl_assemble RA P mats res (L, mus, c)
                = (asm_from P res (if Nat.eqb (cIter c) 0 then L else wipe RA L), lin_mus P (melems P))).
    { unfold nl_assemble. destruct Hinv as [[H0 Hlen] | [Hn ->]].
      - rewrite H0. cbn [Nat.eqb]. apply nl_pass_first. exact Hlen.
      - apply nl_pass_line. exact Hok. }
    split; [exact E|]. intros V. rewrite E. cbn [fst snd]. unfold nl_after_solve, line_inv.
    destruct (nl_control RA (lprec L) _ V c) as [c' V'] eqn:Ec.
    right. split; [|reflexivity].
    pose proof (nl_control_iter (lprec L) (Sparse.lV (asm_from P res (if Nat.eqb (cIter c) 0 then L else wipe RA L))) V c) as Hi.
    rewrite Ec in Hi. cbn [fst] in Hi. lia.
  Qed.

  (* ... so when the loop ends (or runs out of fuel) the stored permeabilities are the linear ones *)
  Theorem nl_iterate_line solve : forall fuel st b st',
    Forall (el_lin_ok P mats) (melems P) -> line_inv st ->
    nl_iterate RA solve P mats res fuel st = Some (b, st') -> line_inv st'.
  Proof.
    induction fuel as [|fuel IH]; intros st b st' Hok Hinv E.
    - cbn in E. injection E as _ <-. exact Hinv.
    - cbn [nl_iterate] in E.
      pose proof (nl_every_pass_line st Hok Hinv) as HP.
      destruct st as [[L mus] c]. destruct HP as [EA HV].
      destruct (nl_assemble RA P mats res (L, mus, c)) as [L1 mus1] eqn:EA'. cbn [fst snd] in *.
      destruct (solve (cIter c) L1) as [V|]; [|discriminate E].
      specialize (HV V).
      destruct (cLinear (snd (nl_after_solve RA (L, mus, c) L1 mus1 V))).
      + injection E as _ <-. exact HV.
      + eapply IH; eauto.
  Qed.
End IterateLine.

(* ========================================================================================== *)
(* 6. what one Newton pass solves                                                              *)
(* ========================================================================================== *)
Section Newton.
  Variables (P : probR) (mats : list matR) (res : list (nat * R * R)).

  Definition sym3 (Mn : vecT R) : Prop :=
    forall j k, (j < 3)%nat -> (k < 3)%nat -> m3get RA Mn j k = m3get RA Mn k j.

  Definition nodal3 (V : vecT R) (n : nat * nat * nat) : vecT R :=
    [vgetR V (tri_get n 0); vgetR V (tri_get n 1); vgetR V (tri_get n 2)].

  (* tangent row of local node a applied to a nodal vector W:  sum_b (S + Mn)[a][b] W[n_b] *)
  Definition tangent_row (Me : vecT R) (n : nat * nat * nat) (W : vecT R) (a : nat) : R :=
    usym Me a 0 * vgetR W (tri_get n 0) + usym Me a 1 * vgetR W (tri_get n 1) + usym Me a 2 * vgetR W (tri_get n 2).

  (* THE NEWTON STEP, element level.  With S = the secant (linear) element matrix for the updated permeabilities,
     f = the source vector, Mn the symmetric tangent term, the pass assembles  Me' = S + Mn,  be' = f + Mn V, so that
     the local residual at any U is the nonlinear residual at the previous iterate V plus the tangent (S + Mn)
     applied to the step U - V:    (S+Mn) U - (f + Mn V) = (S V - f) + (S+Mn)(U - V). *)
  Lemma newton_step_local Me be Mx My Mxy Mn mu1 mu2 n V U a :
    length Me = 9%nat -> length Mx = 9%nat -> length My = 9%nat -> length Mxy = 9%nat -> length Mn = 9%nat ->
    length be = 3%nat -> sym3 Mn -> (a < 3)%nat ->
    let r := nl_combine RA Me be Mx My Mxy Mn mu1 mu2 (nodal3 V n) in
    local_resid (fst r) (snd r) n U a
      = local_resid (combine_me RA Me Mx My Mxy mu1 mu2) be n V a
        + (tangent_row (fst r) n U a - tangent_row (fst r) n V a).
  Proof.
    intros H1 H2 H3 H4 H5 H6 Hs Ha r.
    destruct (nl_combine_get Me be Mx My Mxy Mn mu1 mu2 (nodal3 V n) H1 H2 H3 H4 H5 H6 eq_refl) as (_ & _ & HM & HB).
    fold r in HM, HB.
    unfold local_resid, tangent_row, usym.
    rewrite (HB a Ha). unfold nodal3, vget. cbn [nth].
    pose proof (fun j k Hj Hk => combine_me_get Me Mx My Mxy mu1 mu2 j k H1 H2 H3 H4 Hj Hk) as HC.
    destruct a as [|[|[|a]]]; try lia; cbn [Nat.leb];
      rewrite ?HM by lia; rewrite ?HC by lia;
      rewrite ?(Hs 1%nat 0%nat), ?(Hs 2%nat 0%nat), ?(Hs 2%nat 1%nat) by lia; ring.
  Qed.

  (* the tangent term of nl_update is symmetric and a 3x3 matrix *)
  Lemma nl_update_Mn m blk g Mx My V3 mu :
    length (snd (nl_update RA m blk g Mx My V3 mu)) = 9%nat /\ sym3 (snd (nl_update RA m blk g Mx My V3 mu)).
  Proof.
    unfold nl_update. cbv zeta.
    set (c1 := Nat.eqb (bLamType blk) 0 && _ && _).
    set (c2 := Nat.eqb (bLamType blk) 1 && _).
    set (c3 := Nat.eqb (bLamType blk) 2 && _).
    assert (Z : length (repeat (azero RA) 9) = 9%nat /\ sym3 (repeat (azero RA) 9)).
    { split; [reflexivity|]. intros j k Hj Hk.
      destruct j as [|[|[|j]]]; try lia; destruct k as [|[|[|k]]]; try lia; reflexivity. }
    destruct c3.
    - destruct (nl_mu_of RA m _) as [mu' dv]. cbn [snd]. split; [reflexivity|].
      intros j k Hj Hk. destruct j as [|[|[|j]]]; try lia; destruct k as [|[|[|k]]]; try lia;
        unfold m3get, idx9; cbn [map nth fst snd Nat.mul Nat.add]; ra_simpl; ring.
    - destruct c2.
      + destruct (nl_mu_of RA m _) as [mu' dv]. cbn [snd]. split; [reflexivity|].
        intros j k Hj Hk. destruct j as [|[|[|j]]]; try lia; destruct k as [|[|[|k]]]; try lia;
          unfold m3get, idx9; cbn [map nth fst snd Nat.mul Nat.add]; ra_simpl; ring.
      + destruct c1.
        * destruct (nl_mu_of RA m _) as [mu' dv]. cbn [snd]. split; [reflexivity|].
          intros j k Hj Hk. destruct j as [|[|[|j]]]; try lia; destruct k as [|[|[|k]]]; try lia;
            unfold m3get, idx9; cbn [map nth fst snd Nat.mul Nat.add]; ra_simpl; ring.
        * exact Z.
  Qed.

  Lemma el_mu_Mn_sym iter V el parts mu_old :
    length (snd (el_mu_Mn RA P mats iter V el parts mu_old)) = 9%nat /\ sym3 (snd (el_mu_Mn RA P mats iter V el parts mu_old)).
  Proof.
    unfold el_mu_Mn. destruct parts as [[[[Mx My] Mxy] Me] be].
    destruct (Nat.eqb iter 0); [|apply nl_update_Mn].
    cbn [snd]. split; [reflexivity|]. intros j k Hj Hk.
    destruct j as [|[|[|j]]]; try lia; destruct k as [|[|[|k]]]; try lia; reflexivity.
  Qed.

  (* element level, as assembled: in every pass, for every element, the assembled local equation is
     (nonlinear residual at the previous iterate, with the UPDATED permeability) + tangent * step *)
  Theorem newton_step_element iter V U el mu_old a : (a < 3)%nat ->
    let r := nl_elem_matrices RA P mats res iter V el mu_old in
    let Me := fst (fst r) in let be := snd (fst r) in let mu := snd r in
    let S := secant_matrices P res el mu in
    local_resid Me be (mp el) U a
      = local_resid (fst S) (snd S) (mp el) V a + (tangent_row Me (mp el) U a - tangent_row Me (mp el) V a).
  Proof.
    intros Ha. unfold nl_elem_matrices, secant_matrices.
    pose proof (el_parts_lengths P res el) as HL.
    pose proof (el_mu_Mn_sym iter V el (el_parts RA P res el) mu_old) as [HMn Hsym].
    destruct (el_mu_Mn RA P mats iter V el (el_parts RA P res el) mu_old) as [mu Mn]. cbn [snd] in HMn, Hsym.
    destruct (el_parts RA P res el) as [[[[Mx My] Mxy] Me] be].
    destruct HL as (Lx & Ly & Lxy & LMe & Lbe).
    pose proof (newton_step_local Me be Mx My Mxy Mn (fst mu) (snd mu) (mp el) V U a LMe Lx Ly Lxy HMn Lbe Hsym Ha) as HN.
    cbv zeta in HN. unfold el_V3. cbn [map]. unfold nodal3 in HN.
    destruct (nl_combine RA Me be Mx My Mxy Mn (fst mu) (snd mu) _) as [Me' be']. cbn [fst snd] in *. exact HN.
  Qed.

  (* consistency: at U = V the assembled local equation IS the nonlinear residual  K(nu(|B(V)|)) V - f *)
  Corollary newton_consistent_element iter V el mu_old a : (a < 3)%nat ->
    let r := nl_elem_matrices RA P mats res iter V el mu_old in
    let S := secant_matrices P res el (snd r) in
    local_resid (fst (fst r)) (snd (fst r)) (mp el) V a = local_resid (fst S) (snd S) (mp el) V a.
  Proof. intros Ha. cbv zeta. rewrite (newton_step_element iter V V el mu_old a Ha). ring. Qed.

  (* ---- loop level ---- *)
  Definition resid3 (n : nat * nat * nat) (Me be U : vecT R) (i : nat) : R :=
    (if Nat.eqb (tri_get n 0) i then local_resid Me be n U 0 else 0)
    + (if Nat.eqb (tri_get n 1) i then local_resid Me be n U 1 else 0)
    + (if Nat.eqb (tri_get n 2) i then local_resid Me be n U 2 else 0).

  Lemma scatter_rows (M : matrixT R) (b : vecT R) n Me be U :
    mat_wf M -> length b = length M -> distinct3 n ->
    (tri_get n 0 < length M)%nat -> (tri_get n 1 < length M)%nat -> (tri_get n 2 < length M)%nat ->
    let s' := mscatter RA n Me be M b in
    mat_wf (fst s') /\ length (fst s') = length M /\ length (snd s') = length b /\
    forall i, (i < length M)%nat ->
      Ax (fst s') U i - vgetR (snd s') i = (Ax M U i - vgetR b i) - resid3 n Me be U i.
  Proof.
    intros Hwf Hb Hd H0 H1 H2 s'. unfold s'.
    rewrite mscatter_as_ops. cbn [fst snd].
    assert (Hm : mops_in_range (length M) (mscatter_mops n Me)).
    { unfold mscatter_mops. repeat constructor; cbn [fst snd]; auto. }
    assert (Hbo : bops_in_range (length b) (mscatter_bops n be)).
    { unfold mscatter_bops. rewrite Hb. repeat constructor; cbn [fst snd]; auto. }
    destruct (assembled_rows M b _ _ U Hwf Hm Hbo) as (W & L1 & L2 & HR).
    split; [exact W|]. split; [exact L1|]. split; [exact L2|].
    intros i Hi. rewrite (HR i Hi).
    pose proof (melem_row_identity n Me be U i Hd) as G. unfold resid3. lra.
  Qed.

  (* contribution of one element of pass [iter] to row i of the residual at U *)
  Definition nl_el_resid iter V (em : elemR * (R * R)) (U : vecT R) (i : nat) : R :=
    let r := nl_elem_matrices RA P mats res iter V (fst em) (snd em) in
    resid3 (mp (fst em)) (fst (fst r)) (snd (fst r)) U i.

  (* ... and of the nonlinear (secant) equations at V, with the permeability the pass computed from V *)
  Definition secant_el_resid iter V (em : elemR * (R * R)) (i : nat) : R :=
    let r := nl_elem_matrices RA P mats res iter V (fst em) (snd em) in
    let S := secant_matrices P res (fst em) (snd r) in
    resid3 (mp (fst em)) (fst S) (snd S) V i.

  Lemma nl_el_resid_at_iterate iter V em i : nl_el_resid iter V em V i = secant_el_resid iter V em i.
  Proof.
    unfold nl_el_resid, secant_el_resid, resid3.
    rewrite !(newton_consistent_element iter V (fst em) (snd em)) by lia. reflexivity.
  Qed.

  Theorem nl_loop_rows iter V U : forall (ems : list (elemR * (R * R))) (M : matrixT R) (b : vecT R) rmus,
    mat_wf M -> length b = length M -> Forall (fun em => elem_okM (length M) (fst em)) ems ->
    let s' := fold_left (nl_elem_step RA P mats res iter V) ems (M, b, rmus) in
    mat_wf (fst (fst s')) /\ length (fst (fst s')) = length M /\ length (snd (fst s')) = length b /\
    forall i, (i < length M)%nat ->
      Ax (fst (fst s')) U i - vgetR (snd (fst s')) i
        = (Ax M U i - vgetR b i) - lsum (fun em => nl_el_resid iter V em U i) ems.
  Proof.
    induction ems as [|em ems IH]; intros M b rmus Hwf Hb Hok.
    - cbn [fold_left fst snd lsum]. split; [exact Hwf|]. split; [reflexivity|]. split; [reflexivity|]. intros i Hi. lra.
    - apply Forall_cons_iff in Hok. destruct Hok as [(Hd & H0 & H1 & H2) Hok].
      cbn [fold_left].
      destruct (nl_elem_matrices RA P mats res iter V (fst em) (snd em)) as [[Me be] mu] eqn:Er.
      destruct (scatter_rows M b (mp (fst em)) Me be U Hwf Hb Hd H0 H1 H2) as (W1 & L1 & L2 & HR).
      assert (Es : nl_elem_step RA P mats res iter V (M, b, rmus) em
                   = (fst (mscatter RA (mp (fst em)) Me be M b), snd (mscatter RA (mp (fst em)) Me be M b), mu :: rmus)).
      { unfold nl_elem_step. rewrite Er. destruct (mscatter RA (mp (fst em)) Me be M b); reflexivity. }
      rewrite Es.
      destruct (mscatter RA (mp (fst em)) Me be M b) as [M1 b1]. cbn [fst snd] in *.
      destruct (IH M1 b1 (mu :: rmus) W1 ltac:(lia) ltac:(rewrite L1; exact Hok)) as (W & L & Lb & HR2).
      split; [exact W|]. split; [lia|]. split; [lia|].
      intros i Hi. rewrite HR2 by lia. rewrite HR by auto. cbn [lsum].
      unfold nl_el_resid at 2. rewrite Er. cbn [fst snd]. lra.
  Qed.

  (* (b) FIXED POINT.  Take any pass whose element loop starts from an all-zero matrix and right-hand side (the
     Create'd or Wipe'd CBigLinProb) and was assembled from the iterate V.  If V itself satisfies row i of the
     assembled element-loop system (a fixed point of the pass: the solve returns what it was given), then the
     NONLINEAR equations  sum_el [ K_el(nu(|B_el(V)|)) V - f_el ]_i = 0  hold at row i, K_el and f_el being the linear
     element matrix / source vector for the permeability the pass computed from V (secant_matrices). *)
  Theorem nl_fixed_point_row iter V (ems : list (elemR * (R * R))) (M : matrixT R) (b : vecT R) rmus i :
    mat_wf M -> length b = length M -> Forall (fun em => elem_okM (length M) (fst em)) ems ->
    (i < length M)%nat -> Ax M V i = 0 -> vgetR b i = 0 ->
    let s' := fold_left (nl_elem_step RA P mats res iter V) ems (M, b, rmus) in
    Ax (fst (fst s')) V i = vgetR (snd (fst s')) i <-> lsum (fun em => secant_el_resid iter V em i) ems = 0.
  Proof.
    intros Hwf Hb Hok Hi HA Hbi s'.
    destruct (nl_loop_rows iter V V ems M b rmus Hwf Hb Hok) as (_ & _ & _ & HR).
    fold s' in HR. specialize (HR i Hi). rewrite HA, Hbi in HR.
    assert (E : lsum (fun em => nl_el_resid iter V em V i) ems = lsum (fun em => secant_el_resid iter V em i) ems).
    { clear. induction ems as [|em ems IH]; cbn [lsum]; [reflexivity|]. rewrite IH, nl_el_resid_at_iterate. reflexivity. }
    rewrite E in HR. split; intros H; lra.
  Qed.
End Newton.

(* ========================================================================================== *)
(* 7. the secant matrices are the Galerkin matrices of curl(nu curl A) for the updated nu       *)
(* ========================================================================================== *)
Section SecantGalerkin.
  Variables (P : probR) (res : list (nat * R * R)).

  Theorem secant_is_curlcurl el (mu : R * R) j k :
    no_mixed_edge P el -> (j < 3)%nat -> (k < 3)%nat ->
    let g := mel_geom RA P el in
    ga g <> 0 -> fst mu <> 0 -> snd mu <> 0 ->
    m3get RA (fst (secant_matrices P res el mu)) j k = - curlcurl_K (1 / fst mu) (1 / snd mu) g j k.
  Proof.
    intros He Hj Hk g Ha H1 H2. unfold secant_matrices, el_parts. cbv zeta. fold g.
    rewrite mixed_none by exact He. destruct mu as [mu1 mu2]. cbn [fst snd] in *.
    assert (Hgp : gp g = [vgetR (gp g) 0; vgetR (gp g) 1; vgetR (gp g) 2]) by reflexivity.
    assert (Hgq : gq g = [vgetR (gq g) 0; vgetR (gq g) 1; vgetR (gq g) 2]) by reflexivity.
    set (K := aneg RA (aone RA) / (aofZ RA 4 * ga g)).
    assert (Z9 : length (repeat (azero RA) 9) = 9%nat) by reflexivity.
    destruct (stiff_add_get (repeat (azero RA) 9) K (vgetR (gp g) 0) (vgetR (gp g) 1) (vgetR (gp g) 2) j k Z9 Hj Hk) as [Lx Gx].
    destruct (stiff_add_get (repeat (azero RA) 9) K (vgetR (gq g) 0) (vgetR (gq g) 1) (vgetR (gq g) 2) j k Z9 Hj Hk) as [Ly Gy].
    destruct (xy_add_get (repeat (azero RA) 9) K (vgetR (gp g) 0) (vgetR (gp g) 1) (vgetR (gp g) 2)
                         (vgetR (gq g) 0) (vgetR (gq g) 1) (vgetR (gq g) 2) j k Z9 Hj Hk) as [Lxy _].
    rewrite <- Hgp in Lx, Gx, Lxy. rewrite <- Hgq in Ly, Gy, Lxy.
    ra_simpl. fold K.
    rewrite combine_me_get by auto. rewrite Gx, Gy.
    replace (m3get RA (repeat 0 9) j k) with 0
      by (destruct j as [|[|[|j]]]; try lia; destruct k as [|[|[|k]]]; try lia; reflexivity).
    unfold K, curlcurl_K, dphidx, dphidy. ra_simpl. field. repeat split; assumption.
  Qed.

  (* the source vector does not depend on the permeability: it is the linear model's (C05 (c1)-(c3) apply) *)
  Lemma secant_rhs el mu : snd (secant_matrices P res el mu) = snd (fst (melem_matrices RA P res el)).
  Proof.
    rewrite melem_matrices_parts. cbn [fst snd]. unfold secant_matrices.
    destruct (el_parts RA P res el) as [[[[Mx My] Mxy] Me] be]. reflexivity.
  Qed.
End SecantGalerkin.

(* ========================================================================================== *)
(* 8. the flux density of the update is |curl| of the interpolant; the new permeability is B/H  *)
(* ========================================================================================== *)
Section FluxDensity.
  Lemma c4pi_pos' : 0 < c4pi RA.
  Proof. pose proof c4pi_pos. lra. Qed.

  Lemma dec002 : adec RA 2 (-2) = 2 / 100.
  Proof. unfold adec. cbn. lra. Qed.

  (* B1 = sum V q = 2a dA/dy, B2 = sum V p = 2a dA/dx (A in units of c), so B = 100 c |grad V|: the modulus of the
     curl of the linear interpolant, 100 converting 1/cm to 1/m *)
  Theorem nl_B_is_curl (g : egeom (F:=R)) (v0 v1 v2 : R) :
    0 < ga g ->
    let V3 := [v0; v1; v2] in
    let dVdx := v0 * dphidx g 0 + v1 * dphidx g 1 + v2 * dphidx g 2 in
    let dVdy := v0 * dphidy g 0 + v1 * dphidy g 1 + v2 * dphidy g 2 in
    nl_Bmag RA (ga g) (sum3 RA (fun j => vgetR V3 j * vgetR (gq g) j)) (sum3 RA (fun j => vgetR V3 j * vgetR (gp g) j))
      = 100 * c4pi RA * sqrt (dVdx * dVdx + dVdy * dVdy).
  Proof.
    intros Ha V3 dVdx dVdy. unfold nl_Bmag, sum3. rewrite dec002. ra_simpl. unfold V3. cbn [vget nth].
    fold (vgetR (gq g) 0) (vgetR (gq g) 1) (vgetR (gq g) 2) (vgetR (gp g) 0) (vgetR (gp g) 1) (vgetR (gp g) 2).
    set (B1 := 0 + v0 * vgetR (gq g) 0 + v1 * vgetR (gq g) 1 + v2 * vgetR (gq g) 2).
    set (B2 := 0 + v0 * vgetR (gp g) 0 + v1 * vgetR (gp g) 1 + v2 * vgetR (gp g) 2).
    assert (E : B1 * B1 + B2 * B2 = (2 * ga g) * (2 * ga g) * (dVdx * dVdx + dVdy * dVdy)).
    { unfold B1, B2, dVdx, dVdy, dphidx, dphidy. field. lra. }
    rewrite E. rewrite sqrt_mult_alt by nra. rewrite sqrt_square by lra. field. lra.
  Qed.

  (* GetBHProps' first result is H(|B|)/|B| (a reluctivity in SI units), for B <> 0, inside and beyond the table *)
  Lemma seg_scan_bhprops b : b <> 0 -> forall Bd Hd Sd,
    fst (fst (seg_scan RA (fun b0 b1 h0 h1 s0 s1 => bhprops_of RA b (hseg RA b b0 b1 h0 h1 s0 s1) (dhseg RA b b0 b1 h0 h1 s0 s1))
                       (czero RA, czero RA) b Bd Hd Sd))
    = fst (seg_scan RA (fun b0 b1 h0 h1 s0 s1 => hseg RA b b0 b1 h0 h1 s0 s1) (czero RA) b Bd Hd Sd) / b.
  Proof.
    intros Hb.
    assert (Z : fst (fst (czero RA, czero RA)) = fst (czero RA) / b :> R) by (unfold czero; cbn [fst snd]; ra_simpl; unfold Rdiv; ring).
    induction Bd as [|b0 Bd IH]; intros Hd Sd; [exact Z|].
    destruct Bd as [|b1 Bt]; [destruct Hd as [|h0 [|h1 Ht]]; destruct Sd as [|s0 [|s1 St]]; exact Z|].
    destruct Hd as [|h0 [|h1 Ht]]; [exact Z| destruct Sd as [|s0 [|s1 St]]; exact Z |].
    destruct Sd as [|s0 [|s1 St]]; [exact Z|exact Z|].
    rewrite !seg_scan_cons2.
    match goal with |- context [if ?c then _ else _] => destruct c end.
    - unfold bhprops_of, cdivd. cbn [fst snd]. ra_simpl. reflexivity.
    - apply IH.
  Qed.

  Theorem getBHProps_is_H_over_B (m : matR) (B : R) :
    (0 < bhpoints m)%nat -> B <> 0 ->
    fst (getBHProps RA m B) = fst (getH RA m B) / Rabs B.
  Proof.
    intros Hn HB. assert (Hb : Rabs B <> 0) by (apply Rabs_no_R0; exact HB).
    unfold getBHProps, getH, bhpoints in *. ra_simpl.
    destruct (Nat.eqb (length (mB m)) 0) eqn:En; [apply Nat.eqb_eq in En; lia|].
    destruct (Reqb (Rabs B) 0) eqn:Eb; [apply Reqb_true in Eb; contradiction|].
    destruct (Rltb (lastB RA m) (Rabs B)).
    - unfold bhprops_of, cdivd. cbn [fst snd]. ra_simpl. reflexivity.
    - pose proof (seg_scan_bhprops (Rabs B) Hb (mB m) (mH m) (mS m)) as E.
      destruct (seg_scan RA _ (czero RA, czero RA) (Rabs B) (mB m) (mH m) (mS m)) as [v dv]. cbn [fst snd] in *. exact E.
  Qed.

  (* hence the updated permeability: mu = 1/(muo v) = |B| / (muo H(|B|)) *)
  Corollary nl_mu_is_B_over_H (m : matR) (B : R) :
    (0 < bhpoints m)%nat -> B <> 0 ->
    fst (nl_mu_of RA m B) = 1 / (mMuo m * (fst (getH RA m B) / Rabs B)).
  Proof.
    intros Hn HB. unfold nl_mu_of. pose proof (getBHProps_is_H_over_B m B Hn HB) as E.
    destruct (getBHProps RA m B) as [v dv]. cbn [fst snd] in *. rewrite E. reflexivity.
  Qed.
End FluxDensity.

(* ========================================================================================== *)
(* 9. the tangent term Mn (LamType 0)                                                          *)
(* ========================================================================================== *)
Section Tangent.
  Variables (P : probR).

  (* B^2 of an element as a function of its three nodal values, and its partial derivative w.r.t. node w *)
  Definition Bsq (g : egeom (F:=R)) (v0 v1 v2 : R) : R :=
    let B1 := v0 * vgetR (gq g) 0 + v1 * vgetR (gq g) 1 + v2 * vgetR (gq g) 2 in
    let B2 := v0 * vgetR (gp g) 0 + v1 * vgetR (gp g) 1 + v2 * vgetR (gp g) 2 in
    c4pi RA * c4pi RA * (B1 * B1 + B2 * B2) / ((2 / 100 * ga g) * (2 / 100 * ga g)).
  Definition dBsq (g : egeom (F:=R)) (v0 v1 v2 : R) (w : nat) : R :=
    let B1 := v0 * vgetR (gq g) 0 + v1 * vgetR (gq g) 1 + v2 * vgetR (gq g) 2 in
    let B2 := v0 * vgetR (gp g) 0 + v1 * vgetR (gp g) 1 + v2 * vgetR (gp g) 2 in
    2 * c4pi RA * c4pi RA * (B1 * vgetR (gq g) w + B2 * vgetR (gp g) w) / ((2 / 100 * ga g) * (2 / 100 * ga g)).

  (* the flux density the update uses, squared, is Bsq *)
  Lemma nl_Bmag_sq (g : egeom (F:=R)) v0 v1 v2 : ga g <> 0 ->
    let V3 := [v0; v1; v2] in
    let B := nl_Bmag RA (ga g) (sum3 RA (fun j => vgetR V3 j * vgetR (gq g) j)) (sum3 RA (fun j => vgetR V3 j * vgetR (gp g) j)) in
    B * B = Bsq g v0 v1 v2.
  Proof.
    intros Ha V3 B. unfold B, nl_Bmag, sum3, Bsq. rewrite dec002. ra_simpl. unfold V3. cbn [vget nth].
    fold (vgetR (gq g) 0) (vgetR (gq g) 1) (vgetR (gq g) 2) (vgetR (gp g) 0) (vgetR (gp g) 1) (vgetR (gp g) 2).
    set (B1 := 0 + v0 * vgetR (gq g) 0 + v1 * vgetR (gq g) 1 + v2 * vgetR (gq g) 2).
    set (B2 := 0 + v0 * vgetR (gp g) 0 + v1 * vgetR (gp g) 1 + v2 * vgetR (gp g) 2).
    replace (v0 * vgetR (gq g) 0 + v1 * vgetR (gq g) 1 + v2 * vgetR (gq g) 2) with B1 by (unfold B1; ring).
    replace (v0 * vgetR (gp g) 0 + v1 * vgetR (gp g) 1 + v2 * vgetR (gp g) 2) with B2 by (unfold B2; ring).
    assert (Hs : sqrt (B1 * B1 + B2 * B2) * sqrt (B1 * B1 + B2 * B2) = B1 * B1 + B2 * B2) by (apply sqrt_sqrt; nra).
    transitivity (c4pi RA * c4pi RA * (sqrt (B1 * B1 + B2 * B2) * sqrt (B1 * B1 + B2 * B2)) / (2 / 100 * ga g * (2 / 100 * ga g))).
    - field. lra.
    - rewrite Hs. reflexivity.
  Qed.

  (* with Mx, My the element's stiffness parts, v_w = ((Mx+My) V)_w is, up to the factor -a/(20000 c^2), the
     derivative of B^2 w.r.t. the nodal value w *)
  Lemma v_is_dBsq (el : elemR) v0 v1 v2 w : (w < 3)%nat ->
    let g := mel_geom RA P el in
    ga g <> 0 ->
    let K := aneg RA (aone RA) / (aofZ RA 4 * ga g) in
    let Mx := stiff_add RA (repeat (azero RA) 9) K (gp g) in
    let My := stiff_add RA (repeat (azero RA) 9) K (gq g) in
    let V3 := [v0; v1; v2] in
    dBsq g v0 v1 v2 w
      = - (20000 * c4pi RA * c4pi RA / ga g) * sum3 RA (fun u => (m3get RA Mx w u + m3get RA My w u) * vgetR V3 u).
  Proof.
    intros Hw g Ha K Mx My V3.
    assert (Hgp : gp g = [vgetR (gp g) 0; vgetR (gp g) 1; vgetR (gp g) 2]) by reflexivity.
    assert (Hgq : gq g = [vgetR (gq g) 0; vgetR (gq g) 1; vgetR (gq g) 2]) by reflexivity.
    assert (Z9 : length (repeat (azero RA) 9) = 9%nat) by reflexivity.
    assert (GX : forall u, (u < 3)%nat -> m3get RA Mx w u = K * vgetR (gp g) w * vgetR (gp g) u).
    { intros u Hu. destruct (stiff_add_get (repeat (azero RA) 9) K (vgetR (gp g) 0) (vgetR (gp g) 1) (vgetR (gp g) 2) w u Z9 Hw Hu) as [_ G].
      rewrite <- Hgp in G. unfold Mx. rewrite G.
      replace (m3get RA (repeat (azero RA) 9) w u) with 0
        by (destruct w as [|[|[|w]]]; try lia; destruct u as [|[|[|u]]]; try lia; reflexivity). ring. }
    assert (GY : forall u, (u < 3)%nat -> m3get RA My w u = K * vgetR (gq g) w * vgetR (gq g) u).
    { intros u Hu. destruct (stiff_add_get (repeat (azero RA) 9) K (vgetR (gq g) 0) (vgetR (gq g) 1) (vgetR (gq g) 2) w u Z9 Hw Hu) as [_ G].
      rewrite <- Hgq in G. unfold My. rewrite G.
      replace (m3get RA (repeat (azero RA) 9) w u) with 0
        by (destruct w as [|[|[|w]]]; try lia; destruct u as [|[|[|u]]]; try lia; reflexivity). ring. }
    unfold sum3, dBsq. rewrite !GX, !GY by lia. unfold K, V3. cbn [vget nth]. ra_simpl.
    fold (vgetR (gq g) 0) (vgetR (gq g) 1) (vgetR (gq g) 2) (vgetR (gp g) 0) (vgetR (gp g) 1) (vgetR (gp g) 2) (vgetR (gq g) w) (vgetR (gp g) w).
    field. lra.
  Qed.

  (* THE TANGENT TERM (LamType 0, isotropic current permeability, block with a table):
       Mn[j][w] = (c/100) * dv * dB^2/dV_w * ((Mx+My) V)_j,     dv = d(H/B)/d(B^2) from GetBHProps,
     i.e. -Mn is the derivative w.r.t. V_w of the secant row  -(1/mu(B)) ((Mx+My) V)_j  at fixed (Mx+My) V, with
     1/mu = muo * H/B and muo = c/100 (c = 4 pi 1e-5): the exact Newton tangent of the nonlinear residual *)
  Theorem tangent_term_lam0 (m : matR) (blk : mblock (F:=R)) (el : elemR) (mu : R * R) v0 v1 v2 j w :
    bLamType blk = 0%nat -> fst mu = snd mu -> (0 < bhpoints m)%nat -> (j < 3)%nat -> (w < 3)%nat ->
    let g := mel_geom RA P el in
    ga g <> 0 ->
    let K := aneg RA (aone RA) / (aofZ RA 4 * ga g) in
    let Mx := stiff_add RA (repeat (azero RA) 9) K (gp g) in
    let My := stiff_add RA (repeat (azero RA) 9) K (gq g) in
    let V3 := [v0; v1; v2] in
    let B := nl_Bmag RA (ga g) (sum3 RA (fun j => vgetR V3 j * vgetR (gq g) j)) (sum3 RA (fun j => vgetR V3 j * vgetR (gp g) j)) in
    let r := nl_update RA m blk g Mx My V3 mu in
    fst r = (fst (nl_mu_of RA m B), fst (nl_mu_of RA m B)) /\
    m3get RA (snd r) j w
      = c4pi RA / 100 * snd (nl_mu_of RA m B) * dBsq g v0 v1 v2 w
        * sum3 RA (fun u => (m3get RA Mx j u + m3get RA My j u) * vgetR V3 u).
  Proof.
    intros HL Hmu Hn Hj Hw g Ha K Mx My V3 B r.
    pose proof (v_is_dBsq el v0 v1 v2 w Hw Ha) as HD. cbv zeta in HD. fold g K Mx My V3 in HD.
    unfold r, nl_update. cbv zeta. rewrite HL. cbn [Nat.eqb andb fst snd].
    assert (Hq : aeqb RA (fst mu) (snd mu) = true) by (apply Reqb_true; exact Hmu).
    rewrite Hq. apply Nat.ltb_lt in Hn. rewrite Hn. cbn [andb]. ra_simpl. fold B.
    destruct (nl_mu_of RA m B) as [mu' dv]. cbn [fst snd]. split; [reflexivity|].
    rewrite HD.
    set (s := fun x : nat => sum3 RA (fun u => (m3get RA Mx x u + m3get RA My x u) * vgetR V3 u)).
    match goal with |- context [map ?f [0%nat; 1%nat; 2%nat]] => set (vl := map f [0%nat; 1%nat; 2%nat]) end.
    assert (E : forall x, (x < 3)%nat -> vgetR vl x = s x).
    { intros x Hx. destruct x as [|[|[|x]]]; try lia; reflexivity. }
    change (sum3 RA (fun u => (m3get RA Mx j u + m3get RA My j u) * vgetR V3 u)) with (s j).
    change (sum3 RA (fun u => (m3get RA Mx w u + m3get RA My w u) * vgetR V3 u)) with (s w).
    destruct j as [|[|[|j]]]; try lia; destruct w as [|[|[|w]]]; try lia;
      unfold m3get, idx9; cbn [map nth fst snd Nat.mul Nat.add]; rewrite ?E by lia; field; exact Ha.
  Qed.
End Tangent.

(* ========================================================================================== *)
(* 10. exit test and relaxation                                                                *)
(* ========================================================================================== *)
Section Control.
  Lemma dec0125 : adec RA 125 (-3) = 1 / 8.
  Proof. unfold adec. cbn. lra. Qed.
  Lemma dec01 : adec RA 1 (-1) = 1 / 10.
  Proof. unfold adec. cbn. lra. Qed.

  (* (c) EXIT TEST.  A pass of a nonlinear problem ends the loop only if the solved iterate is exactly zero, or it
     is not the first pass and the relative change sqrt(sum (V-V_old)^2 / sum V^2) of THIS pass — measured before
     the relaxation — is below 100*Precision. *)
  Theorem nl_exit_test prec Vold V (c : nlctl (F:=R)) :
    cLinear c = false ->
    let c' := fst (nl_control RA prec Vold V c) in
    cLinear c' = true ->
    nl_y RA V = 0 \/
    ((0 < cIter c)%nat /\ cRes c' = sqrt (nl_x RA V Vold / nl_y RA V) /\ cRes c' < 100 * prec).
  Proof.
    intros Hc c'. unfold c', nl_control. rewrite Hc.
    destruct (aeqb RA (nl_y RA V) (azero RA)) eqn:Ey; [left; apply Reqb_true in Ey; exact Ey|].
    intros H. right.
    destruct (Nat.ltb 5 (cIter c)); cbn [fst cLinear cRes cIter orb] in *;
      apply andb_true_iff in H; destruct H as [H1 H2]; apply Rltb_true in H1; apply Nat.ltb_lt in H2;
      ra_simpl; repeat split; auto.
  Qed.

  (* ... and conversely the loop goes on while the change is not below the tolerance *)
  Theorem nl_no_exit prec Vold V (c : nlctl (F:=R)) :
    cLinear c = false -> nl_y RA V <> 0 ->
    (cIter c = 0%nat \/ 100 * prec <= sqrt (nl_x RA V Vold / nl_y RA V)) ->
    cLinear (fst (nl_control RA prec Vold V c)) = false.
  Proof.
    intros Hc Hy H. unfold nl_control. rewrite Hc.
    apply Reqb_false in Hy. ra_simpl. rewrite Hy.
    destruct (Nat.ltb 5 (cIter c)); cbn [fst cLinear cRes cIter orb];
      (destruct H as [-> | H]; [cbn; apply andb_false_r|]);
      apply andb_false_iff; left; apply Rltb_false; ra_simpl; lra.
  Qed.

  (* a linear problem (no table anywhere) leaves the loop after its single pass *)
  Theorem nl_linear_problem_one_pass prec Vold V (c : nlctl (F:=R)) :
    cLinear c = true -> cLinear (fst (nl_control RA prec Vold V c)) = true /\ snd (nl_control RA prec Vold V c) = V.
  Proof. intros Hc. unfold nl_control. rewrite Hc. cbn [fst snd cLinear cIter cRes cLast cRelax]. rewrite Hc. split; reflexivity. Qed.

  (* (e) RELAXATION SCHEDULE *)
  Theorem nl_relax_rule res lastres relax :
    (lastres < res -> 1 / 8 < relax -> nl_relax RA res lastres relax = relax / 2) /\
    (~ (lastres < res /\ 1 / 8 < relax) -> nl_relax RA res lastres relax = relax + 1 / 10 * (1 - relax)).
  Proof.
    unfold nl_relax. rewrite dec0125, dec01. ra_simpl. split.
    - intros H1 H2. apply Rltb_true in H1. apply Rltb_true in H2. rewrite H1, H2. reflexivity.
    - intros H. destruct (Rltb lastres res) eqn:E1; destruct (Rltb (1 / 8) relax) eqn:E2; cbn [andb]; try reflexivity.
      apply Rltb_true in E1. apply Rltb_true in E2. tauto.
  Qed.

  Theorem nl_relax_range res lastres relax :
    1 / 16 < relax <= 1 -> 1 / 16 < nl_relax RA res lastres relax <= 1.
  Proof.
    intros H. destruct (nl_relax_rule res lastres relax) as [R1 R2].
    destruct (Rlt_dec lastres res) as [L|L]; destruct (Rlt_dec (1 / 8) relax) as [G|G].
    - rewrite R1 by auto. lra.
    - rewrite R2 by tauto. lra.
    - rewrite R2 by tauto. lra.
    - rewrite R2 by tauto. lra.
  Qed.

  (* Relax starts at 1 (LoadProblemFile), is untouched during the first six passes (Iter <= 5) and stays in
     (1/16, 1] for ever *)
  Theorem nl_control_relax prec Vold V (c : nlctl (F:=R)) :
    let c' := fst (nl_control RA prec Vold V c) in
    ((cIter c <= 5)%nat -> cRelax c' = cRelax c /\ snd (nl_control RA prec Vold V c) = V) /\
    (1 / 16 < cRelax c <= 1 -> 1 / 16 < cRelax c' <= 1).
  Proof.
    unfold nl_control. destruct (cLinear c); [cbn [fst snd cRelax]; split; auto|].
    destruct (aeqb RA (nl_y RA V) (azero RA)); destruct (Nat.ltb 5 (cIter c)) eqn:E5; cbn [fst snd cRelax cRes cLast];
      (split; [intros H; apply Nat.ltb_lt in E5 || apply Nat.ltb_ge in E5; try lia; auto|]);
      try (intros H; apply nl_relax_range; exact H); auto.
  Qed.

  Lemma nl_ctl0_relax (P : probR) mats : cRelax (nl_ctl0 RA P mats) = 1 /\ cIter (nl_ctl0 RA P mats) = 0%nat.
  Proof. split; reflexivity. Qed.

  (* the relaxed iterate is the convex combination Relax*V + (1-Relax)*V_old, node by node *)
  Theorem nl_blend_nth relax : forall (V Vold : vecT R) i, (i < length V)%nat -> length Vold = length V ->
    vgetR (nl_blend RA relax V Vold) i = relax * vgetR V i + (1 - relax) * vgetR Vold i.
  Proof.
    induction V as [|v V IH]; intros Vold i Hi HL; [cbn in Hi; lia|].
    destruct Vold as [|vo Vold]; [discriminate HL|].
    destruct i as [|i]; [reflexivity|].
    unfold nl_blend, vget in *. cbn [combine map nth]. apply (IH Vold i); cbn in Hi, HL; lia.
  Qed.
End Control.

(* ========================================================================================== *)
(* 11. laminations on edge: the reduction to the linear case FAILS                              *)
(* ========================================================================================== *)
Section LamOnEdge.
  (* LamType 1, fill 1/2, straight-line table of relative permeability 2 (muo = 1, k = 1/2): the first pass
     (and the linear material) use mu1 = mu*t + (1-t) = 3/2, every later pass uses mu1 = mu*t = 1 *)
  Definition wit_blk : mblock (F:=R) := mkMBlock 2 2 0 0 0 0 0 0 0 1 (1 / 2).
  Definition wit_mat : matR := line_mat (1 / 2, 0) [0; 1] 2 1.
  Definition wit_g : egeom (F:=R) := mkEGeom [0; 0; 0] [0; 0; 0] [0; 0; 0] 1 0.

  Lemma wit_table_is_the_linear_material :
    incr (mB wit_mat) /\ hd 0 (mB wit_mat) = 0 /\ 1 / (mMuo wit_mat * (1 / 2)) = bmux wit_blk /\ bLamType wit_blk = 1%nat.
  Proof. cbn. repeat split; lra. Qed.

  Theorem lam_on_edge_not_linear : forall (Mx My V3 : vecT R),
    el_mu RA wit_blk = (3 / 2, 4 / 3) /\
    fst (nl_update RA wit_mat wit_blk wit_g Mx My V3 (el_mu RA wit_blk)) = (1, 4 / 3).
  Proof.
    intros Mx My V3. split.
    - unfold el_mu, wit_blk. cbn. ra_simpl. f_equal; lra.
    - unfold nl_update. cbv zeta. cbn [bLamType wit_blk Nat.eqb andb].
      replace (Nat.ltb 0 (bhpoints wit_mat)) with true by reflexivity. cbn [andb].
      unfold nl_mu_of, wit_mat.
      match goal with |- context [getBHProps RA _ ?b] =>
        rewrite (line_getBHProps (1 / 2) [0; 1] 2 1 b ltac:(cbn; lra) ltac:(cbn; lia) ltac:(reflexivity)) end.
      cbn [fst snd bLamFill wit_blk mMuo line_mat]. ra_simpl. f_equal; field.
  Qed.
End LamOnEdge.

(* ========================================================================================== *)
(* 12. the Wipe'd matrix of a later pass is as good as the Create'd one of the first             *)
(* ========================================================================================== *)
Section Wiped.
  Definition wipeM (M : matrixT R) : matrixT R := map (map (fun e : nat * R => let '(c, _) := e in (c, 0))) M.

  Lemma wipe_lM (L : linR) : lM (wipe RA L) = wipeM (lM L) /\ lb (wipe RA L) = vzero RA (ln L) /\ Sparse.lV (wipe RA L) = Sparse.lV L.
  Proof. repeat split. Qed.

  Lemma get_row_wiped q : forall r : rowT R, get_row RA q (map (fun e : nat * R => let '(c, _) := e in (c, 0)) r) = 0.
  Proof.
    induction r as [|[c x] r IH]; [reflexivity|]. cbn [map get_row].
    destruct (Nat.eqb c q); [reflexivity|]. destruct (Nat.ltb c q); [exact IH|reflexivity].
  Qed.

  Lemma mget_wiped (M : matrixT R) p q : mget RA (wipeM M) p q = 0.
  Proof.
    unfold mget, wipeM. destruct (Nat.ltb q p).
    - change (@nil (nat * R)) with (map (fun e : nat * R => let '(c, _) := e in (c, 0)) []) at 1.
      rewrite map_nth. apply get_row_wiped.
    - change (@nil (nat * R)) with (map (fun e : nat * R => let '(c, _) := e in (c, 0)) []) at 1.
      rewrite map_nth. apply get_row_wiped.
  Qed.

  Lemma Ax_zero (M : matrixT R) U i : (forall j, mget RA M i j = 0) -> Ax M U i = 0.
  Proof.
    intros H. unfold Ax. rewrite (rsum_ext _ (fun _ => 0)); [apply rsum_zero|]. intros j _. rewrite H. ring.
  Qed.

  Lemma sorted_from_wiped : forall (r : rowT R) lo, sorted_from lo r ->
    sorted_from lo (map (fun e : nat * R => let '(c, _) := e in (c, 0)) r).
  Proof. induction r as [|[c x] r IH]; intros lo H; [exact I|]. cbn in *. destruct H as [H1 H2]. split; auto. Qed.

  Lemma cols_lt_wiped n : forall (r : rowT R), cols_lt n r -> cols_lt n (map (fun e : nat * R => let '(c, _) := e in (c, 0)) r).
  Proof.
    induction r as [|[c x] r IH]; intros H; [constructor|]. apply Forall_cons_iff in H. destruct H as [H1 H2].
    cbn [map]. constructor; [exact H1|apply IH; exact H2].
  Qed.

  Lemma mat_wf_wiped (M : matrixT R) : mat_wf M -> mat_wf (wipeM M) /\ length (wipeM M) = length M.
  Proof.
    intros [Hok Hc]. assert (HL : length (wipeM M) = length M) by apply map_length.
    split; [|exact HL]. split.
    - intros i Hi. rewrite HL in Hi. specialize (Hok i Hi). unfold wipeM.
      change (@nil (nat * R)) with (map (fun e : nat * R => let '(c, _) := e in (c, 0)) []).
      rewrite map_nth. destruct (nth i M []) as [|[c x] t]; [contradiction|].
      cbn [map]. destruct Hok as [H1 H2]. split; [exact H1|apply sorted_from_wiped; exact H2].
    - intros i Hi. rewrite HL in *. specialize (Hc i Hi). unfold wipeM.
      change (@nil (nat * R)) with (map (fun e : nat * R => let '(c, _) := e in (c, 0)) []).
      rewrite map_nth. apply cols_lt_wiped. exact Hc.
  Qed.

  Lemma mget_mcreate n p q : mget RA (mcreate RA n) p q = 0.
  Proof.
    unfold mget, mcreate.
    assert (G : forall a b, get_row RA b (nth a (map (fun i : nat => [(i, azero RA)]) (seq 0 n)) []) = 0).
    { intros a b. destruct (Nat.lt_ge_cases a n) as [Ha|Ha].
      -
        rewrite (nth_indep _ [] ((fun i : nat => [(i, azero RA)]) 0%nat)) by (rewrite map_length, seq_length; exact Ha).
        rewrite (map_nth (fun i : nat => [(i, azero RA)]) (seq 0 n) 0%nat a). cbn [get_row]. destruct (Nat.eqb _ b); [reflexivity|]. destruct (Nat.ltb _ b); reflexivity.
      - rewrite nth_overflow by (rewrite map_length, seq_length; exact Ha). reflexivity. }
    destruct (Nat.ltb q p); apply G.
  Qed.

  (* the element loop started from the Wipe'd matrix of any earlier pass gives, row by row, the same equations as the
     element loop started from the Create'd matrix: with (a3) every pass of a straight-line problem poses the SAME
     linear equations as the linear material's single pass *)
  Theorem wiped_start_same_rows (P : probR) res U (els : list elemR) (M : matrixT R) i :
    mat_wf M -> Forall (elem_okM (length M)) els -> (i < length M)%nat ->
    let sw := fold_left (melem_step RA P res) els (wipeM M, vzero RA (length M)) in
    let sf := fold_left (melem_step RA P res) els (mcreate RA (length M), vzero RA (length M)) in
    Ax (fst sw) U i - vgetR (snd sw) i = Ax (fst sf) U i - vgetR (snd sf) i.
  Proof.
    intros Hwf Hok Hi sw sf.
    destruct (mat_wf_wiped M Hwf) as [Ww Lw].
    destruct (mloop_rows P res U els (wipeM M) (vzero RA (length M)) Ww
                ltac:(rewrite Lw; apply vzero_length) ltac:(rewrite Lw; exact Hok)) as (_ & _ & _ & HRw).
    pose proof (mat_wf_mcreate (length M)) as Wc.
    assert (Lc : length (mcreate RA (length M)) = length M) by apply mcreate_length.
    destruct (mloop_rows P res U els (mcreate RA (length M)) (vzero RA (length M)) Wc
                ltac:(rewrite Lc; apply vzero_length) ltac:(rewrite Lc; exact Hok)) as (_ & _ & _ & HRc).
    fold sw in HRw. fold sf in HRc.
    rewrite (HRw i ltac:(rewrite Lw; exact Hi)), (HRc i ltac:(rewrite Lc; exact Hi)).
    rewrite (Ax_zero (wipeM M) U i (fun j => mget_wiped M i j)).
    rewrite (Ax_zero (mcreate RA (length M)) U i (fun j => mget_mcreate (length M) i j)). reflexivity.
  Qed.
End Wiped.
