(* LocateProofs.v — proofs about the model in Locate.v (property C12). *)
From Coq Require Import ZArith List Bool Arith Lia Reals Lra Psatz Floats.
From XF Require Import Arith Locate.
Import ListNotations.

(* ==================================================================================== *)
(* 1. The search order: every index is examined, for every mesh size and every seed      *)
(* ==================================================================================== *)
Section Walk.
Local Open Scope Z_scope.

Lemma hi_next_mod sz hi : 0 < sz -> 0 <= hi < sz -> hi_next sz hi = (hi + 1) mod sz.
Proof.
  intros Hs Hh. unfold hi_next. destruct (hi + 1 >=? sz) eqn:E.
  - apply Z.geb_le in E. assert (hi + 1 = sz) as -> by lia. now rewrite Z_mod_same_full.
  - rewrite Z.geb_leb in E. apply Z.leb_gt in E. now rewrite Z.mod_small by lia.
Qed.

Lemma lo_next_mod sz lo : 0 < sz -> 0 <= lo < sz -> lo_next sz lo = (lo - 1) mod sz.
Proof.
  intros Hs Hl. unfold lo_next. destruct (lo - 1 <? 0) eqn:E.
  - apply Z.ltb_lt in E. assert (lo = 0) as -> by lia.
    apply Z.mod_unique_pos with (q := -1); lia.
  - apply Z.ltb_ge in E. now rewrite Z.mod_small by lia.
Qed.

Lemma hi_next_range sz hi : 0 < sz -> 0 <= hi < sz -> 0 <= hi_next sz hi < sz.
Proof. intros. rewrite hi_next_mod by auto. apply Z.mod_pos_bound; lia. Qed.
Lemma lo_next_range sz lo : 0 < sz -> 0 <= lo < sz -> 0 <= lo_next sz lo < sz.
Proof. intros. rewrite lo_next_mod by auto. apply Z.mod_pos_bound; lia. Qed.

(* closed form of the walk: the d-th iteration looks at (hi+d) mod sz and (lo-d) mod sz *)
Lemma walk_In : forall fuel sz j hi lo d,
  0 < sz -> 0 <= hi < sz -> 0 <= lo < sz ->
  1 <= d -> j + 2 * (d - 1) < sz -> (Z.to_nat d <= fuel)%nat ->
  In ((hi + d) mod sz) (walk fuel sz j hi lo) /\ In ((lo - d) mod sz) (walk fuel sz j hi lo).
Proof.
  induction fuel as [|f IH]; intros sz j hi lo d Hs Hh Hl Hd Hj Hf.
  - lia.
  - cbn [walk]. assert (j <? sz = true) as -> by (apply Z.ltb_lt; lia).
    destruct (Z.eq_dec d 1) as [->|Hd1].
    + split.
      * left. apply hi_next_mod; auto.
      * right; left. apply lo_next_mod; auto.
    + destruct (IH sz (j + 2) (hi_next sz hi) (lo_next sz lo) (d - 1)) as [H1 H2];
        auto using hi_next_range, lo_next_range; try lia.
      split; right; right.
      * replace ((hi + d) mod sz) with ((hi_next sz hi + (d - 1)) mod sz); [exact H1|].
        rewrite hi_next_mod, Zplus_mod_idemp_l by auto. f_equal. ring.
      * replace ((lo - d) mod sz) with ((lo_next sz lo - (d - 1)) mod sz); [exact H2|].
        rewrite lo_next_mod, Zminus_mod_idemp_l by auto. f_equal. ring.
Qed.

Lemma walk_range : forall fuel sz j hi lo i,
  0 < sz -> 0 <= hi < sz -> 0 <= lo < sz -> In i (walk fuel sz j hi lo) -> 0 <= i < sz.
Proof.
  induction fuel as [|f IH]; intros sz j hi lo i Hs Hh Hl Hi; cbn [walk] in Hi.
  - destruct Hi.
  - destruct (j <? sz); [|destruct Hi].
    destruct Hi as [<-|[<-|Hi]]; auto using hi_next_range, lo_next_range.
    eapply IH; [| | |exact Hi]; auto using hi_next_range, lo_next_range.
Qed.

(* more fuel than loop_fuel changes nothing: the O branch of the fuelled loops is dead *)
Lemma walk_fuel : forall f1 f2 sz j hi lo,
  sz - j <= 2 * Z.of_nat f1 -> (f1 <= f2)%nat -> walk f1 sz j hi lo = walk f2 sz j hi lo.
Proof.
  induction f1 as [|f1 IH]; intros f2 sz j hi lo Hc Hf.
  - destruct f2; cbn [walk]; auto. assert (j <? sz = false) as -> by (apply Z.ltb_ge; lia). auto.
  - destruct f2 as [|f2]; [lia|]. cbn [walk]. destruct (j <? sz) eqn:E; auto.
    f_equal. f_equal. apply IH; lia.
Qed.

Lemma loop_fuel_enough sz : 0 <= sz -> sz - 0 <= 2 * Z.of_nat (loop_fuel sz).
Proof. intros. unfold loop_fuel. rewrite Nat2Z.inj_succ, Z2Nat.id by lia. lia. Qed.

Theorem spiral_complete : forall sz k i,
  0 < sz -> 0 <= k < sz -> 0 <= i < sz -> In i (visited sz k).
Proof.
  intros sz k i Hs Hk Hi. unfold visited.
  destruct (Z.eq_dec i k) as [->|Hne]; [now left|right].
  set (d := (i - k) mod sz).
  assert (Hd : 0 <= d < sz) by (apply Z.mod_pos_bound; lia).
  assert (Hd0 : d <> 0).
  { intro H0. unfold d in H0. apply Z.mod_divide in H0; [|lia].
    destruct H0 as [q Hq]. assert (q = 0) by nia. subst q. lia. }
  assert (Hi' : i = (k + d) mod sz).
  { unfold d. rewrite Zplus_mod_idemp_r. replace (k + (i - k)) with i by ring.
    now rewrite Z.mod_small by lia. }
  destruct (Z_lt_dec (2 * (d - 1)) sz) as [Hc|Hc].
  - destruct (walk_In (loop_fuel sz) sz 0 k k d) as [H _]; auto; try lia.
    { unfold loop_fuel. lia. }
    now rewrite <- Hi' in H.
  - destruct (walk_In (loop_fuel sz) sz 0 k k (sz - d)) as [_ H]; auto; try lia.
    { unfold loop_fuel. lia. }
    replace (k - (sz - d)) with (k + d + (-1) * sz) in H by ring.
    rewrite Z_mod_plus_full in H. now rewrite <- Hi' in H.
Qed.

Lemma visited_range sz k i : 0 < sz -> 0 <= k < sz -> In i (visited sz k) -> 0 <= i < sz.
Proof.
  intros Hs Hk [<-|H]; auto. eapply walk_range; eauto.
Qed.

Lemma clamp_range sz k : 0 < sz -> 0 <= clamp sz k < sz.
Proof.
  intros Hs. unfold clamp. destruct (k <? 0) eqn:E1; cbn [orb]; [lia|].
  destruct (k >=? sz) eqn:E2; [lia|].
  apply Z.ltb_ge in E1. rewrite Z.geb_leb in E2. apply Z.leb_gt in E2. lia.
Qed.

Lemma clamp_id sz k : 0 <= k < sz -> clamp sz k = k.
Proof.
  intros Hk. unfold clamp. assert (k <? 0 = false) as -> by (apply Z.ltb_ge; lia).
  assert (k >=? sz = false) as -> by (rewrite Z.geb_leb; apply Z.leb_gt; lia). reflexivity.
Qed.
End Walk.

(* ==================================================================================== *)
(* 2. InTriangle = first hit along the walk; sound, complete, history-independent         *)
(*    (generic in the arithmetic and in the triangle test)                                *)
(* ==================================================================================== *)
Section Search.
Local Open Scope Z_scope.
Context {F : Type} (A : Arith F).

Lemma spiral_spec (test : Z -> bool) (M : mesh F) (x y : F) : forall fuel sz j hi lo,
  0 < sz -> 0 <= hi < sz -> 0 <= lo < sz ->
  let r := spiral A test M x y fuel sz j hi lo in
  (r = -1 /\ forall i, In i (walk fuel sz j hi lo) -> circle_ok A M x y i && test i = false)
  \/ (0 <= r < sz /\ In r (walk fuel sz j hi lo) /\ circle_ok A M x y r = true /\ test r = true).
Proof.
  induction fuel as [|f IH]; intros sz j hi lo Hs Hh Hl; cbn [spiral walk].
  - left. split; auto. intros i [].
  - destruct (j <? sz) eqn:Ej.
    2:{ left. split; auto. intros i []. }
    pose proof (hi_next_range sz hi Hs Hh) as Hh'. pose proof (lo_next_range sz lo Hs Hl) as Hl'.
    destruct (circle_ok A M x y (hi_next sz hi) && test (hi_next sz hi)) eqn:E1.
    { right. apply andb_true_iff in E1. destruct E1. repeat split; auto; try lia. now left. }
    destruct (circle_ok A M x y (lo_next sz lo) && test (lo_next sz lo)) eqn:E2.
    { right. apply andb_true_iff in E2. destruct E2. repeat split; auto; try lia. right; now left. }
    destruct (IH sz (j + 2) (hi_next sz hi) (lo_next sz lo) Hs Hh' Hl') as [[Hr Hall]|(Hr & Hin & Hc & Ht)].
    + left. split; auto. intros i [<-|[<-|Hi]]; auto.
    + right. repeat split; auto; try lia. right; right; auto.
Qed.

Variable test : mesh F -> F -> F -> Z -> bool.

Theorem in_triangle_sound (M : mesh F) (k : Z) (x y : F) (e k' : Z) :
  in_triangle A test M k x y = (e, k') -> 0 <= e ->
  let sz := nelems (elems M) in
  test M x y e = true /\ k' = e /\
  (e = clamp sz k \/ (0 <= e < sz /\ circle_ok A M x y e = true)).
Proof.
  intros H He sz. unfold in_triangle in H. fold sz in H.
  destruct (test M x y (clamp sz k)) eqn:E0.
  { inversion H; subst. auto. }
  destruct (Z_lt_dec 0 sz) as [Hs|Hs].
  - pose proof (clamp_range sz k Hs) as Hc.
    destruct (spiral_spec (test M x y) M x y (loop_fuel sz) sz 0 (clamp sz k) (clamp sz k) Hs Hc Hc)
      as [[Hr _]|(Hr & _ & Hci & Ht)].
    + rewrite Hr in H. cbn in H. inversion H; subst. lia.
    + destruct (_ <? 0) eqn:E; [apply Z.ltb_lt in E; lia|].
      inversion H; subst. auto.
  - (* empty mesh: the loop body never runs *)
    unfold loop_fuel in H. cbn [spiral] in H.
    assert (0 <? sz = false) as Hz by (apply Z.ltb_ge; lia). rewrite Hz in H.
    cbn in H. inversion H; subst. lia.
Qed.

Theorem in_triangle_fail (M : mesh F) (k : Z) (x y : F) :
  let sz := nelems (elems M) in
  fst (in_triangle A test M k x y) < 0 ->
  in_triangle A test M k x y = (-1, clamp sz k) /\
  test M x y (clamp sz k) = false /\
  forall i, 0 <= i < sz -> circle_ok A M x y i && test M x y i = false.
Proof.
  intros sz. unfold in_triangle. fold sz.
  destruct (test M x y (clamp sz k)) eqn:E0.
  { cbn [fst]. intros H. destruct (Z_lt_dec 0 sz) as [Hs|Hs].
    - pose proof (clamp_range sz k Hs). lia.
    - unfold clamp in *. destruct (k <? 0) eqn:E1; cbn [orb] in *; [lia|].
      destruct (k >=? sz) eqn:E2; [lia|]. apply Z.ltb_ge in E1. lia. }
  destruct (Z_lt_dec 0 sz) as [Hs|Hs].
  - pose proof (clamp_range sz k Hs) as Hc.
    destruct (spiral_spec (test M x y) M x y (loop_fuel sz) sz 0 (clamp sz k) (clamp sz k) Hs Hc Hc)
      as [[Hr Hall]|(Hr & _ & Hci & Ht)].
    + rewrite Hr. cbn. intros _. repeat split; auto.
      intros i Hi. destruct (spiral_complete sz (clamp sz k) i Hs Hc Hi) as [<-|Hin].
      * rewrite E0. apply andb_false_r.
      * apply Hall, Hin.
    + destruct (_ <? 0) eqn:E; [apply Z.ltb_lt in E; lia|]. cbn [fst]. lia.
  - intros _. unfold loop_fuel. cbn [spiral].
    assert (0 <? sz = false) as -> by (apply Z.ltb_ge; lia). cbn.
    repeat split; auto. intros i Hi. lia.
Qed.

Theorem in_triangle_complete (M : mesh F) (k : Z) (x y : F) (i : Z) :
  0 <= i < nelems (elems M) -> test M x y i = true -> circle_ok A M x y i = true ->
  0 <= fst (in_triangle A test M k x y).
Proof.
  intros Hi Ht Hc.
  destruct (Z_lt_dec (fst (in_triangle A test M k x y)) 0) as [Hneg|]; [|lia].
  destruct (in_triangle_fail M k x y Hneg) as (_ & _ & Hall).
  specialize (Hall i Hi). rewrite Ht, Hc in Hall. discriminate.
Qed.

(* found / not found is a property of the point, not of the search state, as soon as the
   bounding circle never rejects an element that passes the test *)
Theorem found_iff_exists (M : mesh F) (k : Z) (x y : F) :
  let sz := nelems (elems M) in
  0 < sz ->
  (forall i, 0 <= i < sz -> test M x y i = true -> circle_ok A M x y i = true) ->
  (0 <= fst (in_triangle A test M k x y) <-> exists i, 0 <= i < sz /\ test M x y i = true).
Proof.
  intros sz Hs Hcirc. split.
  - intros H. destruct (in_triangle A test M k x y) as [e k'] eqn:E. cbn [fst] in H.
    destruct (in_triangle_sound M k x y e k' E H) as (Ht & _ & [He|[He _]]).
    + exists e. split; auto. rewrite He. apply clamp_range, Hs.
    + exists e. auto.
  - intros (i & Hi & Ht). eapply in_triangle_complete; eauto.
Qed.

Corollary found_history_independent (M : mesh F) (k1 k2 : Z) (x y : F) :
  let sz := nelems (elems M) in
  0 < sz ->
  (forall i, 0 <= i < sz -> test M x y i = true -> circle_ok A M x y i = true) ->
  (0 <= fst (in_triangle A test M k1 x y) <-> 0 <= fst (in_triangle A test M k2 x y)).
Proof.
  intros sz Hs Hc. rewrite (found_iff_exists M k1 x y Hs Hc), (found_iff_exists M k2 x y Hs Hc). tauto.
Qed.

(* the state after a query: the element found, or the (clamped) old state *)
Lemma in_triangle_state (M : mesh F) (k : Z) (x y : F) :
  let r := in_triangle A test M k x y in
  snd r = if fst r <? 0 then clamp (nelems (elems M)) k else fst r.
Proof.
  cbn zeta. destruct (Z_lt_dec (fst (in_triangle A test M k x y)) 0) as [H|H].
  - destruct (in_triangle_fail M k x y H) as (E & _). rewrite E. reflexivity.
  - destruct (in_triangle A test M k x y) as [e k'] eqn:E. cbn [fst snd] in *.
    destruct (in_triangle_sound M k x y e k' E) as (_ & -> & _); [lia|].
    assert (e <? 0 = false) as -> by (apply Z.ltb_ge; lia). reflexivity.
Qed.
End Search.

(* ==================================================================================== *)
(* 3. Real reading: the edge tests are orientation signs, the bounding circle contains    *)
(*    the closed triangle, InTriangle decides membership in the meshed region             *)
(* ==================================================================================== *)
Section RealGeometry.
Local Open Scope R_scope.

(* textbook spec: twice the signed area of (nj, nk, P) *)
Definition orient (nj nk : node R) (x y : R) : R :=
  (nx nk - nx nj) * (y - ny nj) - (ny nk - ny nj) * (x - nx nj).

(* textbook spec: P is a convex combination of the three corners *)
Definition in_closed_triangle (n0 n1 n2 : node R) (x y : R) : Prop :=
  exists l0 l1 l2 : R, 0 <= l0 /\ 0 <= l1 /\ 0 <= l2 /\ l0 + l1 + l2 = 1 /\
    x = l0 * nx n0 + l1 * nx n1 + l2 * nx n2 /\
    y = l0 * ny n0 + l1 * ny n1 + l2 * ny n2.

Lemma edge_ord_R N x y pj pk :
  edge_ord RA N x y pj pk = true <-> 0 <= orient (getn RA N pj) (getn RA N pk) x y.
Proof.
  unfold edge_ord, orient. generalize (getn RA N pj) (getn RA N pk). intros nj nk.
  destruct (Nat.ltb pj pk); ra_simpl; rewrite negb_true_iff.
  - rewrite Rltb_false. split; intros; lra.
  - rewrite Rltb_false.
    replace ((nx nj - nx nk) * (y - ny nk) - (ny nj - ny nk) * (x - nx nk))
      with (- ((nx nk - nx nj) * (y - ny nj) - (ny nk - ny nj) * (x - nx nj))) by ring.
    split; intros; lra.
Qed.

Lemma edge_hp_R N x y pj pk :
  edge_hp RA N x y pj pk = true <-> 0 <= orient (getn RA N pj) (getn RA N pk) x y.
Proof.
  unfold edge_hp, orient. generalize (getn RA N pj) (getn RA N pk). intros nj nk.
  ra_simpl. rewrite negb_true_iff, Rltb_false. split; intros; lra.
Qed.

(* in the real reading the two copies of the edge test are the same function *)
Lemma edge_hp_ord_R N x y pj pk : edge_hp RA N x y pj pk = edge_ord RA N x y pj pk.
Proof.
  destruct (edge_ord RA N x y pj pk) eqn:E.
  - apply edge_hp_R, edge_ord_R, E.
  - destruct (edge_hp RA N x y pj pk) eqn:E'; auto.
    apply edge_hp_R, edge_ord_R in E'. congruence.
Qed.

Definition all_orient (n0 n1 n2 : node R) (x y : R) : Prop :=
  0 <= orient n0 n1 x y /\ 0 <= orient n1 n2 x y /\ 0 <= orient n2 n0 x y.

Lemma tri_edges_ord_R N e x y :
  tri_edges (edge_ord RA) N e x y = true <->
  all_orient (getn RA N (p0 e)) (getn RA N (p1 e)) (getn RA N (p2 e)) x y.
Proof.
  unfold tri_edges, all_orient. rewrite !andb_true_iff, !edge_ord_R. tauto.
Qed.

Lemma tri_edges_hp_R N e x y :
  tri_edges (edge_hp RA) N e x y = true <->
  all_orient (getn RA N (p0 e)) (getn RA N (p1 e)) (getn RA N (p2 e)) x y.
Proof.
  unfold tri_edges, all_orient. rewrite !andb_true_iff, !edge_hp_R. tauto.
Qed.

Lemma in_range_guard (sz i : Z) : (0 <= i < sz)%Z -> ((i <? 0)%Z || (i >=? sz)%Z)%bool = false.
Proof.
  intros H. apply orb_false_iff. split; [apply Z.ltb_ge; lia|].
  rewrite Z.geb_leb. apply Z.leb_gt. lia.
Qed.

Lemma test_ord_R (M : mesh R) x y i : (0 <= i < nelems (elems M))%Z ->
  (test_ord RA M x y i = true <->
   let '(n0, n1, n2) := elem_nodes RA M (gete RA (elems M) i) in all_orient n0 n1 n2 x y).
Proof.
  intros Hi. unfold test_ord. rewrite in_range_guard by exact Hi.
  unfold elem_nodes. apply tri_edges_ord_R.
Qed.

Lemma test_ord_out_of_range {F} (A : Arith F) (M : mesh F) x y i :
  ~ (0 <= i < nelems (elems M))%Z -> test_ord A M x y i = false.
Proof.
  intros Hi. unfold test_ord.
  destruct (i <? 0)%Z eqn:E1; cbn [orb]; auto.
  destruct (i >=? nelems (elems M))%Z eqn:E2; auto.
  apply Z.ltb_ge in E1. rewrite Z.geb_leb in E2. apply Z.leb_gt in E2. lia.
Qed.

Lemma test_hp_R (M : mesh R) x y i : (0 <= i)%Z ->
  (test_hp RA M x y i = true <->
   let '(n0, n1, n2) := elem_nodes RA M (gete RA (elems M) i) in all_orient n0 n1 n2 x y).
Proof.
  intros Hi. unfold test_hp. assert ((i <? 0)%Z = false) as -> by (apply Z.ltb_ge; lia).
  unfold elem_nodes. apply tri_edges_hp_R.
Qed.

(* da of the code is twice the signed area, and the three orientation values sum to it *)
Lemma orient_sum n0 n1 n2 x y :
  orient n0 n1 x y + orient n1 n2 x y + orient n2 n0 x y = coef_da RA n0 n1 n2.
Proof. unfold orient, coef_da, coef_b, coef_c. ra_simpl. ring. Qed.

Lemma da_is_orient n0 n1 n2 : coef_da RA n0 n1 n2 = orient n0 n1 (nx n2) (ny n2).
Proof. unfold orient, coef_da, coef_b, coef_c. ra_simpl. ring. Qed.

(* for a counter-clockwise element: all three edge values >= 0 iff barycentric coordinates
   >= 0, i.e. iff the point is in the closed triangle *)
Theorem orient_iff_barycentric n0 n1 n2 x y :
  0 < coef_da RA n0 n1 n2 ->
  (all_orient n0 n1 n2 x y <-> in_closed_triangle n0 n1 n2 x y).
Proof.
  intros Hda. pose proof (orient_sum n0 n1 n2 x y) as Hsum.
  set (da := coef_da RA n0 n1 n2) in *. unfold all_orient, in_closed_triangle. split.
  - intros (H01 & H12 & H20).
    exists (orient n1 n2 x y / da), (orient n2 n0 x y / da), (orient n0 n1 x y / da).
    assert (Hinv : 0 < / da) by now apply Rinv_0_lt_compat.
    repeat split.
    + unfold Rdiv. apply Rmult_le_pos; lra.
    + unfold Rdiv. apply Rmult_le_pos; lra.
    + unfold Rdiv. apply Rmult_le_pos; lra.
    + rewrite <- !Rdiv_plus_distr. replace (orient n1 n2 x y + orient n2 n0 x y + orient n0 n1 x y) with da by lra.
      field. lra.
    + unfold da in *. clear Hsum Hinv H01 H12 H20. revert Hda.
      unfold orient, coef_da, coef_b, coef_c. ra_simpl. intros. field. lra.
    + unfold da in *. clear Hsum Hinv H01 H12 H20. revert Hda.
      unfold orient, coef_da, coef_b, coef_c. ra_simpl. intros. field. lra.
  - intros (l0 & l1 & l2 & H0 & H1 & H2 & Hs & -> & ->).
    assert (E01 : orient n0 n1 (l0 * nx n0 + l1 * nx n1 + l2 * nx n2) (l0 * ny n0 + l1 * ny n1 + l2 * ny n2) = l2 * da).
    { unfold da. replace l0 with (1 - l1 - l2) by lra. unfold orient, coef_da, coef_b, coef_c. ra_simpl. ring. }
    assert (E12 : orient n1 n2 (l0 * nx n0 + l1 * nx n1 + l2 * nx n2) (l0 * ny n0 + l1 * ny n1 + l2 * ny n2) = l0 * da).
    { unfold da. replace l2 with (1 - l0 - l1) by lra. unfold orient, coef_da, coef_b, coef_c. ra_simpl. ring. }
    assert (E20 : orient n2 n0 (l0 * nx n0 + l1 * nx n1 + l2 * nx n2) (l0 * ny n0 + l1 * ny n1 + l2 * ny n2) = l1 * da).
    { unfold da. replace l2 with (1 - l0 - l1) by lra. unfold orient, coef_da, coef_b, coef_c. ra_simpl. ring. }
    rewrite E01, E12, E20. repeat split; apply Rmult_le_pos; lra.
Qed.

(* a clockwise or degenerate-with-nonzero... element: nothing passes when da < 0 *)
Lemma orient_cw_empty n0 n1 n2 x y : coef_da RA n0 n1 n2 < 0 -> ~ all_orient n0 n1 n2 x y.
Proof.
  intros Hda (H01 & H12 & H20). pose proof (orient_sum n0 n1 n2 x y). lra.
Qed.

(* --- bounding circle -------------------------------------------------------------------- *)
Definition dist2 (c : R * R) (n : node R) : R := sqr RA (nx n - fst c) + sqr RA (ny n - snd c).

Lemma rsqr_step_ge c r n : r <= rsqr_step RA c r n /\ dist2 c n <= rsqr_step RA c r n.
Proof.
  unfold rsqr_step, dist2. ra_simpl. fold (Rltb r (sqr RA (nx n - fst c) + sqr RA (ny n - snd c))).
  destruct (Rltb r _) eqn:E.
  - apply Rltb_true in E. lra.
  - apply Rltb_false in E. lra.
Qed.

Lemma rsqr_of_ge c n0 n1 n2 :
  dist2 c n0 <= rsqr_of RA c n0 n1 n2 /\ dist2 c n1 <= rsqr_of RA c n0 n1 n2 /\ dist2 c n2 <= rsqr_of RA c n0 n1 n2.
Proof.
  unfold rsqr_of.
  pose proof (rsqr_step_ge c 0 n0) as [_ A0].
  pose proof (rsqr_step_ge c (rsqr_step RA c 0 n0) n1) as [B0 B1].
  pose proof (rsqr_step_ge c (rsqr_step RA c (rsqr_step RA c 0 n0) n1) n2) as [C0 C1].
  change (azero RA) with 0. lra.
Qed.

(* rsqr is the MAXIMUM of the three squared corner distances (not only an upper bound) *)
Lemma rsqr_of_is_max c n0 n1 n2 :
  rsqr_of RA c n0 n1 n2 = Rmax (Rmax (Rmax 0 (dist2 c n0)) (dist2 c n1)) (dist2 c n2).
Proof.
  assert (St : forall r n, rsqr_step RA c r n = Rmax r (dist2 c n)).
  { intros r n. unfold rsqr_step, dist2. ra_simpl.
    fold (Rltb r (sqr RA (nx n - fst c) + sqr RA (ny n - snd c))).
    destruct (Rltb r _) eqn:E.
    - apply Rltb_true in E. rewrite Rmax_right; lra.
    - apply Rltb_false in E. rewrite Rmax_left; lra. }
  unfold rsqr_of. rewrite !St. reflexivity.
Qed.

(* convexity of the squared distance *)
Lemma jensen_sq (l0 l1 l2 ux0 uy0 ux1 uy1 ux2 uy2 : R) :
  0 <= l0 -> 0 <= l1 -> 0 <= l2 -> l0 + l1 + l2 = 1 ->
  (l0 * ux0 + l1 * ux1 + l2 * ux2) * (l0 * ux0 + l1 * ux1 + l2 * ux2) +
  (l0 * uy0 + l1 * uy1 + l2 * uy2) * (l0 * uy0 + l1 * uy1 + l2 * uy2)
  <= l0 * (ux0 * ux0 + uy0 * uy0) + l1 * (ux1 * ux1 + uy1 * uy1) + l2 * (ux2 * ux2 + uy2 * uy2).
Proof.
  intros H0 H1 H2 Hs.
  assert (Id : l0 * (ux0 * ux0 + uy0 * uy0) + l1 * (ux1 * ux1 + uy1 * uy1) + l2 * (ux2 * ux2 + uy2 * uy2)
             - ((l0 * ux0 + l1 * ux1 + l2 * ux2) * (l0 * ux0 + l1 * ux1 + l2 * ux2) +
                (l0 * uy0 + l1 * uy1 + l2 * uy2) * (l0 * uy0 + l1 * uy1 + l2 * uy2))
             = l0 * l1 * ((ux0 - ux1) * (ux0 - ux1) + (uy0 - uy1) * (uy0 - uy1))
             + l0 * l2 * ((ux0 - ux2) * (ux0 - ux2) + (uy0 - uy2) * (uy0 - uy2))
             + l1 * l2 * ((ux1 - ux2) * (ux1 - ux2) + (uy1 - uy2) * (uy1 - uy2))).
  { replace l2 with (1 - l0 - l1) by lra. ring. }
  assert (Sq : forall a b : R, 0 <= a * a + b * b) by (intros; nra).
  pose proof (Rmult_le_pos _ _ (Rmult_le_pos _ _ H0 H1) (Sq (ux0 - ux1) (uy0 - uy1))).
  pose proof (Rmult_le_pos _ _ (Rmult_le_pos _ _ H0 H2) (Sq (ux0 - ux2) (uy0 - uy2))).
  pose proof (Rmult_le_pos _ _ (Rmult_le_pos _ _ H1 H2) (Sq (ux1 - ux2) (uy1 - uy2))).
  lra.
Qed.

(* every point of the closed triangle is inside the bounding circle, whatever the centre *)
Theorem circle_contains_triangle (c : R * R) n0 n1 n2 x y :
  in_closed_triangle n0 n1 n2 x y ->
  (fst c - x) * (fst c - x) + (snd c - y) * (snd c - y) <= rsqr_of RA c n0 n1 n2.
Proof.
  intros (l0 & l1 & l2 & H0 & H1 & H2 & Hs & -> & ->).
  destruct (rsqr_of_ge c n0 n1 n2) as (G0 & G1 & G2).
  set (m := rsqr_of RA c n0 n1 n2) in *. unfold dist2, sqr in *. revert G0 G1 G2. ra_simpl. intros G0 G1 G2.
  pose proof (jensen_sq l0 l1 l2 (nx n0 - fst c) (ny n0 - snd c) (nx n1 - fst c) (ny n1 - snd c)
                (nx n2 - fst c) (ny n2 - snd c) H0 H1 H2 Hs) as J.
  replace ((fst c - (l0 * nx n0 + l1 * nx n1 + l2 * nx n2)) * (fst c - (l0 * nx n0 + l1 * nx n1 + l2 * nx n2)) +
           (snd c - (l0 * ny n0 + l1 * ny n1 + l2 * ny n2)) * (snd c - (l0 * ny n0 + l1 * ny n1 + l2 * ny n2)))
    with ((l0 * (nx n0 - fst c) + l1 * (nx n1 - fst c) + l2 * (nx n2 - fst c)) *
          (l0 * (nx n0 - fst c) + l1 * (nx n1 - fst c) + l2 * (nx n2 - fst c)) +
          (l0 * (ny n0 - snd c) + l1 * (ny n1 - snd c) + l2 * (ny n2 - snd c)) *
          (l0 * (ny n0 - snd c) + l1 * (ny n1 - snd c) + l2 * (ny n2 - snd c))).
  2:{ replace l2 with (1 - l0 - l1) by lra. ring. }
  pose proof (Rmult_le_compat_l _ _ _ H0 G0). pose proof (Rmult_le_compat_l _ _ _ H1 G1).
  pose proof (Rmult_le_compat_l _ _ _ H2 G2).
  assert (l0 * m + l1 * m + l2 * m = m) by (replace l2 with (1 - l0 - l1) by lra; ring).
  lra.
Qed.
End RealGeometry.

(* ==================================================================================== *)
(* 4. Real reading, whole mesh: InTriangle decides membership in the meshed region         *)
(* ==================================================================================== *)
Section RealLocate.
Local Open Scope R_scope.

Definition enodes (M : mesh R) (i : Z) : node R * node R * node R := elem_nodes RA M (gete RA (elems M) i).

(* rsqr of every element is what OpenDocument computes from its corners and its ctr *)
Definition rsqr_loaded (M : mesh R) : Prop :=
  forall i, (0 <= i < nelems (elems M))%Z ->
    let e := gete RA (elems M) i in
    let '(n0, n1, n2) := enodes M i in
    rsqr e = rsqr_of RA (cx e, cy e) n0 n1 n2.

(* every element is counter-clockwise (what Triangle produces and the solvers assume) *)
Definition mesh_ccw (M : mesh R) : Prop :=
  forall i, (0 <= i < nelems (elems M))%Z ->
    let '(n0, n1, n2) := enodes M i in 0 < coef_da RA n0 n1 n2.

(* the meshed region: union of the closed triangles *)
Definition in_mesh_region (M : mesh R) (x y : R) : Prop :=
  exists i, (0 <= i < nelems (elems M))%Z /\
    let '(n0, n1, n2) := enodes M i in in_closed_triangle n0 n1 n2 x y.

Lemma gete_load N Rl L Ms lc eo i : (0 <= i < Z.of_nat (length Rl))%Z ->
  gete RA (elems (load RA N Rl L Ms lc eo)) i = load_elem RA N L Ms lc eo (nth (Z.to_nat i) Rl (mkRelem 0 0 0 0)).
Proof.
  intros Hi. unfold gete, load, load_gen, load_elem. cbn [elems].
  rewrite nth_indep with (d' := load_elem_gen RA (element_D RA lc eo) N L Ms (mkRelem 0 0 0 0)).
  - apply map_nth.
  - rewrite map_length. lia.
Qed.

Lemma nelems_load N Rl L Ms lc eo : nelems (elems (load RA N Rl L Ms lc eo)) = Z.of_nat (length Rl).
Proof. unfold nelems, load, load_gen. cbn [elems]. now rewrite map_length. Qed.

Theorem load_rsqr_loaded N Rl L Ms lc eo : rsqr_loaded (load RA N Rl L Ms lc eo).
Proof.
  intros i Hi. rewrite nelems_load in Hi. unfold enodes. rewrite gete_load by exact Hi.
  unfold load_elem, load_elem_gen, elem_nodes, load, load_gen. cbn [rsqr cx cy p0 p1 p2 nodes]. reflexivity.
Qed.

Lemma circle_ok_R (M : mesh R) x y i :
  circle_ok RA M x y i = true <->
  let e := gete RA (elems M) i in (cx e - x) * (cx e - x) + (cy e - y) * (cy e - y) <= rsqr e.
Proof. unfold circle_ok. ra_simpl. apply Rleb_true. Qed.

Theorem test_implies_circle (M : mesh R) x y i :
  rsqr_loaded M -> mesh_ccw M -> (0 <= i < nelems (elems M))%Z ->
  test_ord RA M x y i = true -> circle_ok RA M x y i = true.
Proof.
  intros HL HC Hi Ht. apply circle_ok_R. cbn zeta.
  specialize (HL i Hi). specialize (HC i Hi). apply (test_ord_R M x y i Hi) in Ht.
  unfold enodes in *. destruct (elem_nodes RA M (gete RA (elems M) i)) as [[n0 n1] n2].
  cbn zeta in HL. rewrite HL.
  apply (circle_contains_triangle (cx (gete RA (elems M) i), cy (gete RA (elems M) i))).
  apply orient_iff_barycentric; assumption.
Qed.

Lemma test_hp_ord_R (M : mesh R) x y i : (0 <= i < nelems (elems M))%Z ->
  test_hp RA M x y i = test_ord RA M x y i.
Proof.
  intros Hi. unfold test_hp, test_ord. rewrite in_range_guard by exact Hi.
  assert ((i <? 0)%Z = false) as -> by (apply Z.ltb_ge; lia).
  unfold tri_edges. now rewrite !edge_hp_ord_R.
Qed.

(* a returned index designates an element whose closed triangle contains the point *)
Theorem located_element_contains (M : mesh R) k x y e k' :
  mesh_ccw M ->
  in_triangle RA (test_ord RA) M k x y = (e, k') -> (0 <= e)%Z ->
  (0 <= e < nelems (elems M))%Z /\
  let '(n0, n1, n2) := enodes M e in in_closed_triangle n0 n1 n2 x y.
Proof.
  intros HC H He.
  destruct (in_triangle_sound RA (test_ord RA) M k x y e k' H He) as (Ht & _ & _).
  assert (Hr : (0 <= e < nelems (elems M))%Z).
  { destruct (Z_lt_dec e (nelems (elems M))); [lia|].
    rewrite test_ord_out_of_range in Ht by lia. discriminate. }
  split; [exact Hr|].
  apply (test_ord_R M x y e Hr) in Ht. specialize (HC e Hr). unfold enodes in *.
  destruct (elem_nodes RA M (gete RA (elems M) e)) as [[n0 n1] n2].
  apply orient_iff_barycentric; assumption.
Qed.

(* THE location theorem: for every seed k, found iff the point is in the meshed region *)
Theorem locate_exact (M : mesh R) k x y :
  rsqr_loaded M -> mesh_ccw M -> (0 < nelems (elems M))%Z ->
  ((0 <= fst (in_triangle RA (test_ord RA) M k x y))%Z <-> in_mesh_region M x y).
Proof.
  intros HL HC Hs.
  rewrite (found_iff_exists RA (test_ord RA) M k x y Hs).
  2:{ intros i Hi Ht. now apply test_implies_circle. }
  unfold in_mesh_region. split; intros (i & Hi & H); exists i; split; auto.
  - apply (test_ord_R M x y i Hi) in H. specialize (HC i Hi). unfold enodes in *.
    destruct (elem_nodes RA M (gete RA (elems M) i)) as [[n0 n1] n2].
    apply orient_iff_barycentric; assumption.
  - apply (test_ord_R M x y i Hi). specialize (HC i Hi). unfold enodes in *.
    destruct (elem_nodes RA M (gete RA (elems M) i)) as [[n0 n1] n2].
    apply orient_iff_barycentric; assumption.
Qed.

(* the same for the heat-flow post-processor's own InTriangleTest *)
Theorem locate_exact_hp (M : mesh R) k x y :
  rsqr_loaded M -> mesh_ccw M -> (0 < nelems (elems M))%Z ->
  ((0 <= fst (in_triangle RA (test_hp RA) M k x y))%Z <-> in_mesh_region M x y).
Proof.
  intros HL HC Hs.
  rewrite (found_iff_exists RA (test_hp RA) M k x y Hs).
  2:{ intros i Hi Ht. rewrite test_hp_ord_R in Ht by exact Hi. now apply test_implies_circle. }
  unfold in_mesh_region. split; intros (i & Hi & H); exists i; split; auto.
  - rewrite test_hp_ord_R in H by exact Hi.
    apply (test_ord_R M x y i Hi) in H. specialize (HC i Hi). unfold enodes in *.
    destruct (elem_nodes RA M (gete RA (elems M) i)) as [[n0 n1] n2].
    apply orient_iff_barycentric; assumption.
  - rewrite test_hp_ord_R by exact Hi.
    apply (test_ord_R M x y i Hi). specialize (HC i Hi). unfold enodes in *.
    destruct (elem_nodes RA M (gete RA (elems M) i)) as [[n0 n1] n2].
    apply orient_iff_barycentric; assumption.
Qed.
End RealLocate.

(* ==================================================================================== *)
(* 5. Real reading: the interpolant and the field                                        *)
(* ==================================================================================== *)
Section RealInterp.
Local Open Scope R_scope.

Ltac unfold_interp :=
  unfold interp, coef_da, coef_a, coef_b, coef_c; ra_simpl.

Lemma interp_nodal0 n0 n1 n2 : coef_da RA n0 n1 n2 <> 0 -> interp RA n0 n1 n2 (nx n0) (ny n0) = nv n0.
Proof. unfold_interp. intros. field. assumption. Qed.
Lemma interp_nodal1 n0 n1 n2 : coef_da RA n0 n1 n2 <> 0 -> interp RA n0 n1 n2 (nx n1) (ny n1) = nv n1.
Proof. unfold_interp. intros. field. assumption. Qed.
Lemma interp_nodal2 n0 n1 n2 : coef_da RA n0 n1 n2 <> 0 -> interp RA n0 n1 n2 (nx n2) (ny n2) = nv n2.
Proof. unfold_interp. intros. field. assumption. Qed.

(* corner number i of a triple *)
Definition knode (T : node R * node R * node R) (i : nat) : node R :=
  let '(n0, n1, n2) := T in match i with O => n0 | S O => n1 | _ => n2 end.
Definition tinterp (T : node R * node R * node R) (x y : R) : R :=
  let '(n0, n1, n2) := T in interp RA n0 n1 n2 x y.
Definition tda (T : node R * node R * node R) : R :=
  let '(n0, n1, n2) := T in coef_da RA n0 n1 n2.

Theorem interp_nodal T i : tda T <> 0 -> (i < 3)%nat ->
  tinterp T (nx (knode T i)) (ny (knode T i)) = nv (knode T i).
Proof.
  destruct T as [[n0 n1] n2]. cbn [tda tinterp knode]. intros Hda Hi.
  destruct i as [|[|[|i]]]; [apply interp_nodal0|apply interp_nodal1|apply interp_nodal2|lia]; assumption.
Qed.

(* nodal values sampled from an affine function: the interpolant IS that function *)
Theorem interp_affine n0 n1 n2 al be ga x y :
  coef_da RA n0 n1 n2 <> 0 ->
  nv n0 = al + be * nx n0 + ga * ny n0 ->
  nv n1 = al + be * nx n1 + ga * ny n1 ->
  nv n2 = al + be * nx n2 + ga * ny n2 ->
  interp RA n0 n1 n2 x y = al + be * x + ga * y.
Proof. unfold_interp. intros Hda -> -> ->. field. assumption. Qed.

(* the interpolant is affine: on the segment between two corners it is the linear blend of the
   two corner values — it does not depend on the third corner *)
Theorem interp_on_edge T i j t : tda T <> 0 -> (i < 3)%nat -> (j < 3)%nat -> i <> j ->
  tinterp T ((1 - t) * nx (knode T i) + t * nx (knode T j)) ((1 - t) * ny (knode T i) + t * ny (knode T j))
  = (1 - t) * nv (knode T i) + t * nv (knode T j).
Proof.
  destruct T as [[n0 n1] n2]. cbn [tda tinterp]. intros Hda Hi Hj Hij.
  destruct i as [|[|[|i]]]; destruct j as [|[|[|j]]]; try lia; cbn [knode];
    revert Hda; unfold_interp; intros; field; assumption.
Qed.

(* in general: affine in (x,y) with constant gradient (sum V_i b_i / da, sum V_i c_i / da) *)
Lemma interp_increment n0 n1 n2 x y dx dy : coef_da RA n0 n1 n2 <> 0 ->
  interp RA n0 n1 n2 (x + dx) (y + dy) - interp RA n0 n1 n2 x y =
  (let '(b0, b1, b2) := coef_b RA n0 n1 n2 in (nv n0 * b0 + nv n1 * b1 + nv n2 * b2) / coef_da RA n0 n1 n2) * dx +
  (let '(c0, c1, c2) := coef_c RA n0 n1 n2 in (nv n0 * c0 + nv n1 * c1 + nv n2 * c2) / coef_da RA n0 n1 n2) * dy.
Proof. unfold_interp. intros. field. assumption. Qed.

Lemma element_E_R lc n0 n1 n2 : coef_da RA n0 n1 n2 <> 0 -> lc <> 0 ->
  element_E RA lc n0 n1 n2 =
  (- ((let '(b0, b1, b2) := coef_b RA n0 n1 n2 in (nv n0 * b0 + nv n1 * b1 + nv n2 * b2) / coef_da RA n0 n1 n2) / lc),
   - ((let '(c0, c1, c2) := coef_c RA n0 n1 n2 in (nv n0 * c0 + nv n1 * c1 + nv n2 * c2) / coef_da RA n0 n1 n2) / lc)).
Proof.
  unfold element_E, gradE_step, I_times, coef_da, coef_b, coef_c. ra_simpl. cbn [fst snd]. intros Hda Hlc.
  f_equal; field; split; assumption.
Qed.

(* element level: with smoothing off, E = -grad V (per metre), D = eo eps E, nrg = D.E/2 *)
Theorem element_field_is_gradient lc eo (m : mat R) n0 n1 n2 x y dx dy :
  coef_da RA n0 n1 n2 <> 0 -> lc <> 0 ->
  let E := element_E RA lc n0 n1 n2 in
  let D := element_D RA lc eo m n0 n1 n2 in
  interp RA n0 n1 n2 (x + dx) (y + dy) - interp RA n0 n1 n2 x y = - lc * (fst E * dx + snd E * dy) /\
  fst D = eo * mex m * fst E /\ snd D = eo * mey m * snd E.
Proof.
  intros Hda Hlc E D. split.
  - unfold E. rewrite element_E_R, interp_increment by assumption. cbn [fst snd]. field. assumption.
  - unfold D, element_D. fold E. unfold I_times, aecf. ra_simpl. cbn [fst snd]. split; field.
Qed.

Definition dr : relem := mkRelem 0 0 0 0.

(* what getPointValues returns for a point attributed to element i of a loaded mesh *)
Theorem point_values_spec N Rl L Ms lc eo i x y :
  (0 <= i < Z.of_nat (length Rl))%Z ->
  let M := load RA N Rl L Ms lc eo in
  let r := nth (Z.to_nat i) Rl dr in
  let n0 := getn RA N (r0 r) in let n1 := getn RA N (r1 r) in let n2 := getn RA N (r2 r) in
  let m := nth (lblk (nth (rlbl r) L (dlabel RA))) Ms (dmat RA) in
  coef_da RA n0 n1 n2 <> 0 -> lc <> 0 -> eo <> 0 -> mex m <> 0 -> mey m <> 0 ->
  let '(V, Dx, Dy, Ex, Ey, epx, epy, nrg) := point_values RA M i x y in
  V = interp RA n0 n1 n2 x y /\
  epx = mex m /\ epy = mey m /\
  (forall dx dy, interp RA n0 n1 n2 (x + dx) (y + dy) - V = - lc * (Ex * dx + Ey * dy)) /\
  Dx = eo * epx * Ex /\ Dy = eo * epy * Ey /\
  nrg = (Dx * Ex + Dy * Ey) / 2.
Proof.
  intros Hi M r n0 n1 n2 m Hda Hlc Heo Hex Hey.
  subst M. unfold point_values. rewrite gete_load by exact Hi.
  fold dr. fold r. unfold elem_nodes, load_elem, load_elem_gen, load, load_gen. cbn [p0 p1 p2 blk eDx eDy nodes mats eps0].
  fold n0 n1 n2 m.
  destruct (element_field_is_gradient lc eo m n0 n1 n2 x y 0 0 Hda Hlc) as (_ & HD1 & HD2).
  cbn zeta in HD1, HD2.
  set (E := element_E RA lc n0 n1 n2) in *. set (D := element_D RA lc eo m n0 n1 n2) in *.
  unfold I_times, aecf. ra_simpl. cbn [fst snd].
  assert (E1 : fst D / ((mex m + 0 * mey m) / 1 * eo) = fst E) by (rewrite HD1; field; auto).
  assert (E2 : snd D / (1 * mey m / 1 * eo) = snd E) by (rewrite HD2; field; auto).
  rewrite E1, E2.
  repeat split.
  - field.
  - field.
  - intros dx dy.
    destruct (element_field_is_gradient lc eo m n0 n1 n2 x y dx dy Hda Hlc) as (HG & _ & _).
    exact HG.
  - rewrite HD1. field.
  - rewrite HD2. field.
  - field.
Qed.
End RealInterp.

(* ==================================================================================== *)
(* 6. Across a shared edge: continuity of the interpolant, no gap between the two tests    *)
(* ==================================================================================== *)
Section SharedEdge.
Local Open Scope R_scope.

(* node index number i of an element *)
Definition pidx {F} (e : elem F) (i : nat) : nat :=
  match i with O => p0 e | S O => p1 e | _ => p2 e end.

Lemma knode_enodes (M : mesh R) (e : Z) (i : nat) :
  knode (enodes M e) i = getn RA (nodes M) (pidx (gete RA (elems M) e) i).
Proof. unfold enodes, elem_nodes, knode, pidx. destruct i as [|[|i]]; reflexivity. Qed.

(* two elements that share two mesh nodes return the same interpolated value at every point
   of the common edge (and it is the linear blend of the two nodal values) *)
Theorem interp_continuous_across_edge (M : mesh R) (e1 e2 : Z) (i1 j1 i2 j2 : nat) (t : R) :
  (i1 < 3)%nat -> (j1 < 3)%nat -> i1 <> j1 -> (i2 < 3)%nat -> (j2 < 3)%nat -> i2 <> j2 ->
  tda (enodes M e1) <> 0 -> tda (enodes M e2) <> 0 ->
  pidx (gete RA (elems M) e1) i1 = pidx (gete RA (elems M) e2) i2 ->
  pidx (gete RA (elems M) e1) j1 = pidx (gete RA (elems M) e2) j2 ->
  let P := getn RA (nodes M) (pidx (gete RA (elems M) e1) i1) in
  let Q := getn RA (nodes M) (pidx (gete RA (elems M) e1) j1) in
  let x := (1 - t) * nx P + t * nx Q in
  let y := (1 - t) * ny P + t * ny Q in
  tinterp (enodes M e1) x y = tinterp (enodes M e2) x y /\
  tinterp (enodes M e1) x y = (1 - t) * nv P + t * nv Q.
Proof.
  intros Hi1 Hj1 Hn1 Hi2 Hj2 Hn2 Hd1 Hd2 Ei Ej P Q x y.
  pose proof (interp_on_edge (enodes M e1) i1 j1 t Hd1 Hi1 Hj1 Hn1) as H1.
  pose proof (interp_on_edge (enodes M e2) i2 j2 t Hd2 Hi2 Hj2 Hn2) as H2.
  rewrite !knode_enodes in H1, H2. rewrite <- Ei, <- Ej in H2. fold P Q x y in H1, H2.
  split; [now rewrite H1, H2|exact H1].
Qed.

Lemma orient_swap nj nk x y : orient nk nj x y = - orient nj nk x y.
Proof. unfold orient. ring. Qed.

(* real reading: for every point at least one of the two elements on an edge accepts it *)
Theorem shared_edge_gap_free_R N x y (p q : nat) :
  edge_ord RA N x y p q = true \/ edge_ord RA N x y q p = true.
Proof.
  rewrite !edge_ord_R, (orient_swap (getn RA N p) (getn RA N q)).
  destruct (Rle_dec 0 (orient (getn RA N p) (getn RA N q) x y)); [left|right]; lra.
Qed.

Theorem shared_edge_gap_free_hp_R N x y (p q : nat) :
  edge_hp RA N x y p q = true \/ edge_hp RA N x y q p = true.
Proof. rewrite !edge_hp_ord_R. apply shared_edge_gap_free_R. Qed.
End SharedEdge.

(* ---- on ANY arithmetic whose "<" against zero is asymmetric — in particular binary64 ---- *)
Definition lt_asym {F} (A : Arith F) : Prop :=
  forall z, altb A z (azero A) = true -> altb A (azero A) z = false.

(* The index-ordered edge test evaluates literally the same expression z in the two elements
   that share the edge (from the lower to the higher node index); one rejects on z<0, the other
   on z>0, so at least one accepts: no point can fall between two neighbouring elements because
   of rounding. *)
Theorem shared_edge_gap_free_gen {F} (A : Arith F) (N : list (node F)) (x y : F) (p q : nat) :
  lt_asym A -> p <> q -> edge_ord A N x y p q || edge_ord A N x y q p = true.
Proof.
  intros HA Hpq. unfold edge_ord.
  destruct (Nat.ltb p q) eqn:E1; destruct (Nat.ltb q p) eqn:E2.
  - apply Nat.ltb_lt in E1. apply Nat.ltb_lt in E2. lia.
  - match goal with |- negb (altb A ?z _) || _ = true => destruct (altb A z (azero A)) eqn:Ez end.
    + rewrite (HA _ Ez). reflexivity.
    + reflexivity.
  - match goal with |- _ || negb (altb A ?z _) = true => destruct (altb A z (azero A)) eqn:Ez end.
    + rewrite (HA _ Ez). reflexivity.
    + apply orb_true_r.
  - apply Nat.ltb_ge in E1. apply Nat.ltb_ge in E2. lia.
Qed.

Lemma FA_lt_asym : lt_asym FA.
Proof.
  intros z. cbn [altb azero FA]. rewrite !ltb_spec.
  change (Prim2SF 0%float) with (S754_zero false).
  destruct (Prim2SF z) as [s|s| |s m e]; try destruct s; cbn; congruence.
Qed.

Lemma RA_lt_asym : lt_asym RA.
Proof.
  intros z. cbn [altb azero RA]. rewrite Rltb_true, Rltb_false. lra.
Qed.

(* binary64 reading (uses Coq's FloatAxioms) *)
Theorem shared_edge_gap_free_float (N : list (node float)) (x y : float) (p q : nat) :
  p <> q -> edge_ord FA N x y p q || edge_ord FA N x y q p = true.
Proof. apply shared_edge_gap_free_gen, FA_lt_asym. Qed.

(* HPProc::InTriangleTest does NOT order the edge by node index: the two neighbours evaluate
   two different roundings of the same real quantity, and both can come out negative. *)
Definition gap_nodes : list (node float) :=
  [mkNode (-0x1.b8fbd9fc6f7d4p+0)%float 0x1.37b639cd1136cp+2%float 0%float;
   mkNode 0x1.69db42559f768p+1%float (-0x1.9bea46b6a4a04p+0)%float 0%float].
Definition gap_x : float := (-0x1.81bcc3e32fe24p-1)%float.
Definition gap_y : float := 0x1.bebda065cb75dp+1%float.

Theorem hp_shared_edge_gap_refuted :
  exists (N : list (node float)) (x y : float) (p q : nat), p <> q /\
    edge_hp FA N x y p q = false /\ edge_hp FA N x y q p = false.
Proof.
  exists gap_nodes, gap_x, gap_y, 0%nat, 1%nat. split; [discriminate|].
  split; vm_compute; reflexivity.
Qed.

(* ==================================================================================== *)
(* 7. Glue                                                                              *)
(* ==================================================================================== *)
Lemma spiral_fuel {F} (A : Arith F) (test : Z -> bool) (M : mesh F) (x y : F) : forall f1 f2 sz j hi lo,
  (sz - j <= 2 * Z.of_nat f1)%Z -> (f1 <= f2)%nat ->
  spiral A test M x y f1 sz j hi lo = spiral A test M x y f2 sz j hi lo.
Proof.
  induction f1 as [|f1 IH]; intros f2 sz j hi lo Hc Hf.
  - destruct f2; cbn [spiral]; auto. assert ((j <? sz)%Z = false) as -> by (apply Z.ltb_ge; lia). auto.
  - destruct f2 as [|f2]; [lia|]. cbn [spiral]. destruct (j <? sz)%Z eqn:E; auto.
    destruct (circle_ok A M x y (hi_next sz hi) && test (hi_next sz hi)); auto.
    destruct (circle_ok A M x y (lo_next sz lo) && test (lo_next sz lo)); auto.
    apply IH; lia.
Qed.

Theorem test_iff_barycentric (M : mesh R) (x y : R) (i : Z) :
  (0 <= i < nelems (elems M))%Z ->
  (let '(n0, n1, n2) := enodes M i in 0 < coef_da RA n0 n1 n2)%R ->
  (test_ord RA M x y i = true <->
   let '(n0, n1, n2) := enodes M i in in_closed_triangle n0 n1 n2 x y).
Proof.
  intros Hi Hda. rewrite (test_ord_R M x y i Hi). unfold enodes in *.
  destruct (elem_nodes RA M (gete RA (elems M) i)) as [[n0 n1] n2].
  apply orient_iff_barycentric, Hda.
Qed.

Theorem test_hp_iff_barycentric (M : mesh R) (x y : R) (i : Z) :
  (0 <= i < nelems (elems M))%Z ->
  (let '(n0, n1, n2) := enodes M i in 0 < coef_da RA n0 n1 n2)%R ->
  (test_hp RA M x y i = true <->
   let '(n0, n1, n2) := enodes M i in in_closed_triangle n0 n1 n2 x y).
Proof. intros Hi Hda. rewrite test_hp_ord_R by exact Hi. now apply test_iff_barycentric. Qed.

(* ==================================================================================== *)
(* 8. Heat flow and magnetics: load-time data and point values (real reading)             *)
(* ==================================================================================== *)
Section OtherPostProcessors.
Local Open Scope R_scope.

Lemma gete_load_gen fld N Rl L Ms lc eo i : (0 <= i < Z.of_nat (length Rl))%Z ->
  gete RA (elems (load_gen RA fld N Rl L Ms lc eo)) i = load_elem_gen RA fld N L Ms (nth (Z.to_nat i) Rl dr).
Proof.
  intros Hi. unfold gete, load_gen. cbn [elems].
  rewrite nth_indep with (d' := load_elem_gen RA fld N L Ms dr).
  - apply map_nth.
  - rewrite map_length. lia.
Qed.

Lemma nelems_load_gen fld N Rl L Ms lc eo : nelems (elems (load_gen RA fld N Rl L Ms lc eo)) = Z.of_nat (length Rl).
Proof. unfold nelems, load_gen. cbn [elems]. now rewrite map_length. Qed.

(* ctr / rsqr are computed by the same text in all three post-processors *)
Theorem load_gen_rsqr_loaded fld N Rl L Ms lc eo : rsqr_loaded (load_gen RA fld N Rl L Ms lc eo).
Proof.
  intros i Hi. rewrite nelems_load_gen in Hi. unfold enodes. rewrite gete_load_gen by exact Hi.
  unfold load_elem_gen, elem_nodes, load_gen. cbn [rsqr cx cy p0 p1 p2 nodes]. reflexivity.
Qed.

Theorem heat_values_spec N Rl L Ms lc eo i x y :
  (0 <= i < Z.of_nat (length Rl))%Z ->
  let M := load_h RA N Rl L Ms lc eo in
  let r := nth (Z.to_nat i) Rl dr in
  let n0 := getn RA N (r0 r) in let n1 := getn RA N (r1 r) in let n2 := getn RA N (r2 r) in
  let m := nth (lblk (nth (rlbl r) L (dlabel RA))) Ms (dmat RA) in
  coef_da RA n0 n1 n2 <> 0 -> lc <> 0 -> mex m <> 0 -> mey m <> 0 ->
  let '(T, Fx, Fy, Gx, Gy, Kx, Ky, _) := point_values_h RA M i x y in
  T = interp RA n0 n1 n2 x y /\
  Kx = mex m /\ Ky = mey m /\
  (forall dx dy, interp RA n0 n1 n2 (x + dx) (y + dy) - T = - lc * (Gx * dx + Gy * dy)) /\
  Fx = Kx * Gx /\ Fy = Ky * Gy.
Proof.
  intros Hi M r n0 n1 n2 m Hda Hlc Hkx Hky.
  subst M. unfold point_values_h, load_h. rewrite gete_load_gen by exact Hi.
  fold r. unfold elem_nodes, load_elem_gen, load_gen. cbn [p0 p1 p2 blk eDx eDy nodes mats].
  fold n0 n1 n2 m.
  assert (HE : forall dx dy, interp RA n0 n1 n2 (x + dx) (y + dy) - interp RA n0 n1 n2 x y =
                - lc * (fst (element_E RA lc n0 n1 n2) * dx + snd (element_E RA lc n0 n1 n2) * dy)).
  { intros dx dy. rewrite element_E_R, interp_increment by assumption. cbn [fst snd]. field. assumption. }
  unfold element_F, kn_step, heat_K, I_times, aecf, three.
  set (E := element_E RA lc n0 n1 n2) in *. ra_simpl. cbn [fst snd].
  assert (G1 : (fst E * (0 + (mex m + 0 * mey m) / 3 + (mex m + 0 * mey m) / 3 + (mex m + 0 * mey m) / 3) +
                0 * snd E * (0 + 1 * mey m / 3 + 1 * mey m / 3 + 1 * mey m / 3)) / 1 / ((mex m + 0 * mey m) / 1) = fst E)
    by (field; auto).
  assert (G2 : 1 * snd E * (0 + 1 * mey m / 3 + 1 * mey m / 3 + 1 * mey m / 3) / 1 / (1 * mey m / 1) = snd E)
    by (field; auto).
  rewrite G1, G2.
  repeat split.
  - field.
  - field.
  - exact HE.
  - field.
  - field.
Qed.

Theorem mag_values_spec N Rl L Ms lc eo i x y :
  (0 <= i < Z.of_nat (length Rl))%Z ->
  let M := load_m RA N Rl L Ms lc eo in
  let r := nth (Z.to_nat i) Rl dr in
  let n0 := getn RA N (r0 r) in let n1 := getn RA N (r1 r) in let n2 := getn RA N (r2 r) in
  coef_da RA n0 n1 n2 <> 0 -> lc <> 0 ->
  let '(Az, B1, B2, _, _, _, _, _) := point_values_m RA M i x y in
  Az = interp RA n0 n1 n2 x y /\
  (forall dx dy, interp RA n0 n1 n2 (x + dx) (y + dy) - Az = lc * (B1 * dy - B2 * dx)).
Proof.
  intros Hi M r n0 n1 n2 Hda Hlc.
  subst M. unfold point_values_m, load_m. rewrite gete_load_gen by exact Hi.
  fold r. unfold elem_nodes, load_elem_gen, load_gen. cbn [p0 p1 p2 blk eDx eDy nodes mats].
  fold n0 n1 n2. split; [reflexivity|].
  intros dx dy. rewrite interp_increment by assumption.
  revert Hda. unfold element_B, coef_da, coef_b, coef_c. ra_simpl. cbn [fst snd]. intros Hda.
  field. split; assumption.
Qed.
End OtherPostProcessors.
