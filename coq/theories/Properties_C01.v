(* Properties_C01.v — theorem statements for C01 (mesher output is a conforming triangulation).
   Triangle is not modelled: the theorems are the soundness of the result checker MeshCheck.v that
   is evaluated on every produced mesh, and the discrete Green identity behind its coverage
   certificate.  Proofs: MeshCheckProofs.v (exact integer arithmetic, all meshes, all sizes). *)
From Coq Require Import ZArith List Bool Lia.
From XF Require Import Sums MeshCheck MeshCheckProofs.
Import ListNotations.
Local Open Scope Z_scope.

(* every directed edge once  ==>  the doubled element areas sum to the shoelace sum of the boundary *)
Theorem C01_discrete_green : forall (X : list pt) (ts : list tri),
  NoDup (all_dedges ts) -> zsum (area2 X) ts = zsum (cross X) (boundary_spec ts).
Proof. exact green. Qed.
Print Assumptions C01_discrete_green.

(* the edge table decides membership and certifies that no directed edge occurs twice, i.e. every
   undirected edge is shared by at most two elements, with opposite orientation *)
Theorem C01_manifold_check_sound : forall (n : Z) (ts : list tri) (tab : FMapPositive.PositiveMap.t Z),
  0 < n -> chk_range n ts = true -> edge_table n ts = Some tab ->
  NoDup (all_dedges ts) /\
  forall e, edge_ok n e -> (has_edge n tab e = true <-> In e (all_dedges ts)).
Proof. exact manifold_sound. Qed.
Print Assumptions C01_manifold_check_sound.

(* what an accepted report establishes: indices in range, every element counter-clockwise with
   positive area, edge-manifold, area identity, every boundary edge on a drawn entity *)
Theorem C01_accepted_mesh_is_valid : forall (M : mesh) (P : pslg) (pidx : list Z) (ppts : list pt) (pmarks : list Z),
  report_ok (check_mesh M P pidx ppts pmarks) = true ->
  let X := mX M in let ts := mtris M in let n := Z.of_nat (length X) in
  chk_range n ts = true /\
  (forall t, In t ts -> 0 < area2 X t) /\
  NoDup (all_dedges ts) /\
  zsum (area2 X) ts = zsum (cross X) (boundary_spec ts) /\
  (forall e, In e (boundary_spec ts) -> on_some_segment X (psegs P) e = true).
Proof. exact check_mesh_sound. Qed.
Print Assumptions C01_accepted_mesh_is_valid.

(* non-vacuity: a two-triangle square passes the core checks *)
Example C01_square_ok :
  let X := [(0, 0); (4, 0); (4, 4); (0, 4)] in
  let ts := [(0, 1, 2); (0, 2, 3)] in
  chk_range 4 ts = true /\ chk_ccw X ts = true /\ edge_table 4 ts <> None /\
  zsum (area2 X) ts = 32.
Proof. vm_compute. repeat split; try reflexivity. discriminate. Qed.
