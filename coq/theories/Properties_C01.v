(* Properties_C01.v — theorem statements for C01 (mesher output is a conforming triangulation).
   Triangle is not modelled: the theorems are the soundness of the result checker MeshCheck.v that
   is evaluated on every produced mesh, and the discrete Green identity behind its coverage
   certificate.  Proofs: MeshCheckProofs.v (exact integer arithmetic, all meshes, all sizes). *)
From Coq Require Import ZArith List Bool Lia.
From XF Require Import Sums MeshCheck MeshCheckProofs MeshCheckSound.
Import ListNotations.
Local Open Scope Z_scope.

(* every directed edge once  ==>  the doubled element areas sum to the shoelace sum of the boundary *)
Theorem C01_discrete_green : forall (X : list pt) (ts : list tri),
  NoDup (all_dedges ts) -> zsum (area2 X) ts = zsum (cross X) (boundary_spec ts).
Proof. exact green. Qed.
Print Assumptions C01_discrete_green.

(* the edge table decides membership and certifies that no directed edge occurs twice, i.e. every
   undirected edge is shared by at most two elements, with opposite orientation *)
Theorem C01_manifold_check_sound : forall (n : Z) (ts : list tri) (tab : FMapPositive.PositiveMap.t Z),
  0 < n -> chk_range n ts = true -> edge_table n ts = Some tab ->
  NoDup (all_dedges ts) /\
  forall e, edge_ok n e -> (has_edge n tab e = true <-> In e (all_dedges ts)).
Proof. exact manifold_sound. Qed.
Print Assumptions C01_manifold_check_sound.

(* what an accepted report establishes: indices in range, every element counter-clockwise with
   positive area, edge-manifold, area identity, every boundary edge on a drawn entity *)
Theorem C01_accepted_mesh_is_valid : forall (M : mesh) (P : pslg) (pidx : list Z) (ppts : list pt) (pmarks : list Z),
  report_ok (check_mesh M P pidx ppts pmarks) = true ->
  let X := mX M in let ts := mtris M in let n := Z.of_nat (length X) in
  chk_range n ts = true /\
  (forall t, In t ts -> 0 < area2 X t) /\
  NoDup (all_dedges ts) /\
  zsum (area2 X) ts = zsum (cross X) (boundary_spec ts) /\
  (forall e, In e (boundary_spec ts) -> on_some_segment X (psegs P) e = true).
Proof. exact check_mesh_sound. Qed.
Print Assumptions C01_accepted_mesh_is_valid.

(* The remaining lists of an accepted report (MeshCheckSound.v). *)

(* every drawn (PSLG) segment (u,v) is a chain of mesh nodes from u to v: consecutive nodes are
   joined by an element edge (C01_chain_steps_are_element_edges) and every node lies on the
   closed segment towards v *)
Theorem C01_drawn_entities_are_chains_of_mesh_edges :
  forall (M : mesh) (P : pslg) (pidx : list Z) (ppts : list pt) (pmarks : list Z),
  report_ok (check_mesh M P pidx ppts pmarks) = true ->
  forall u v mk, In (u, v, mk) (psegs P) ->
  exists path, hd_error path = Some u /\ chain_ok (mX M) (nbrs_of (build_nbrs (mtris M))) v path.
Proof. exact full_chains. Qed.
Print Assumptions C01_drawn_entities_are_chains_of_mesh_edges.

Theorem C01_chain_steps_are_element_edges : forall (n : Z) (ts : list tri) (x y : Z),
  chk_range n ts = true -> 0 <= x -> In y (nbrs_of (build_nbrs ts) x) ->
  In (x, y) (all_dedges ts) \/ In (y, x) (all_dedges ts).
Proof. exact build_nbrs_spec. Qed.
Print Assumptions C01_chain_steps_are_element_edges.

(* region attributes are constant across every element edge that is not on a drawn segment:
   together with the chains this is "each region is covered by elements of one attribute" *)
Theorem C01_attributes_change_only_across_drawn_entities :
  forall (M : mesh) (P : pslg) (pidx : list Z) (ppts : list pt) (pmarks : list Z),
  report_ok (check_mesh M P pidx ppts pmarks) = true ->
  forall i j ti tj e,
  nth_error (mtris M) i = Some ti -> nth_error (mtris M) j = Some tj -> (i < j)%nat ->
  In e (dedges ti) -> In (revE e) (dedges tj) ->
  nth (Z.to_nat (Z.of_nat i)) (mattr M) 0 <> nth (Z.to_nat (Z.of_nat j)) (mattr M) 0 ->
  on_some_segment (mX M) (psegs P) e = true.
Proof. exact full_attributes. Qed.
Print Assumptions C01_attributes_change_only_across_drawn_entities.

Theorem C01_region_points_located :
  forall (M : mesh) (P : pslg) (pidx : list Z) (ppts : list pt) (pmarks : list Z),
  report_ok (check_mesh M P pidx ppts pmarks) = true ->
  forall k p a mx, nth_error (pregions P) k = Some (p, a, mx) ->
  exists i t, nth_error (mtris M) i = Some t /\ in_tri (mX M) t p = true /\
              nth (Z.to_nat (Z.of_nat i)) (mattr M) 0 = a.
Proof. exact full_regions. Qed.
Print Assumptions C01_region_points_located.

Theorem C01_holes_are_empty :
  forall (M : mesh) (P : pslg) (pidx : list Z) (ppts : list pt) (pmarks : list Z),
  report_ok (check_mesh M P pidx ppts pmarks) = true ->
  forall p t, In p (pholes P) -> In t (mtris M) -> strict_in_tri (mX M) t p = false.
Proof. exact full_holes. Qed.
Print Assumptions C01_holes_are_empty.

Theorem C01_drawn_points_are_exact_vertices :
  forall (M : mesh) (P : pslg) (pidx : list Z) (ppts : list pt) (pmarks : list Z),
  report_ok (check_mesh M P pidx ppts pmarks) = true ->
  forall k p mk, In (k, (p, mk)) (combine pidx (combine ppts pmarks)) ->
  ptget (mX M) k = p /\
  (if 1 <? mk then nth (Z.to_nat k) (mnodemark M) 0 = mk else nth (Z.to_nat k) (mnodemark M) 0 <= 1).
Proof. exact full_points. Qed.
Print Assumptions C01_drawn_points_are_exact_vertices.

Theorem C01_edge_markers_follow_drawn_entities :
  forall (M : mesh) (P : pslg) (pidx : list Z) (ppts : list pt) (pmarks : list Z),
  report_ok (check_mesh M P pidx ppts pmarks) = true ->
  forall em, In em (medges M) -> edge_mark_bad (mX M) (psegs P) em = false.
Proof. exact full_edge_marks. Qed.
Print Assumptions C01_edge_markers_follow_drawn_entities.

(* non-vacuity: a two-triangle square passes the core checks *)
Example C01_square_ok :
  let X := [(0, 0); (4, 0); (4, 4); (0, 4)] in
  let ts := [(0, 1, 2); (0, 2, 3)] in
  chk_range 4 ts = true /\ chk_ccw X ts = true /\ edge_table 4 ts <> None /\
  zsum (area2 X) ts = 32.
Proof. vm_compute. repeat split; try reflexivity. discriminate. Qed.

(* non-vacuity of the full report: the two-triangle square with its four sides drawn, one region,
   passes the whole validator *)
Example C01_square_full_report_ok :
  let M := mkMesh [(0, 0); (4, 0); (4, 4); (0, 4)] [0; 0; 0; 0] [(0, 1, 2); (0, 2, 3)] [1; 1]
                  [(0, 1, -2); (1, 2, -2); (2, 3, -2); (3, 0, -2); (0, 2, 0)] in
  let P := mkPslg 4 [(0, 1, -2); (1, 2, -2); (2, 3, -2); (3, 0, -2)] [] [((1, 2), 1, 0)] in
  report_ok (check_mesh M P [0; 1; 2; 3] [(0, 0); (4, 0); (4, 4); (0, 4)] [0; 0; 0; 0]) = true.
Proof. vm_compute. reflexivity. Qed.
