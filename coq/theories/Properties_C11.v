(* Properties_C11.v — theorem statements for C11 (linear problems superpose and are reciprocal). *)
From Coq Require Import ZArith List Bool Arith Lia Reals Lra.
From XF Require Import Arith Sparse SparseProofs AsmOps AsmOpsProofs AsmE AsmEProofs SuperposeProofs.
Import ListNotations.
Local Open Scope R_scope.

(* solutions of the stored system combine linearly with the right-hand sides *)
Theorem C11_solutions_superpose : forall (M : matrixT R) (x1 x2 x b1 b2 bb : vecT R) (a b : R),
  (forall j, (j < length M)%nat -> vget RA x j = a * vget RA x1 j + b * vget RA x2 j) ->
  (forall k, (k < length M)%nat -> vget RA bb k = a * vget RA b1 k + b * vget RA b2 k) ->
  (forall k, (k < length M)%nat -> Ax M x1 k = vget RA b1 k) ->
  (forall k, (k < length M)%nat -> Ax M x2 k = vget RA b2 k) ->
  forall k, (k < length M)%nat -> Ax M x k = vget RA bb k.
Proof. exact solutions_superpose. Qed.
Print Assumptions C11_solutions_superpose.

Theorem C11_zero_excitation_zero_field : forall (M : matrixT R) (x : vecT R) (k : nat),
  (forall j, (j < length M)%nat -> vget RA x j = 0) -> Ax M x k = 0.
Proof. exact zero_excitation_zero_field. Qed.
Print Assumptions C11_zero_excitation_zero_field.

(* mutual couplings are symmetric: u.(A v) = v.(A u) for every matrix the solvers can store *)
Theorem C11_reciprocity : forall (M : matrixT R) (u v : vecT R),
  rsum (fun i => vget RA u i * Ax M v i) (length M) = rsum (fun i => vget RA v i * Ax M u i) (length M).
Proof. exact reciprocity. Qed.
Print Assumptions C11_reciprocity.

(* the element-level elimination of prescribed values is linear in (prescribed values, load) and
   the matrix it leaves does not depend on them *)
Theorem C11_prescribed_value_processing_linear :
  forall (Q : list Z) n0 n1 n2 m00 m01 m02 m11 m12 m22 (V1 V2 V : vecT R) b0 b1 b2 c0 c1 c2 a b,
  let n := (n0, n1, n2) in
  let Me := [m00; m01; m02; m01; m11; m12; m02; m12; m22] in
  vget RA V n0 = a * vget RA V1 n0 + b * vget RA V2 n0 ->
  vget RA V n1 = a * vget RA V1 n1 + b * vget RA V2 n1 ->
  vget RA V n2 = a * vget RA V1 n2 + b * vget RA V2 n2 ->
  let r1 := presc_mb V1 Q n Me [b0; b1; b2] in
  let r2 := presc_mb V2 Q n Me [c0; c1; c2] in
  let r := presc_mb V Q n Me [a * b0 + b * c0; a * b1 + b * c1; a * b2 + b * c2] in
  fst r = fst r1 /\ fst r = fst r2 /\
  forall j, (j < 3)%nat -> vget RA (snd r) j = a * vget RA (snd r1) j + b * vget RA (snd r2) j.
Proof. exact presc_linear. Qed.
Print Assumptions C11_prescribed_value_processing_linear.

(* the element stiffness is independent of the sources; the element load is proportional to them *)
Theorem C11_element_linear_in_sources :
  forall (P1 P2 : eprob (F:=R)) extRo extRi extZo D0 k0 el j k,
  ee el = (None, None, None) -> (j < 3)%nat -> (k < 3)%nat ->
  nodes P1 = nodes P2 -> axi P1 = axi P2 -> label_ext P1 = label_ext P2 -> eo P1 = eo P2 ->
  bex (nth (eblk el) (blocks P1) (dblock RA)) = bex (nth (eblk el) (blocks P2) (dblock RA)) ->
  bey (nth (eblk el) (blocks P1) (dblock RA)) = bey (nth (eblk el) (blocks P2) (dblock RA)) ->
  let r1 := elem_matrices RA P1 extRo extRi extZo D0 k0 el in
  let r2 := elem_matrices RA P2 extRo extRi extZo D0 k0 el in
  m3get RA (snd (fst r1)) j k = m3get RA (snd (fst r2)) j k /\
  vget RA (snd r1) j * bqv (nth (eblk el) (blocks P2) (dblock RA))
    = vget RA (snd r2) j * bqv (nth (eblk el) (blocks P1) (dblock RA)).
Proof. exact element_linear_in_sources. Qed.
Print Assumptions C11_element_linear_in_sources.
