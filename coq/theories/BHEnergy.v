(* BHEnergy.v — the post-processor's energy densities of NONLINEAR magnetic materials:
   CMMaterialProp::DoEnergy(double b1, double b2) and DoCoEnergy(double b1, double b2), the BHpoints > 0 part
   (cfemm/libfemm/CMaterialProp.cpp:639-683), on top of the table model of BH.v (GetSlopes has already folded the
   fill factor of in-plane laminations, LamType 0, into the table).  fpproc uses them for the point value E and for
   the block integrals 2 (stored energy) and 17 (coenergy).  No proofs in this file. *)
From Coq Require Import ZArith List Bool Arith.
From XF Require Import Arith BH.
Import ListNotations.

Section BHEnergy.
  Context {F : Type} (A : Arith F).
  Local Notation "x +. y" := (aadd A x y) (at level 50, left associativity).
  Local Notation "x -. y" := (asub A x y) (at level 50, left associativity).
  Local Notation "x *. y" := (amul A x y) (at level 40, left associativity).
  Local Notation "x /. y" := (adiv A x y) (at level 40, left associativity).
  Local Notation one := (aone A).
  Local Notation "'#' k" := (aofZ A k) (at level 9, k at level 9).

  (* the common shape of the two routines: `raw` is GetEnergy or GetCoEnergy
       if(LamType==0) nrg = raw(sqrt(b1*b1+b2*b2));
       if(LamType==1){ biron=sqrt((b1/LamFill)*(b1/LamFill) + b2*b2); bair=b2;
                       nrg = LamFill*raw(biron)+(1-LamFill)*bair*bair/(2.*muo); }
       if(LamType==2){ biron=sqrt((b2/LamFill)*(b2/LamFill) + b1*b1); bair=b1;  ... the same ... }
     (LamType > 2: nrg stays 0) *)
  Definition mixed (raw : F -> F) (lamfill muo biron bair : F) : F :=
    lamfill *. raw biron +. (one -. lamfill) *. bair *. bair /. (#2 *. muo).

  Definition do_nl (raw : F -> F) (lamtype : nat) (lamfill muo b1 b2 : F) : F :=
    match lamtype with
    | 0 => raw (asqrt A (b1 *. b1 +. b2 *. b2))
    | 1 => mixed raw lamfill muo (asqrt A ((b1 /. lamfill) *. (b1 /. lamfill) +. b2 *. b2)) b2
    | 2 => mixed raw lamfill muo (asqrt A ((b2 /. lamfill) *. (b2 /. lamfill) +. b1 *. b1)) b1
    | _ => azero A
    end.

  Definition doEnergy (m : mat) (lamtype : nat) (lamfill b1 b2 : F) : F :=
    do_nl (getEnergy A m) lamtype lamfill (mMuo m) b1 b2.
  Definition doCoEnergy (m : mat) (lamtype : nat) (lamfill b1 b2 : F) : F :=
    do_nl (getCoEnergy A m) lamtype lamfill (mMuo m) b1 b2.

  (* one harness case: GetSlopes(0) on the table (as BH.run_case), then DoEnergy / DoCoEnergy at the given (b1,b2) *)
  Definition run_case_e (fuel : nat) (lamtype : nat) (lamfill muo : F) (Bd : list F) (Hd : list (F * F))
             (bs : list (F * F)) : bool * list (F * F) :=
    let r := get_slopes A fuel (Nat.eqb lamtype 0) lamfill muo Bd Hd in
    let m := mkMat (rB r) (rH r) (rS r) (first_mu A muo Bd Hd) muo in
    (rdone r, map (fun b => (doEnergy m lamtype lamfill (fst b) (snd b), doCoEnergy m lamtype lamfill (fst b) (snd b))) bs).
End BHEnergy.
