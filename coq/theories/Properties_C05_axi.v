(* Properties_C05_axi.v — theorem statements about the AXISYMMETRIC magnetics solvers that belong to C05 (the assembled system).
   (the other parts are in Properties_C05_axi.v, Properties_C06_axi.v, Properties_C10_axi.v, Properties_C11_axi.v);
   they belong to (C05, C11, C06, C10).  Models: AsmMAxi.v (FSolver::StaticAxisymmetric; the solution is
   written by WriteStatic2D), AsmMHAxi.v (FSolver::HarmonicAxisymmetric; WriteHarmonic2D).
   Proofs: AsmMAxiProofs.v, AsmMAxiLinearProofs.v, AsmMHAxiProofs.v.  Real-number reading; complex numbers
   are pairs of reals.  Units: lengths in cm, V = A/c with c = 4 pi 1e-5, J in MA/m^2; the code's equations are
   2/(2 pi) times the SI weak form.  Names of the element data follow the code: rn[] = e_r, p[] = e_p, q[] = e_q,
   g[] = e_g (mid-side radii), R = e_R, a = e_a, a_hat = e_ah, R_hat = e_Rh, vol = e_vol = 2 R a_hat. *)
From Coq Require Import ZArith List Bool Arith Lia Reals Lra.
From XF Require Import Arith Sparse CSparse SparseProofs AsmOps AsmOpsProofs AsmE AsmEProofs AsmM AsmMProofs AsmMH AsmMHProofs
  ClosedFormProofs AsmMAxi AsmMAxiProofs AsmMAxiLinearProofs AsmMHAxi AsmMHAxiProofs.
Import ListNotations.
Local Open Scope R_scope.

(* ====================================================================================================== *)
(* C05 — the assembled axisymmetric system                                                                *)
(* ====================================================================================================== *)

(* (a1) StaticAxisymmetric's scatter statements  L.Put(L.Get(n[j],n[k])-Me[j][k],n[j],n[k]);  L.b[n[j]]-=be[j]
   are the same "add a contribution" operations as Static2D's, so AsmOpsProofs.assembled_rows applies. *)
Theorem C05_axi_scatter_is_sum_of_contributions :
  forall (n : nat * nat * nat) (Me be : vecT R) (M : matrixT R) (b : vecT R),
  ascatter RA n Me be M b = (apply_mops RA M (mscatter_mops n Me), apply_bops RA b (mscatter_bops n be)).
Proof. exact ascatter_as_ops. Qed.
Print Assumptions C05_axi_scatter_is_sum_of_contributions.

(* (a2) The element loop, all meshes and element orders: row i of the assembled residual M U - b is the initial
   row minus the sum over the elements, and their local rows assembled into row i, of the local residual
   sum_b Me[a][b] U[n_b] - be[a]. *)
Theorem C05_axi_element_loop_rows :
  forall (AP : aprob (F:=R)) (extRo extRi extZo : R) (res : list (nat * R * R)) (U : vecT R)
         (els : list (melem (F:=R) * alogs (F:=R))) (M : matrixT R) (b : vecT R),
  mat_wf M -> length b = length M -> Forall (fun ela => elem_okM (length M) (fst ela)) els ->
  let s' := fold_left (amelem_step RA AP extRo extRi extZo res) els (M, b) in
  mat_wf (fst s') /\ length (fst s') = length M /\ length (snd s') = length b /\
  forall i, (i < length M)%nat ->
    Ax (fst s') U i - vget RA (snd s') i = (Ax M U i - vget RA b i) - aloop_resid AP extRo extRi extZo res els U i.
Proof. exact aloop_rows. Qed.
Print Assumptions C05_axi_element_loop_rows.

(* (a3) point currents are "b[i] += 0.01*I*2*r" operations *)
Theorem C05_axi_point_currents_are_contributions :
  forall (P : mprob (F:=R)) (b : vecT R),
  apoint_currents RA P b = apply_bops RA b (apoint_bops P (combine (seq 0 (length (mnodes P))) (mnodes P))).
Proof. exact apoint_currents_as_bops. Qed.
Print Assumptions C05_axi_point_currents_are_contributions.

(* (b) the element matrix of EVERY element — with mixed-boundary edges, nodes on the axis (incl. the entries
   staticaxi.cpp:278-279 puts on their diagonal), the conformally mapped exterior region — is symmetric *)
Theorem C05_axi_element_matrix_symmetric :
  forall (AP : aprob (F:=R)) (extRo extRi extZo : R) (res : list (nat * R * R))
         (ela : melem (F:=R) * alogs (F:=R)) (j k : nat), (j < 3)%nat -> (k < 3)%nat ->
  m3get RA (fst (fst (amelem_matrices RA AP extRo extRi extZo res ela))) j k
  = m3get RA (fst (fst (amelem_matrices RA AP extRo extRi extZo res ela))) k j.
Proof. exact amelem_matrices_sym_get. Qed.
Print Assumptions C05_axi_element_matrix_symmetric.

(* (c) THE FORM THE CODE IMPLEMENTS.  u = r A is interpolated affinely in (r^2, z); for nodal values A_j the
   flux densities are  B_z = sum_j bz_j A_j (constant),  B_r = -(1/r) sum_j br_j A_j  with
   bz_j = p_j r_j / vol,  br_j = q_j g_j r_j / vol  (g_j: mid-side radius opposite node j, vol = 2 R a_hat).
   Every entry of the element matrix except the diagonal entry of an on-axis node is
        Me[j][k] = -( vol * bz_j bz_k / mu2  +  vol/(R R_hat) * br_j br_k / mu1 ):
   mu2 (the effective mu_z) goes with the axial flux density, mu1 (the effective mu_r) with the radial one; the
   weight of r dr dz is lumped as vol/2 (exact value R*a), that of (1/r) dr dz as vol/(2 R R_hat) (exact value
   a/R_hat when 1/R_hat is the element mean of 1/r, which is what the logarithm formulas compute), and the
   whole equation carries a factor 2.  The textbook Galerkin form with A itself piecewise linear,
   integral of nu [ dN_j/dz dN_k/dz + (1/r^2) d(r N_j)/dr d(r N_k)/dr ] r dr dz, is NOT what the code assembles. *)
Theorem C05_axi_Mel_is_modified_potential_form :
  forall (AP : aprob (F:=R)) (extRo extRi extZo : R) (res : list (nat * R * R))
         (el : melem (F:=R)) (lg : alogs (F:=R)) (j k : nat),
  no_mixed_edge (ap AP) el -> (j < 3)%nat -> (k < 3)%nat -> (j <> k \/ e_axis AP el j = false) ->
  e_ah AP el <> 0 -> e_R AP el <> 0 -> e_Rh AP el lg <> 0 ->
  let mu := e_mu AP extRo extRi extZo el in
  fst mu <> 0 -> snd mu <> 0 ->
  m3get RA (fst (fst (amelem_matrices RA AP extRo extRi extZo res (el, lg)))) j k
    = - (e_vol AP el * e_bz AP el j * e_bz AP el k / snd mu
         + e_vol AP el / (e_R AP el * e_Rh AP el lg) * e_br AP el j * e_br AP el k / fst mu).
Proof. exact Mel_is_modified_potential_form. Qed.
Print Assumptions C05_axi_Mel_is_modified_potential_form.

(* (c') vol is the area of the triangle (r_j^2, z_j) *)
Theorem C05_axi_vol_is_area_in_r2_z :
  forall (AP : aprob (F:=R)) (el : melem (F:=R)), e_R AP el <> 0 ->
  e_vol AP el = (e_r AP el 0 * e_r AP el 0 * e_p AP el 0 + e_r AP el 1 * e_r AP el 1 * e_p AP el 1
                 + e_r AP el 2 * e_r AP el 2 * e_p AP el 2) / 2.
Proof. exact e_vol_formula. Qed.
Print Assumptions C05_axi_vol_is_area_in_r2_z.

(* (c'') what the logarithm formula of the generic R_hat branch computes (l_j = the logarithms of the nodal radii,
   inputs of the model): 1/R_hat is the element mean of 1/r, a / (contour integral of ln r dz), by Green's theorem *)
Theorem C05_axi_r_hat_generic_is_mean_inverse_radius :
  forall (tol r0 r1 r2 z0 z1 z2 l0 l1 l2 m0 m1 m2 : R),
  let rn := [r0; r1; r2] in let q := [r2 - r1; r0 - r2; r1 - r0] in
  let a := ((z1 - z2) * (r0 - r2) - (z2 - z0) * (r2 - r1)) / 2 in
  let contour := edge_ln_r_dz r0 z0 l0 r1 z1 l1 + edge_ln_r_dz r1 z1 l1 r2 z2 l2 + edge_ln_r_dz r2 z2 l2 r0 z0 l0 in
  Rltb (Rabs (r2 - r1)) tol = false -> Rltb (Rabs (r0 - r2)) tol = false -> Rltb (Rabs (r1 - r0)) tol = false ->
  r2 - r1 <> 0 -> r0 - r2 <> 0 -> r1 - r0 <> 0 ->
  (r2 - r1) * r0 * l0 + (r0 - r2) * r1 * l1 + (r1 - r0) * r2 * l2 <> 0 -> contour <> 0 ->
  r_hat_default RA tol rn q ((r0 + r1 + r2) / 3) (mkALogs (l0, l1, l2) (m0, m1, m2)) = a / contour.
Proof. exact r_hat_generic_is_mean_inverse_radius. Qed.
Print Assumptions C05_axi_r_hat_generic_is_mean_inverse_radius.

(* (d) element matrices of an element without mixed-boundary edge: Me = Mx/mu2 + My/mu1, and the load
   be_j = -2 R (J + t) a/3 + (magnet terms of the two edges at node j, each -0.0001 r_mid H_c (cos dr + sin dz)) *)
Theorem C05_axi_element_matrices_noedge :
  forall (AP : aprob (F:=R)) (extRo extRi extZo : R) (res : list (nat * R * R)) (el : melem (F:=R)) (lg : alogs (F:=R)),
  no_mixed_edge (ap AP) el ->
  let r := amelem_matrices RA AP extRo extRi extZo res (el, lg) in
  let s := ael_shape RA (ap AP) el lg in
  let blk := nth (mblk el) (mblocks (ap AP)) (dmblock RA) in
  snd r = e_mu AP extRo extRi extZo el /\
  (forall j k, (j < 3)%nat -> (k < 3)%nat ->
     m3get RA (fst (fst r)) j k = m3get RA (fst (fst s)) j k / snd (e_mu AP extRo extRi extZo el)
                                  + m3get RA (snd (fst s)) j k / fst (e_mu AP extRo extRi extZo el)) /\
  (forall j, (j < 3)%nat ->
     vget RA (snd (fst r)) j = -2 * e_R AP el * (bJre blk + acirc_t RA (ap AP) res el (e_R AP el)) * e_a AP el / 3
                               + aKmag AP el j + aKmag AP el (prv j)).
Proof. exact amelem_matrices_noedge. Qed.
Print Assumptions C05_axi_element_matrices_noedge.

(* (e) prescribed rows hold their values: after L.SetValue(i, a/c) every solution of the constrained system
   writes the flux 2 pi r a for node i, all other equations are the unconstrained ones; L.SetValue(i, 0) on the
   axis gives V_i = 0 *)
Theorem C05_axi_setvalue_prescribes :
  forall (P : mprob (F:=R)) (L : lin (F:=R)) (i : nat) (a : R) (V : vecT R),
  mat_wf (lM L) -> ln L = length (lM L) -> length (lb L) = length (lM L) ->
  (i < length (lM L))%nat -> sv_covered L i -> mget RA (lM L) i i <> 0 ->
  length V = length (mnodes P) -> (i < length V)%nat ->
  let L' := setvalue RA L i (a / c4pi RA) in
  (forall k, (k < length (lM L))%nat -> Ax (lM L') V k = vget RA (lb L') k) ->
  nth i (written_flux RA P V) 0 = a * (mx (nth i (mnodes P) (dmnode RA)) * e2 RA * 2 * PI) /\
  forall k, (k < length (lM L))%nat -> k <> i -> Ax (lM L) V k = vget RA (lb L) k.
Proof. exact axi_setvalue_prescribes. Qed.
Print Assumptions C05_axi_setvalue_prescribes.

Theorem C05_axi_axis_node_zero :
  forall (P : mprob (F:=R)) (L : lin (F:=R)) (i : nat) (V : vecT R),
  mat_wf (lM L) -> ln L = length (lM L) -> length (lb L) = length (lM L) ->
  (i < length (lM L))%nat -> sv_covered L i -> mget RA (lM L) i i <> 0 ->
  let L' := setvalue RA L i (azero RA) in
  (forall k, (k < length (lM L))%nat -> Ax (lM L') V k = vget RA (lb L') k) ->
  vget RA V i = 0.
Proof. exact axi_axis_node_zero. Qed.
Print Assumptions C05_axi_axis_node_zero.

(* (f) the eddy-current term of HarmonicAxisymmetric (solid conductor): K = -j w sigma c R a/6, and every entry
   of the element matrix receives K*4/3 = -j w sigma c (2/9) R a: the induced current density -j w sigma A is taken
   CONSTANT over the element (mean of the three nodal values) and weighted with R*a — not the consistent mass
   matrix integral of sigma N_j N_k r dr dz that Harmonic2D's planar term a/12 (1 + delta_jk) corresponds to *)
Theorem C05_axi_harmonic_eddy_coefficient :
  forall (P : mprob (F:=R)) (w : R) (el : melem (F:=R)) (Rc a : R),
  is_wound RA P (nth (mlbl el) (mlabels P) dmlabel) = false ->
  (bLamType (nth (mblk el) (mblocks P) (dmblock RA)) <> 0%nat \/ ~ 0 < bLamd (nth (mblk el) (mblocks P) (dmblock RA))) ->
  haeddy_K RA P w el Rc a = (0, - (w * bCduct (nth (mblk el) (mblocks P) (dmblock RA)) * c4pi RA * Rc * a / 6)).
Proof. exact haeddy_K_value. Qed.
Print Assumptions C05_axi_harmonic_eddy_coefficient.

Theorem C05_axi_harmonic_eddy_pattern :
  forall (K : R * R) (j k : nat), (j < 3)%nat -> (k < 3)%nat ->
  h3get RA (haeddy_add RA (repeat (0, 0) 9) K) j k = (fst K * 4 / 3, snd K * 4 / 3).
Proof. exact haeddy_add_pattern. Qed.
Print Assumptions C05_axi_harmonic_eddy_pattern.


(* ====================================================================================================== *)
(* non-vacuity                                                                                             *)
(* ====================================================================================================== *)
(* a two-element mesh, one element touching the axis: the hypotheses of the element theorems hold *)
Definition XP : mprob (F:=R) :=
  mkMProb 2
    [mkMNode 0 0 None; mkMNode 1 0 None; mkMNode 1 1 None; mkMNode 2 0 None]
    [mkMElem (0, 1, 2)%nat (None, None, None) 0 0 1 0; mkMElem (1, 3, 2)%nat (None, None, None) 0 0 1 0]
    [mkMBlock 1 1 0 1 0 0 0 0 0 0 1] [] [] [] [mkMLabel 0 None 1] [].
Definition XAP : aprob (F:=R) := mkAProb XP [mkALogs (0, 0, 0) (0, 0, 0); mkALogs (0, 1, 0) (0, 0, 0)] [false] 0 0 0.
Definition Xel : melem (F:=R) := mkMElem (1, 3, 2)%nat (None, None, None) 0 0 1 0.

Example XAXI_hypotheses_satisfiable :
  no_mixed_edge (ap XAP) Xel /\ e_R XAP Xel <> 0 /\ e_ah XAP Xel <> 0 /\
  e_axis XAP Xel 0 = false /\ e_axis XAP Xel 1 = false /\ e_axis XAP Xel 2 = false /\
  e_mu XAP 0 0 0 Xel = (1, 1).
Proof.
  split; [apply no_mixed_edge_none; reflexivity|].
  assert (HR : e_R XAP Xel = 4 / 3) by (unfold e_R, mel_geom, geom; cbn; ra_simpl; lra).
  assert (Hah : e_ah XAP Xel = 9 / 16) by (unfold e_ah; rewrite HR; unfold a_hat_of, el_rn, mel_geom, geom; cbn; ra_simpl; lra).
  split; [rewrite HR; lra|]. split; [rewrite Hah; lra|].
  assert (T : atol RA (ap XAP) = 1 / 1000000) by (unfold atol, aunit, munits, adec; cbn; ra_simpl; lra).
  unfold e_axis, on_axis. rewrite T. unfold el_rn, vget. cbn [map nth tri_get mp Xel ap XAP XP mnodes mx]. ra_simpl.
  repeat split; try (apply Rltb_false; lra).
  unfold e_mu, ael_mu, el_mu. cbn. ra_simpl. f_equal; lra.
Qed.

(* exc_lin is satisfiable: every problem is 1 * itself + 0 * itself *)
Example XAXI_exc_lin_satisfiable : exc_lin 1 0 XAP XAP XAP.
Proof.
  constructor; try reflexivity; intros i; cbv zeta; repeat split; ring.
Qed.

(* the hypotheses of the omega = 0 theorems hold for that mesh with no hysteresis lag and ProximityMu = 1 *)
Example XAXI_omega0_hypotheses_satisfiable :
  block_ok XAP [dhexp RA] 0 /\ label_ok XAP [(1, 0)] Xel /\ lines_real XAP /\
  res_embed (acirc_results RA XP) (hacirc_results RA XP).
Proof.
  split; [|split; [|split]].
  - unfold block_ok. cbn. repeat split; try reflexivity; try (intro H; discriminate H).
    left. split; reflexivity.
  - unfold label_ok. cbn. intros H. lia.
  - intros s. cbn. destruct s; split; reflexivity.
  - intros k. cbn. destruct k; cbn; repeat split; reflexivity.
Qed.

