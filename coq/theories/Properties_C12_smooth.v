(* Properties_C12_smooth.v — theorem statements of the extension XSMOOTH of property C12: the nodal smoothing of the
   post-processors' field values (smoothing ON, the default).  Model: Smooth.v (on PointVals.v, IntegralsE/H.v, KT.v);
   proofs: SmoothProofs.v.  Real-number reading; complex numbers are pairs of reals.
   The smoothed field of all three post-processors (getPointD of epproc / hpproc, GetPointB of fpproc) is
   PointVals.interp_c applied to the three stored nodal values (Smooth.se_pointD / sh_pointD / sm_pointB). *)
From Coq Require Import ZArith List Bool Arith Lia Reals Lra.
From XF Require Import Arith Sparse AsmE KT Integrals IntegralsE IntegralsEProofs IntegralsH IntegralsHProofs IntegralsM
                       PointVals PointValsProofs Smooth SmoothProofs.
Import ListNotations.
Local Open Scope R_scope.

(* ====================================================================================================== *)
(* (a) inside an element the smoothed field is the barycentric interpolation of the three nodal values      *)
(* ====================================================================================================== *)
Theorem C12_smooth_field_is_barycentric_interpolation :
  forall x0 y0 x1 y1 x2 y2 (d0 d1 d2 : R * R) x y, da_r x0 y0 x1 y1 x2 y2 <> 0 ->
  let s := shape RA x0 y0 x1 y1 x2 y2 in
  let L := fun i => wgt RA s i x y / sda s in
  L 0%nat + L 1%nat + L 2%nat = 1 /\
  interp_c RA s d0 d1 d2 x y = (fst d0 * L 0%nat + fst d1 * L 1%nat + fst d2 * L 2%nat,
                                snd d0 * L 0%nat + snd d1 * L 1%nat + snd d2 * L 2%nat).
Proof. exact interp_c_barycentric. Qed.
Print Assumptions C12_smooth_field_is_barycentric_interpolation.

Theorem C12_smooth_field_nodal_at_corners :
  forall x0 y0 x1 y1 x2 y2 (d0 d1 d2 : R * R), da_r x0 y0 x1 y1 x2 y2 <> 0 ->
  let s := shape RA x0 y0 x1 y1 x2 y2 in
  interp_c RA s d0 d1 d2 x0 y0 = d0 /\ interp_c RA s d0 d1 d2 x1 y1 = d1 /\ interp_c RA s d0 d1 d2 x2 y2 = d2.
Proof. exact interp_c_nodal. Qed.
Print Assumptions C12_smooth_field_nodal_at_corners.

(* two elements sharing the corners P, Q that hold the SAME nodal values there return the same field on the whole
   line PQ, whatever their third corners and third nodal values.  (Elements of different materials, and elements
   whose walks collected different patches, hold different nodal values: the field then jumps, by design.) *)
Theorem C12_smooth_field_continuous_across_edges_with_equal_nodal_values :
  forall xp yp xq yq (dp dq : R * R) xs ys ds xs' ys' ds' t,
  da_r xp yp xq yq xs ys <> 0 -> da_r xq yq xp yp xs' ys' <> 0 ->
  let x := (1 - t) * xp + t * xq in let y := (1 - t) * yp + t * yq in
  interp_c RA (shape RA xp yp xq yq xs ys) dp dq ds x y = interp_c RA (shape RA xq yq xp yp xs' ys') dq dp ds' x y.
Proof. exact interp_c_continuous. Qed.
Print Assumptions C12_smooth_field_continuous_across_edges_with_equal_nodal_values.

(* three equal nodal values: the field is that value everywhere in the element *)
Theorem C12_smooth_field_of_equal_nodal_values :
  forall x0 y0 x1 y1 x2 y2 (d : R * R) x y, da_r x0 y0 x1 y1 x2 y2 <> 0 ->
  interp_c RA (shape RA x0 y0 x1 y1 x2 y2) d d d x y = d.
Proof. exact interp_c_const. Qed.
Print Assumptions C12_smooth_field_of_equal_nodal_values.

(* ====================================================================================================== *)
(* (b) exactness: the plane fit returns the gradient of an affine potential                                 *)
(* ====================================================================================================== *)
(* whatever nodes the walk collected (any list q, with repetitions, any weights that result): if the potential is
   al + be x + ga y at those nodes and the fit is not degenerate (det != 0), the fitted field is -(be, ga)/LengthConv *)
Theorem C12_smooth_plane_fit_exact_on_affine_potentials :
  forall (nodes : list (ie_node (F:=R))) al be ga j q lc Ex Ey,
  (forall k, In k (q ++ [j]) -> affine_at nodes al be ga k) ->
  nodal_fit RA nodes j q lc = Some (Ex, Ey) ->
  Ex = - be / lc /\ Ey = - ga / lc.
Proof. exact nodal_fit_affine. Qed.
Print Assumptions C12_smooth_plane_fit_exact_on_affine_potentials.

(* electrostatics: outside the exterior region every nodal value getNodalD computes - fit, punt or degenerate - is the
   element's own D when the potential is affine on the collected patch and on the element: smoothing changes nothing *)
Theorem C12_smooth_nodal_D_equals_element_D_on_affine_potentials :
  forall (P : ie_prob (F:=R)) X al be ga N i,
  let el := elem_at (ie_elems P) N in
  let w := se_walk RA P X N i in
  (forall k, In k (w_q w ++ [w_j w]) -> affine_at (ie_nodes P) al be ga k) ->
  affine_at (ie_nodes P) al be ga (tri_get (ie_p el) 0) -> affine_at (ie_nodes P) al be ga (tri_get (ie_p el) 1) ->
  affine_at (ie_nodes P) al be ga (tri_get (ie_p el) 2) ->
  e_da P el <> 0 -> ie_lc P <> 0 -> not_exterior P el ->
  se_nodal RA P X N i = ie_D RA P el.
Proof. exact se_nodal_exact. Qed.
Print Assumptions C12_smooth_nodal_D_equals_element_D_on_affine_potentials.

(* heat flow, materials without a T-k table (with one the nodal value uses k(T_node), the element value the mean of k
   over the element's nodes) *)
Theorem C12_smooth_nodal_F_equals_element_F_on_affine_temperatures :
  forall (P : ih_prob (F:=R)) X al be ga N i,
  let el := elem_at (ih_elems P) N in
  let w := sh_walk RA P X N i in
  (forall k, In k (w_q w ++ [w_j w]) -> affine_at (ih_nodes P) al be ga k) ->
  affine_at (ih_nodes P) al be ga (tri_get (ie_p el) 0) -> affine_at (ih_nodes P) al be ga (tri_get (ie_p el) 1) ->
  affine_at (ih_nodes P) al be ga (tri_get (ie_p el) 2) ->
  e_da (ih_view RA P) el <> 0 -> ih_lc P <> 0 -> not_exterior (ih_view RA P) el ->
  ih_tk (nth (ie_blk el) (ih_mats P) (ih_dmat RA)) = [] ->
  sh_nodal RA false P X N i = ih_D RA P el.
Proof. exact sh_nodal_exact. Qed.
Print Assumptions C12_smooth_nodal_F_equals_element_F_on_affine_temperatures.

(* ====================================================================================================== *)
(* (c) the walk never leaves the material                                                                   *)
(* ====================================================================================================== *)
(* for any mesh, any connection lists, any material comparison, both directions: every element that contributed a node
   satisfies isSameMaterial with the starting element and has the node j as a corner, and every node in the fit's list
   is a corner of such an element *)
Theorem C12_smooth_walk_stays_in_material :
  forall {F : Type} (A : Arith F) (nodes : list (ie_node (F:=F))) elems same con N i,
  let el := elem_at elems N in
  let w := walk A nodes elems same con N i in
  Forall (fun n => same (ie_blk el) (ie_blk (elem_at elems n)) = true /\ corner_of elems n (w_j w)) (w_ccw w ++ w_cw w) /\
  Forall (fun p => exists n, In n (w_ccw w ++ w_cw w) /\ corner_of elems n p) (w_q w).
Proof. exact @walk_stays_in_material. Qed.
Print Assumptions C12_smooth_walk_stays_in_material.

(* CSMaterialProp::isSameMaterialAs: reflexive, symmetric, decides equality of exactly (ex, ey) *)
Theorem C12_smooth_same_material_electrostatics :
  forall (mats : list (R * R)) b1 b2,
  cs_same RA mats b1 b1 = true /\
  cs_same RA mats b1 b2 = cs_same RA mats b2 b1 /\
  (cs_same RA mats b1 b2 = true <-> b1 = b2 \/ nth b1 mats (0, 0) = nth b2 mats (0, 0)).
Proof. intros. split; [apply cs_same_refl|split; [apply cs_same_sym|apply cs_same_iff]]. Qed.
Print Assumptions C12_smooth_same_material_electrostatics.

(* CHMaterialProp::isSameMaterialAs: reflexive, symmetric; it decides equality of (Kx, Ky) for two materials without a
   T-k table and equality of the whole table for two materials with one (Kx, Ky are then not compared) ... *)
Theorem C12_smooth_same_material_heat :
  forall (mats : list ih_mat) b1 b2 (m1 m2 : ih_mat (F:=R)),
  ch_same RA mats b1 b1 = true /\
  ch_same RA mats b1 b2 = ch_same RA mats b2 b1 /\
  (ch_same_mat RA m1 m2 = true <->
   (ih_tk m1 = [] /\ ih_tk m2 = [] /\ ih_kx m1 = ih_kx m2 /\ ih_ky m1 = ih_ky m2) \/ (ih_tk m1 <> [] /\ ih_tk m1 = ih_tk m2)).
Proof. intros. split; [apply ch_same_refl|split; [apply ch_same_sym|apply ch_same_mat_iff]]. Qed.
Print Assumptions C12_smooth_same_material_heat.

(* ... and that is enough: two materials it calls the same have the same conductivity at every temperature (GetK never
   reaches its fall-through `return (Kx+I*Ky)` when there is a table) *)
Theorem C12_smooth_same_material_heat_same_conductivity :
  forall (m1 m2 : ih_mat (F:=R)) t, ch_same_mat RA m1 m2 = true ->
  getk RA (ih_kx m1) (ih_ky m1) (ih_tk m1) t = getk RA (ih_kx m2) (ih_ky m2) (ih_tk m2) t.
Proof. exact ch_same_same_conductivity. Qed.
Print Assumptions C12_smooth_same_material_heat_same_conductivity.

(* ====================================================================================================== *)
(* (d) the fall-backs return the unsmoothed field                                                           *)
(* ====================================================================================================== *)
(* a free node (Q == -2) is never punted; a flagged node is punted unless the walk ended at two DIFFERENT flagged
   neighbours (then the corner angle decides) *)
Theorem C12_smooth_punt_cases :
  forall {F : Type} (A : Arith F) Qj lf rt ang,
  sm_punt A (-2) lf rt ang = false /\
  (Qj <> (-2)%Z -> lf = None \/ rt = None \/ lf = rt -> sm_punt A Qj lf rt ang = true).
Proof. intros. split; [apply sm_punt_free|apply sm_punt_flagged_end]. Qed.
Print Assumptions C12_smooth_punt_cases.

Theorem C12_smooth_fallback_is_element_D :
  forall (P : ie_prob (F:=R)) X N i,
  let w := se_walk RA P X N i in
  sm_punt RA (nodeQ RA (ie_nodes P) (w_j w)) (w_lf w) (w_rt w) (walk_ang RA X w) = true \/
  nodal_fit RA (ie_nodes P) (w_j w) (w_q w) (ie_lc P) = None ->
  se_nodal RA P X N i = ie_D RA P (elem_at (ie_elems P) N).
Proof. exact se_nodal_punt. Qed.
Print Assumptions C12_smooth_fallback_is_element_D.

Theorem C12_smooth_fallback_is_element_F :
  forall hfix (P : ih_prob (F:=R)) X N i,
  let w := sh_walk RA P X N i in
  sm_punt RA (nodeQ RA (ih_nodes P) (w_j w)) (w_lf w) (w_rt w) (walk_ang RA X w) = true \/
  nodal_fit RA (ih_nodes P) (w_j w) (w_q w) (ih_lc P) = None ->
  sh_nodal RA hfix P X N i = ih_D RA P (elem_at (ih_elems P) N).
Proof. exact sh_nodal_punt. Qed.
Print Assumptions C12_smooth_fallback_is_element_F.

(* with the element's own field in place of the interpolated one getPointValues is the smoothing-off one (XPV) *)
Theorem C12_smooth_point_values_with_element_field :
  forall (P : ie_prob (F:=R)) (Ph : ih_prob (F:=R)) k x y,
  pe_point_of RA P k x y (ie_D RA P (nth k (ie_elems P) ie_delem)) = pe_point RA P k x y /\
  ph_point_of RA Ph k x y (ih_D RA Ph (nth k (ih_elems Ph) ie_delem)) = ph_point RA Ph k x y.
Proof. intros. split; [apply pe_point_of_elem|apply ph_point_of_elem]. Qed.
Print Assumptions C12_smooth_point_values_with_element_field.

(* ====================================================================================================== *)
(* the exterior-region factor in the nodal values (finding XSMOOTH-1)                                       *)
(* ====================================================================================================== *)
(* electrostatics, everywhere incl. the exterior region: the nodal D divided by the permittivity getPointValues uses
   at the node (eps / AECF(elem, node)) is the fitted field *)
Theorem C12_smooth_nodal_D_over_permittivity_is_the_fitted_field :
  forall (P : ie_prob (F:=R)) el j Ex Ey,
  let nj := node_at RA (ie_nodes P) j in
  let a := ie_aecf_pt RA P el (ie_x nj) (ie_y nj) in
  let D := se_fromE RA P el j Ex Ey in
  fst (ie_mat RA P el) <> 0 -> snd (ie_mat RA P el) <> 0 -> ie_eo P <> 0 -> a <> 0 ->
  fst D / (fst (ie_mat RA P el) / a * ie_eo P) = Ex /\ snd D / (snd (ie_mat RA P el) / a * ie_eo P) = Ey.
Proof. exact se_fromE_field_at_node. Qed.
Print Assumptions C12_smooth_nodal_D_over_permittivity_is_the_fitted_field.

(* heat flow: the same statement holds for the repaired variant (hfix = true); the shipped code (hfix = false) returns
   the fitted gradient MULTIPLIED by the exterior-region factor *)
Theorem C12_smooth_nodal_F_over_conductivity :
  forall hfix (P : ih_prob (F:=R)) el j Ex Ey,
  let nj := node_at RA (ih_nodes P) j in
  let a := ie_aecf_pt RA (ih_view RA P) el (ie_x nj) (ie_y nj) in
  let m := nth (ie_blk el) (ih_mats P) (ih_dmat RA) in
  let K := getk RA (ih_kx m) (ih_ky m) (ih_tk m) (ie_V nj) in
  let Fl := sh_fromE RA hfix P el j Ex Ey in
  fst K <> 0 -> snd K <> 0 -> a <> 0 ->
  fst Fl / (fst K / a) = (if hfix then Ex else Ex * a) /\ snd Fl / (snd K / a) = (if hfix then Ey else Ey * a).
Proof. exact sh_fromE_field_at_node. Qed.
Print Assumptions C12_smooth_nodal_F_over_conductivity.

Theorem C12_smooth_heat_exterior_gradient_at_node_refuted :
  exists (P : ih_prob (F:=R)) el j Ex Ey,
    let nj := node_at RA (ih_nodes P) j in
    let a := ie_aecf_pt RA (ih_view RA P) el (ie_x nj) (ie_y nj) in
    let m := nth (ie_blk el) (ih_mats P) (ih_dmat RA) in
    let K := getk RA (ih_kx m) (ih_ky m) (ih_tk m) (ie_V nj) in
    fst K <> 0 /\ snd K <> 0 /\ a <> 0 /\ fst (sh_fromE RA false P el j Ex Ey) / (fst K / a) <> Ex.
Proof. exact sh_nodal_exterior_not_scaled. Qed.
Print Assumptions C12_smooth_heat_exterior_gradient_at_node_refuted.

(* ====================================================================================================== *)
(* magnetics: GetNodalB at a node inside one material                                                       *)
(* ====================================================================================================== *)
(* GetPointB with smoothing on is interp_c of the stored nodal b1 / b2: the theorems of (a) apply to B1 and B2.
   The nodal value at a node all of whose elements count as the same material is the mean of the surrounding elements'
   B weighted by 1/distance(node, centroid): a field that is the same in all of them is returned unchanged *)
Theorem C12_smooth_nodal_B_of_uniform_field :
  forall px py (b1 b2 : R * R) (around : list ((R * R) * (R * R) * (R * R))),
  Forall (fun e => snd (fst e) = b1 /\ snd e = b2) around ->
  fst (fst (fold_left (sm_avg_step RA px py) around (0, (0, 0), (0, 0)))) <> 0 ->
  sm_avgB RA px py around = (b1, b2).
Proof. exact sm_avgB_uniform. Qed.
Print Assumptions C12_smooth_nodal_B_of_uniform_field.

(* ====================================================================================================== *)
(* the hypotheses are satisfiable                                                                           *)
(* ====================================================================================================== *)
(* a non-degenerate fit: node 0 at the origin with three neighbours, V = 1 + 2x + 3y *)
Example ex_fit_nodes : list (ie_node (F:=R)) :=
  [mkIENode 0 0 1 (-2); mkIENode 1 0 3 (-2); mkIENode 0 1 4 (-2); mkIENode (-1) (-1) (-4) (-2)].
Example ex_fit_affine : forall k, In k ([1; 2; 3] ++ [0])%nat -> affine_at ex_fit_nodes 1 2 3 k.
Proof.
  intros k Hk. cbn in Hk. unfold affine_at.
  destruct Hk as [<-|[<-|[<-|[<-|[]]]]]; cbn; lra.
Qed.
Example ex_fit_not_degenerate : exists Ex Ey, nodal_fit RA ex_fit_nodes 0 [1; 2; 3]%nat 1 = Some (Ex, Ey).
Proof.
  unfold nodal_fit, fs_sums. cbn [app fold_left]. unfold fs_step, fs0, node_at. cbn [nth ex_fit_nodes ie_x ie_y ie_V].
  cbn [s_ii s_xi s_yi s_xx s_xy s_yy s_iv s_xv s_yv]. unfold fs_det. ra_simpl.
  match goal with |- context [Reqb ?d 0] => destruct (Reqb d 0) eqn:E end.
  - apply Reqb_true in E. exfalso. lra.
  - eexists. eexists. reflexivity.
Qed.
