(* Faults.v — C20 model: what each command-line tool / femmcli command does when an input it
   needs is missing.  Discrete model, single reading.  NO PROOFS in this file.

   The model is an interpreter over a TABLE OF LOAD STEPS that tools/translate_faults.py
   regenerates from the sources on every run (coq/theories/gen/FaultTable.v).  One table row =
   one place where a tool opens a file (or tests a content requirement of the problem), with
     - the role of the file in the run (problem file, .node/.pbc/.ele/.edge, previous solution ...),
     - when the step is executed (always / only when the problem names a previous solution ...),
     - whether the failure of the step is tested by EVERY caller up to main (r_checked), and the
       process exit status the source then produces (r_exit, as written in the source: it can be 0
       when the source turns the failure into "success", and it can be negative),
     - whether the data the step was to deliver is used afterwards (r_needed).
   Sources followed (cfemm/):  fmesher/main.cpp:main;  {f,e,h}solver/main.cpp:main,
   {FSolver,ESolver,HSolver}::LoadProblemFile/LoadMesh/runSolver/Write*, FSolver::loadPreviousSolution,
   HSolver::LoadPrev;  femmcli/main.cpp:main/execLuaFile, LuaBaseCommands.cpp:luaOpenDocument,
   Lua{Magnetics,Electrostatics,Heatflow}Commands.cpp:luaAnalyze, LuaCommonCommands.cpp:luaLoadSolution.

   Semantics of one run (run_rows): steps are executed in source order; a step FIRES when it is
   executed under the environment and its role is not Present.  A firing step whose failure is
   checked ends the run with the recorded exit status and nothing written; a firing step whose
   failure is ignored but whose data is used later is undefined behaviour = Abnormal (the real
   binary may die of a signal, hang, or "succeed" with garbage); a firing step that is ignored
   and not needed is skipped.  No step fires: exit 0, output written. *)
From Coq Require Import ZArith List String Bool.
Import ListNotations.
Local Open Scope string_scope.

(* ---- vocabulary -------------------------------------------------------------------------- *)
Inductive phys := Mag | Ele | Heat.

Inductive tool :=
  | Fmesher                        (* fmesher <file> *)
  | Solver (p : phys)              (* fsolver / esolver / hsolver <basename> *)
  | CliScript                      (* femmcli --lua-script=<file> : reading the script itself *)
  | CliOpen                        (* Lua open("file") *)
  | CliAnalyze (p : phys)          (* Lua mi_analyze / ei_analyze / hi_analyze *)
  | CliLoadSolution (p : phys).    (* Lua mi_loadsolution / ei_loadsolution / hi_loadsolution *)

Inductive role :=
  | Script | Problem | MeshNode | MeshPbc | MeshEle | MeshEdge | PrevSolution | Solution
  | Labels      (* content requirement: the problem has block labels *)
  | Material    (* content requirement: every block label names a material of the problem *)
  | Regions     (* content requirement: every meshed region carries a block label ("Material
                   properties have not been defined for all regions") *)
  | Output.     (* the place the result goes to can be written *)

Inductive fstate := Present | Absent | Unreadable.

Inductive cond :=
  | Always
  | IfPrev        (* only when the problem file names a previous solution *)
  | IfNoPrev      (* only when it does not (fsolver takes the mesh from the previous solution) *)
  | IfNoHoles     (* femmcli's "no block labels" test counts hole markers as labels *)
  | IfPeriodic    (* the problem has (anti)periodic boundary conditions: fmesher meshes twice *)
  | IfNotPeriodic.

Record row := mkRow {
  r_tool : tool; r_step : string; r_role : role; r_cond : cond;
  r_checked : bool; r_exit : Z; r_needed : bool }.

Record env := mkEnv { st : role -> fstate; prevref : bool; holes : bool; periodic : bool }.

Inductive outcome := Exit (code : Z) (written : bool) | Abnormal.

(* ---- finite enumerations and decidable equalities ------------------------------------------ *)
Definition all_phys : list phys := [Mag; Ele; Heat].
Definition all_tools : list tool :=
  [Fmesher; Solver Mag; Solver Ele; Solver Heat; CliScript; CliOpen;
   CliAnalyze Mag; CliAnalyze Ele; CliAnalyze Heat;
   CliLoadSolution Mag; CliLoadSolution Ele; CliLoadSolution Heat].
Definition all_roles : list role :=
  [Script; Problem; MeshNode; MeshPbc; MeshEle; MeshEdge; PrevSolution; Solution; Labels; Material; Regions; Output].

Definition phys_eqb (a b : phys) : bool :=
  match a, b with Mag, Mag | Ele, Ele | Heat, Heat => true | _, _ => false end.
Definition tool_eqb (a b : tool) : bool :=
  match a, b with
  | Fmesher, Fmesher | CliScript, CliScript | CliOpen, CliOpen => true
  | Solver p, Solver q | CliAnalyze p, CliAnalyze q | CliLoadSolution p, CliLoadSolution q => phys_eqb p q
  | _, _ => false
  end.
Definition role_index (r : role) : nat :=
  match r with
  | Script => 0 | Problem => 1 | MeshNode => 2 | MeshPbc => 3 | MeshEle => 4 | MeshEdge => 5
  | PrevSolution => 6 | Solution => 7 | Labels => 8 | Material => 9 | Regions => 10 | Output => 11
  end.
Definition role_eqb (a b : role) : bool := Nat.eqb (role_index a) (role_index b).

Definition is_present (s : fstate) : bool := match s with Present => true | _ => false end.

(* ---- the interpreter ----------------------------------------------------------------------- *)
Definition applies (c : cond) (e : env) : bool :=
  match c with
  | Always => true
  | IfPrev => prevref e
  | IfNoPrev => negb (prevref e)
  | IfNoHoles => negb (holes e)
  | IfPeriodic => periodic e
  | IfNotPeriodic => negb (periodic e)
  end.

Definition fires (r : row) (e : env) : bool :=
  applies (r_cond r) e && negb (is_present (st e (r_role r))).

(* tools whose successful run leaves a result file (mesh files / solution file) *)
Definition produces_output (t : tool) : bool :=
  match t with Fmesher | Solver _ | CliAnalyze _ => true | _ => false end.

Definition completed : string := "<completed>".

(* rows of one tool, in table (= source) order *)
Definition rows_of (tbl : list row) (t : tool) : list row := filter (fun r => tool_eqb (r_tool r) t) tbl.

(* outcome of the run of tool t over ITS rows, and the name of the step that decided it *)
Fixpoint run_rows (t : tool) (rows : list row) (e : env) : outcome * string :=
  match rows with
  | [] => (Exit 0 (produces_output t), completed)
  | r :: rest =>
      if fires r e then
        if r_checked r then (Exit (r_exit r) false, r_step r)
        else if r_needed r then (Abnormal, r_step r)
        else run_rows t rest e
      else run_rows t rest e
  end.

Definition run (tbl : list row) (t : tool) (e : env) : outcome := fst (run_rows t (rows_of tbl t) e).
Definition decider (tbl : list row) (t : tool) (e : env) : string := snd (run_rows t (rows_of tbl t) e).

(* ---- the property (specification side; independent of the table) ---------------------------- *)
(* which inputs a tool needs in an environment.  Material (a block label naming no material of the
   problem) is not a fault a solver can meet: in a problem FILE the material index 0 marks a hole,
   so only the Lua route (femmcli analyze) can present it. *)
Definition needs (t : tool) (e : env) (r : role) : bool :=
  match t with
  | Fmesher => match r with Problem | Output => true | _ => false end
  | Solver p =>
      match r with
      | Problem | Labels | Regions | Output => true
      | MeshNode | MeshPbc | MeshEle | MeshEdge =>
          (* fsolver with a previous solution takes the mesh from it (fsolver.cpp:LoadProblemFile) *)
          match p with Mag => negb (prevref e) | _ => true end
      | PrevSolution => match p with Ele => false | _ => prevref e end
      | _ => false
      end
  | CliScript => match r with Script => true | _ => false end
  | CliOpen => match r with Problem => true | _ => false end
  | CliAnalyze p =>
      (* the command writes the problem file and the mesh itself; they cannot be missing *)
      match r with
      | Labels | Material | Regions | Output => true
      | PrevSolution => match p with Ele => false | _ => prevref e end
      | _ => false
      end
  | CliLoadSolution _ => match r with Solution => true | _ => false end
  end.

Definition some_needed_missing (t : tool) (e : env) : bool :=
  existsb (fun r => needs t e r && negb (is_present (st e r))) all_roles.

(* process exit status of `return code` from main *)
Definition exit_status (code : Z) : Z := (code mod 256)%Z.

Definition ok_outcome (t : tool) (e : env) (o : outcome) : bool :=
  match o with
  | Abnormal => false
  | Exit c w =>
      if some_needed_missing t e
      then negb (Z.eqb (exit_status c) 0) && negb w
      else Z.eqb (exit_status c) 0 && Bool.eqb w (produces_output t)
  end.

(* the same, as a proposition *)
Definition needed_missing (t : tool) (e : env) : Prop :=
  exists r, needs t e r = true /\ st e r <> Present.

Definition property_at (tbl : list row) (t : tool) (e : env) : Prop :=
  (needed_missing t e ->
     exists c, run tbl t e = Exit c false /\ exit_status c <> 0%Z) /\
  (~ needed_missing t e ->
     exists c, run tbl t e = Exit c (produces_output t) /\ exit_status c = 0%Z).

(* ---- the finite domain ---------------------------------------------------------------------- *)
(* run / needs look at an environment only through is_present (st e r) and the three flags, so
   2^12 presence vectors x 8 flag settings represent every environment (FaultsProofs.v). *)
Fixpoint bitvecs (n : nat) : list (list bool) :=
  match n with
  | O => [[]]
  | S k => flat_map (fun v => [true :: v; false :: v]) (bitvecs k)
  end.

Definition env_of_bits (bs : list bool) (p h q : bool) : env :=
  mkEnv (fun r => if nth (role_index r) bs true then Present else Absent) p h q.

Definition bools : list bool := [false; true].

Definition all_envs : list env :=
  flat_map (fun v => flat_map (fun p => flat_map (fun h => map (fun q => env_of_bits v p h q) bools) bools) bools)
           (bitvecs (List.length all_roles)).

(* ---- exceptions: table rows known to break the property ------------------------------------- *)
Definition exc := (tool * string)%type.
Definition exc_eqb (a b : exc) : bool := tool_eqb (fst a) (fst b) && String.eqb (snd a) (snd b).
Definition exc_mem (x : exc) (l : list exc) : bool := existsb (exc_eqb x) l.

Definition ok_at (tbl : list row) (t : tool) (e : env) : bool := ok_outcome t e (run tbl t e).

(* the property holds, or the run is decided by an excepted row (rows = rows_of tbl t) *)
Definition ok_or_excepted (rows : list row) (xs : list exc) (t : tool) (e : env) : bool :=
  let r := run_rows t rows e in
  if ok_outcome t e (fst r) then true else exc_mem (t, snd r) xs.

(* every (tool, env) satisfies the property or is decided by an excepted row *)
Definition check_all (tbl : list row) (xs : list exc) : bool :=
  forallb (fun t => let rows := rows_of tbl t in forallb (ok_or_excepted rows xs t) all_envs) all_tools.

(* every excepted row really decides a failing run *)
Definition fails_by (rows : list row) (x : exc) (e : env) : bool :=
  let r := run_rows (fst x) rows e in
  if ok_outcome (fst x) e (fst r) then false else String.eqb (snd r) (snd x).
Definition check_exceptions_fail (tbl : list row) (xs : list exc) : bool :=
  forallb (fun x => let rows := rows_of tbl (fst x) in existsb (fails_by rows x) all_envs) xs.

(* the rows that break the property, computed (used by the check to print what the exception
   list should be) *)
Definition add_exc (acc : list exc) (x : exc) : list exc := if exc_mem x acc then acc else acc ++ [x].
Definition bad_rows (tbl : list row) : list exc :=
  fold_left (fun acc t =>
    let rows := rows_of tbl t in
    fold_left (fun acc e => let r := run_rows t rows e in
                            if ok_outcome t e (fst r) then acc else add_exc acc (t, snd r)) all_envs acc)
    all_tools [].

(* ---- printable forms for the correspondence harness ------------------------------------------ *)
Definition phys_name (p : phys) : string := match p with Mag => "m" | Ele => "e" | Heat => "h" end.
Definition tool_name (t : tool) : string :=
  match t with
  | Fmesher => "fmesher"
  | Solver Mag => "fsolver" | Solver Ele => "esolver" | Solver Heat => "hsolver"
  | CliScript => "femmcli-script"
  | CliOpen => "femmcli-open"
  | CliAnalyze p => "femmcli-analyze-" ++ phys_name p
  | CliLoadSolution p => "femmcli-loadsolution-" ++ phys_name p
  end.
Definition exc_names (l : list exc) : list (string * string) := map (fun x => (tool_name (fst x), snd x)) l.

(* (kind, exit status, written, deciding step): kind 0 = Exit, 1 = Abnormal *)
Definition run_named (tbl : list row) (t : tool) (e : env) : Z * Z * bool * string :=
  match run_rows t (rows_of tbl t) e with
  | (Exit c w, s) => (0%Z, exit_status c, w, s)
  | (Abnormal, s) => (1%Z, 0%Z, false, s)
  end.

(* environment with the listed roles in the given state, everything else present *)
Definition env_with (faults : list (role * fstate)) (p h q : bool) : env :=
  mkEnv (fun r => match find (fun x => role_eqb (fst x) r) faults with Some x => snd x | None => Present end) p h q.
