(* AsmHProofs.v — theorems about the model of HSolver::AnalyzeProblem (real reading).
   The statements of hsolver.cpp that are shared with esolver.cpp are modelled by AsmE's
   definitions applied to [eview P]; the lemmas of AsmEProofs about them (scatter as a list of
   operations, element row identity, prescribed-value elimination) are used as they are. *)
From Coq Require Import ZArith List Bool Arith Lia Reals Lra.
From XF Require Import Arith Sparse SparseProofs AsmOps AsmOpsProofs AsmE AsmEProofs KT AsmH.
Import ListNotations.
Local Open Scope R_scope.

(* projections of the 6-tuple returned by helem_matrices and the 5-tuple of hedge_step *)
Definition em_D {T1 T2 T3 T4 T5 T6} (r : T1 * T2 * T3 * T4 * T5 * T6) : T1 := fst (fst (fst (fst (fst r)))).
Definition em_k {T1 T2 T3 T4 T5 T6} (r : T1 * T2 * T3 * T4 * T5 * T6) : T2 := snd (fst (fst (fst (fst r)))).
Definition em_Me {T1 T2 T3 T4 T5 T6} (r : T1 * T2 * T3 * T4 * T5 * T6) : T3 := snd (fst (fst (fst r))).
Definition em_be {T1 T2 T3 T4 T5 T6} (r : T1 * T2 * T3 * T4 * T5 * T6) : T4 := snd (fst (fst r)).
Definition em_pows {T1 T2 T3 T4 T5 T6} (r : T1 * T2 * T3 * T4 * T5 * T6) : T5 := snd (fst r).
Definition em_rad {T1 T2 T3 T4 T5 T6} (r : T1 * T2 * T3 * T4 * T5 * T6) : T6 := snd r.
Definition es_Me {T1 T2 T3 T4 T5} (r : T1 * T2 * T3 * T4 * T5) : T2 := snd (fst (fst (fst r))).
Definition es_be {T1 T2 T3 T4 T5} (r : T1 * T2 * T3 * T4 * T5) : T3 := snd (fst (fst r)).

Section Shapes.
  Implicit Type Me be : vecT R.
  Variables (P : hprob (F:=R)) (Vo : vecT R).

  Lemma hedge_step_shape xs g el Depth Me be pows rad j : (j < 3)%nat -> sym9 Me -> len3 be ->
    let r := hedge_step RA P Vo xs g el (Depth, Me, be, pows, rad) j in sym9 (es_Me r) /\ len3 (es_be r).
  Proof.
    intros Hj (m00 & m01 & m02 & m11 & m12 & m22 & ->) (b0 & b1 & b2 & ->).
    unfold hedge_step, es_Me, es_be.
    destruct (tri_get (ee el) j) as [e|]; [|cbn; split; [do 6 eexists|do 3 eexists]; reflexivity].
    destruct (hfmt (nth e (hlines P) (dhline RA))) as [|[|[|[|bf]]]]; cbn [Nat.eqb orb];
      try (cbn; split; [do 6 eexists|do 3 eexists]; reflexivity);
      destruct (haxi P); try destruct pows as [|[[pa pb] pc] pows];
      destruct j as [|[|[|j]]]; try lia;
      cbn; (split; [do 6 eexists|do 3 eexists]; reflexivity).
  Qed.

  Lemma hedge_terms_shape xs g el D Me be pows : sym9 Me -> len3 be ->
    let r := hedge_terms RA P Vo xs g el D Me be pows in sym9 (es_Me r) /\ len3 (es_be r).
  Proof.
    intros S0 B0. unfold hedge_terms. cbn [fold_left].
    destruct (hedge_step_shape xs g el D Me be pows false 0%nat ltac:(lia) S0 B0) as [S1 B1].
    destruct (hedge_step RA P Vo xs g el (D, Me, be, pows, false) 0%nat) as [[[[D1 Me1] be1] pw1] r1].
    unfold es_Me, es_be in S1, B1. cbn [fst snd] in S1, B1.
    destruct (hedge_step_shape xs g el D1 Me1 be1 pw1 r1 1%nat ltac:(lia) S1 B1) as [S2 B2].
    destruct (hedge_step RA P Vo xs g el (D1, Me1, be1, pw1, r1) 1%nat) as [[[[D2 Me2] be2] pw2] r2].
    unfold es_Me, es_be in S2, B2. cbn [fst snd] in S2, B2.
    destruct (hedge_step_shape xs g el D2 Me2 be2 pw2 r2 2%nat ltac:(lia) S2 B2) as [S3 B3].
    exact (conj S3 B3).
  Qed.

  Lemma m3add_diag_sym9 Me K : sym9 Me ->
    sym9 (m3add RA (m3add RA (m3add RA Me 0 0 K) 1 1 K) 2 2 K).
  Proof. intros (m00 & m01 & m02 & m11 & m12 & m22 & ->). cbn. do 6 eexists. reflexivity. Qed.

  Lemma helem_matrices_shape extRo extRi extZo D0 k0 pows el :
    let r := helem_matrices RA P Vo extRo extRi extZo D0 k0 pows el in
    sym9 (em_Me r) /\ len3 (em_be r).
  Proof.
    unfold helem_matrices. cbv zeta.
    match goal with |- context [let '(a, b) := (if haxi P then ?X else ?Y) in _] =>
      destruct (if haxi P then X else Y) as [Dp kl] end.
    match goal with |- context [stiff_add RA (stiff_add RA ?Z ?K1 ?s1) ?K2 ?s2] =>
      assert (S0 : sym9 (stiff_add RA (stiff_add RA Z K1 s1) K2 s2))
        by (unfold geom; cbn [gp gq]; apply stiff_add_sym9, stiff_add_sym9; cbn; do 6 eexists; reflexivity);
      set (Me0 := stiff_add RA (stiff_add RA Z K1 s1) K2 s2) in *
    end.
    assert (B0 : len3 (repeat (azero RA) 3)) by (cbn; do 3 eexists; reflexivity).
    set (be0 := repeat (azero RA) 3) in *.
    match goal with |- context [let '(a, b) := (if aeqb RA (hdT P) (azero RA) then ?X else ?Y) in _] =>
      assert (SB : sym9 (fst (if aeqb RA (hdT P) (azero RA) then X else Y)) /\
                   len3 (snd (if aeqb RA (hdT P) (azero RA) then X else Y)));
      [|destruct (if aeqb RA (hdT P) (azero RA) then X else Y) as [Me1 be1]]
    end.
    { destruct (aeqb RA (hdT P) (azero RA)); cbn [fst snd]; [split; assumption|].
      split; [apply m3add_diag_sym9; exact S0|].
      destruct B0 as (b0 & b1 & b2 & ->). cbn. do 3 eexists. reflexivity. }
    cbn [fst snd] in SB. destruct SB as [S1 B1].
    match goal with |- context [hedge_terms RA P Vo ?xs ?g el ?D ?Me ?be pows] =>
      assert (B2 : len3 be) by (destruct B1 as (b0 & b1 & b2 & ->); cbn; do 3 eexists; reflexivity);
      destruct (hedge_terms_shape xs g el D Me be pows S1 B2) as [S3 B3];
      destruct (hedge_terms RA P Vo xs g el D Me be pows) as [[[[D3 Me3] be3] pw3] r3]
    end.
    unfold es_Me, es_be, em_Me, em_be in *. cbn [fst snd] in *. split; assumption.
  Qed.
End Shapes.

Section Loop.
  Local Notation vgetR := (vget RA).
  Variables (P : hprob (F:=R)) (nn : nat) (Vo : vecT R) (extRo extRi extZo : R) (V : vecT R) (Q : list Z).

  (* sum over the element list of the local residuals (after the prescribed-value processing)
     of the local rows assembled into global row i; (D,k,pows) is the running state *)
  Fixpoint hloop_resid (els : list eelem) (D k : R) (pows : list (R * R * R)) (U : vecT R) (i : nat) : R :=
    match els with
    | [] => 0
    | el :: t =>
        let r := helem_matrices RA P Vo extRo extRi extZo D k pows el in
        let mb := presc_mb V Q (ep el) (em_Me r) (em_be r) in
        ((if Nat.eqb (tri_get (ep el) 0) i then local_resid (fst mb) (snd mb) (ep el) U 0 else 0)
         + (if Nat.eqb (tri_get (ep el) 1) i then local_resid (fst mb) (snd mb) (ep el) U 1 else 0)
         + (if Nat.eqb (tri_get (ep el) 2) i then local_resid (fst mb) (snd mb) (ep el) U 2 else 0))
        + hloop_resid t (em_D r) (em_k r) (em_pows r) U i
    end.

  Lemma helem_step_rows s el U :
    mat_wf (hsM s) -> length (hsb s) = length (hsM s) -> elem_ok (eview RA P) nn (length (hsM s)) el ->
    let s' := helem_step RA P nn Vo extRo extRi extZo V Q s el in
    let r := helem_matrices RA P Vo extRo extRi extZo (hsDepth s) (hsKludge s) (hsPows s) el in
    let mb := presc_mb V Q (ep el) (em_Me r) (em_be r) in
    mat_wf (hsM s') /\ length (hsM s') = length (hsM s) /\ length (hsb s') = length (hsb s) /\
    hsDepth s' = em_D r /\ hsKludge s' = em_k r /\ hsPows s' = em_pows r /\
    forall i, (i < length (hsM s))%nat ->
      Ax (hsM s') U i - vgetR (hsb s') i =
      (Ax (hsM s) U i - vgetR (hsb s) i)
      - ((if Nat.eqb (tri_get (ep el) 0) i then local_resid (fst mb) (snd mb) (ep el) U 0 else 0)
         + (if Nat.eqb (tri_get (ep el) 1) i then local_resid (fst mb) (snd mb) (ep el) U 1 else 0)
         + (if Nat.eqb (tri_get (ep el) 2) i then local_resid (fst mb) (snd mb) (ep el) U 2 else 0)).
  Proof.
    intros Hwf Hb (Hnf & Hd & H0 & H1 & H2) s' r mb.
    unfold s', helem_step. fold r.
    destruct r as [[[[[D' k'] Me] be] pw'] rad'] eqn:Er. unfold em_Me, em_be in mb. cbn [fst snd] in mb.
    pose proof (presc_terms_mb (eview RA P) V Q (ep el) Me be (hsCondK s) (hsCondB s)) as Hmb. cbv zeta in Hmb.
    destruct (presc_terms RA (eview RA P) V Q (ep el) Me be (hsCondK s) (hsCondB s)) as [[[Me' be'] cK] cB].
    cbn [fst snd] in Hmb. fold mb in Hmb.
    rewrite scatter_as_ops. cbn [hsM hsb hsDepth hsKludge hsPows fst snd].
    assert (Hm : mops_in_range (length (hsM s)) (scatter_mops (eview RA P) nn (ep el) Me')).
    { destruct Hnf as (E0 & E1 & E2). unfold scatter_mops, tie_ops. rewrite E0, E1, E2, !Nat.eqb_refl.
      cbn [app]. repeat constructor; cbn [fst snd]; auto. }
    assert (Hbo : bops_in_range (length (hsb s)) (scatter_bops (eview RA P) nn (ep el) be')).
    { destruct Hnf as (E0 & E1 & E2). unfold scatter_bops. rewrite E0, E1, E2, Hb.
      repeat constructor; cbn [fst snd]; auto. }
    destruct (assembled_rows (hsM s) (hsb s) _ _ U Hwf Hm Hbo) as (W & L1 & L2 & HR).
    split; [exact W|]. split; [exact L1|]. split; [exact L2|].
    unfold em_D, em_k, em_pows. cbn [fst snd].
    split; [reflexivity|]. split; [reflexivity|]. split; [reflexivity|].
    intros i Hi. rewrite (HR i Hi).
    pose proof (elem_row_identity (eview RA P) nn (ep el) Me' be' U i Hnf Hd) as G.
    assert (EM : Me' = fst mb) by (rewrite <- Hmb; reflexivity).
    assert (EB : be' = snd mb) by (rewrite <- Hmb; reflexivity).
    rewrite <- EM, <- EB. lra.
  Qed.

  Theorem hloop_rows U : forall els s,
    mat_wf (hsM s) -> length (hsb s) = length (hsM s) -> Forall (elem_ok (eview RA P) nn (length (hsM s))) els ->
    let s' := fold_left (helem_step RA P nn Vo extRo extRi extZo V Q) els s in
    mat_wf (hsM s') /\ length (hsM s') = length (hsM s) /\ length (hsb s') = length (hsb s) /\
    forall i, (i < length (hsM s))%nat ->
      Ax (hsM s') U i - vgetR (hsb s') i =
      (Ax (hsM s) U i - vgetR (hsb s) i) - hloop_resid els (hsDepth s) (hsKludge s) (hsPows s) U i.
  Proof.
    induction els as [|el els IH]; intros s Hwf Hb Hok.
    - simpl. split; [auto|]. split; [auto|]. split; [auto|]. intros; lra.
    - apply Forall_cons_iff in Hok. destruct Hok as [Hel Hok].
      destruct (helem_step_rows s el U Hwf Hb Hel) as (W1 & L1 & L2 & ED & EK & EP & HR).
      cbn [fold_left].
      set (s1 := helem_step RA P nn Vo extRo extRi extZo V Q s el) in *.
      destruct (IH s1 W1) as (W & L & Lb & HR2); [lia|rewrite L1; exact Hok|].
      split; [exact W|]. split; [lia|]. split; [lia|].
      intros i Hi. rewrite HR2 by lia. rewrite HR by auto. cbn [hloop_resid].
      rewrite ED, EK, EP. lra.
  Qed.
End Loop.

Section Galerkin.
  Local Notation vgetR := (vget RA).
  Variables (P : hprob (F:=R)) (Vo : vecT R) (extRo extRi extZo : R).

  Lemma hedge_terms_none xs g el D Me be pows :
    ee el = (None, None, None) -> hedge_terms RA P Vo xs g el D Me be pows = (D, Me, be, pows, false).
  Proof. intros He. unfold hedge_terms, hedge_step. rewrite He. reflexivity. Qed.

  (* the lumped transient coefficient added by an element (0 for a steady problem) *)
  Definition lump_K (D : R) (el : eelem) : R :=
    if Reqb (hdT P) 0 then 0
    else transient_K RA P D (nth (eblk el) (hblocks P) (dhblock RA)) (ga (el_geom (eview RA P) el)).

  Lemma helem_matrices_noedge D0 k0 pows el :
    ee el = (None, None, None) ->
    let r := helem_matrices RA P Vo extRo extRi extZo D0 k0 pows el in
    let dk := elem_dk (eview RA P) extRo extRi extZo D0 k0 el in
    let blk := nth (eblk el) (hblocks P) (dhblock RA) in
    let g := el_geom (eview RA P) el in
    let kn := kn_of RA P Vo el in
    em_D r = fst dk /\ em_k r = snd dk /\ em_pows r = pows /\ em_rad r = false /\
    (forall j k, (j < 3)%nat -> (k < 3)%nat ->
       m3get RA (em_Me r) j k =
         - fst dk * fst kn / (4 * ga g) / snd dk * vgetR (gp g) j * vgetR (gp g) k
         + - fst dk * snd kn / (4 * ga g) / snd dk * vgetR (gq g) j * vgetR (gq g) k
         + (if Nat.eqb j k then lump_K (fst dk) el else 0)) /\
    (forall j, (j < 3)%nat ->
       vgetR (em_be r) j = lump_K (fst dk) el * vgetR (htprev P) (tri_get (ep el) j)
                           + - fst dk * hqv blk * ga g / 3).
  Proof.
    intros He r dk blk g kn. unfold r, helem_matrices. cbv zeta.
    change (nodes (eview RA P)) with (hnodes P) in *.
    fold (el_geom (eview RA P) el). fold g. fold blk. fold kn.
    match goal with |- context [let '(a, b) := (if haxi P then ?X else ?Y) in _] =>
      change (if haxi P then X else Y) with dk end.
    destruct dk as [Dp kl] eqn:Edk. cbn [fst snd].
    unfold lump_K. fold blk. fold g. ra_simpl.
    assert (Hgp : gp g = [vgetR (gp g) 0; vgetR (gp g) 1; vgetR (gp g) 2]) by reflexivity.
    assert (Hgq : gq g = [vgetR (gq g) 0; vgetR (gq g) 1; vgetR (gq g) 2]) by reflexivity.
    set (p0 := vgetR (gp g) 0) in *. set (p1 := vgetR (gp g) 1) in *. set (p2 := vgetR (gp g) 2) in *.
    set (q0 := vgetR (gq g) 0) in *. set (q1 := vgetR (gq g) 1) in *. set (q2 := vgetR (gq g) 2) in *.
    rewrite Hgp, Hgq.
    destruct (Reqb (hdT P) 0); rewrite hedge_terms_none by exact He;
      unfold em_D, em_k, em_pows, em_rad, em_Me, em_be; cbn [fst snd];
      (split; [reflexivity|]); (split; [reflexivity|]); (split; [reflexivity|]); (split; [reflexivity|]); split.
    - intros j k Hj Hk. destruct j as [|[|[|j]]]; try lia; destruct k as [|[|[|k]]]; try lia; cbn; ra_simpl; lra.
    - intros j Hj. destruct j as [|[|[|j]]]; try lia; cbn; ra_simpl; lra.
    - intros j k Hj Hk. destruct j as [|[|[|j]]]; try lia; destruct k as [|[|[|k]]]; try lia; cbn; ra_simpl; lra.
    - intros j Hj. destruct j as [|[|[|j]]]; try lia; cbn; ra_simpl; lra.
  Qed.
End Galerkin.

Section GalerkinTheorems.
  Local Notation vgetR := (vget RA).
  Variables (P : hprob (F:=R)) (Vo : vecT R) (extRo extRi extZo : R).

  (* (b) the conduction part of the element matrix is minus the linear-triangle Galerkin
     stiffness of div(k grad T) with (kx,ky) = kn, the mean of the three nodal conductivities
     at the previous iterate; the diagonal carries in addition the lumped transient term *)
  Theorem conduction_is_galerkin D0 k0 pows el j k :
    ee el = (None, None, None) -> (j < 3)%nat -> (k < 3)%nat ->
    ga (el_geom (eview RA P) el) <> 0 -> snd (elem_dk (eview RA P) extRo extRi extZo D0 k0 el) <> 0 ->
    let r := helem_matrices RA P Vo extRo extRi extZo D0 k0 pows el in
    let dk := elem_dk (eview RA P) extRo extRi extZo D0 k0 el in
    let kn := kn_of RA P Vo el in
    m3get RA (em_Me r) j k =
      - galerkin_K (fst dk) (fst kn) (snd kn) (el_geom (eview RA P) el) j k / snd dk
      + (if Nat.eqb j k then lump_K P (fst dk) el else 0).
  Proof.
    intros He Hj Hk Ha Hkl r dk kn.
    destruct (helem_matrices_noedge P Vo extRo extRi extZo D0 k0 pows el He) as (_ & _ & _ & _ & HM & _).
    unfold r. rewrite (HM j k Hj Hk). unfold galerkin_K. fold dk kn. field. split; assumption.
  Qed.

  (* heat balance at element level: every column of the conduction part sums to zero (the
     column sum of the whole matrix is the lumped transient coefficient, 0 when dT = 0) *)
  Theorem conduction_column_sums D0 k0 pows el k :
    ee el = (None, None, None) -> (k < 3)%nat ->
    let r := helem_matrices RA P Vo extRo extRi extZo D0 k0 pows el in
    m3get RA (em_Me r) 0 k + m3get RA (em_Me r) 1 k + m3get RA (em_Me r) 2 k
    = lump_K P (fst (elem_dk (eview RA P) extRo extRi extZo D0 k0 el)) el.
  Proof.
    intros He Hk r.
    destruct (helem_matrices_noedge P Vo extRo extRi extZo D0 k0 pows el He) as (_ & _ & _ & _ & HM & _).
    unfold r. rewrite !HM by lia. unfold el_geom, geom. cbn [gp gq ga]. unfold vget. cbn [nth].
    destruct k as [|[|[|k]]]; try lia; cbn [Nat.eqb]; ra_simpl; ring.
  Qed.

  (* (c) the transient term: K = -Depth*Kt*a/(3 dT) is added to the three diagonal entries and
     K*Tprev[n_j] to be[j]; the same K is minus the row sum of the consistent capacity matrix
     Depth*Kt*a/12*[2 1 1;1 2 1;1 1 2]/dT (row-sum lumping) *)
  Definition consistent_mass (D kt a dT : R) (j k : nat) : R :=
    D * kt * a / 12 * (if Nat.eqb j k then 2 else 1) / dT.

  Theorem lumped_is_rowsum (D kt a dT : R) j : (j < 3)%nat -> dT <> 0 ->
    consistent_mass D kt a dT j 0 + consistent_mass D kt a dT j 1 + consistent_mass D kt a dT j 2
    = D * kt * a / (3 * dT).
  Proof.
    intros Hj HdT. unfold consistent_mass.
    destruct j as [|[|[|j]]]; try lia; simpl; field; exact HdT.
  Qed.

  Theorem lumped_transient_term D0 k0 pows el :
    ee el = (None, None, None) -> hdT P <> 0 ->
    let r := helem_matrices RA P Vo extRo extRi extZo D0 k0 pows el in
    let D := fst (elem_dk (eview RA P) extRo extRi extZo D0 k0 el) in
    let blk := nth (eblk el) (hblocks P) (dhblock RA) in
    let a := ga (el_geom (eview RA P) el) in
    let K := - (D * hkt blk * a / (3 * hdT P)) in
    lump_K P D el = K /\
    (forall j, (j < 3)%nat ->
       K = - (consistent_mass D (hkt blk) a (hdT P) j 0 + consistent_mass D (hkt blk) a (hdT P) j 1
              + consistent_mass D (hkt blk) a (hdT P) j 2)) /\
    (forall j, (j < 3)%nat ->
       vgetR (em_be r) j = K * vgetR (htprev P) (tri_get (ep el) j) + - D * hqv blk * a / 3).
  Proof.
    intros He HdT r D blk a K.
    assert (EK : lump_K P D el = K).
    { unfold lump_K, transient_K. destruct (Reqb (hdT P) 0) eqn:E; [apply Reqb_true in E; contradiction|].
      fold blk. fold a. unfold K. ra_simpl. field. exact HdT. }
    split; [exact EK|]. split.
    - intros j Hj. rewrite lumped_is_rowsum by assumption. reflexivity.
    - intros j Hj.
      destruct (helem_matrices_noedge P Vo extRo extRi extZo D0 k0 pows el He) as (_ & _ & _ & _ & _ & HB).
      unfold r. rewrite (HB j Hj). fold D. rewrite EK. reflexivity.
  Qed.

  (* on a spatially constant field the lumped and the consistent capacity matrices agree *)
  Theorem lumped_agrees_on_constants (D kt a dT c : R) j : (j < 3)%nat -> dT <> 0 ->
    consistent_mass D kt a dT j 0 * c + consistent_mass D kt a dT j 1 * c + consistent_mass D kt a dT j 2 * c
    = D * kt * a / (3 * dT) * c.
  Proof. intros Hj H. rewrite <- (lumped_is_rowsum D kt a dT j Hj H). ring. Qed.
End GalerkinTheorems.

Section Edges.
  Local Notation vgetR := (vget RA).
  Variables (P : hprob (F:=R)) (Vo : vecT R).

  (* Tlast=(Vo[n[j]]+Vo[n[k]])/2. *)
  Definition edge_Tlast (el : eelem) (j : nat) : R :=
    (vgetR Vo (tri_get (ep el) j) + vgetR Vo (tri_get (ep el) (nxt j))) / 2.

  (* the boundary law of an edge, k dT/dn + c0*T + c1 = 0, by boundary type *)
  Definition edge_coeffs (lp : hline (F:=R)) (Tlast : R) : option (R * R) :=
    match hfmt lp with
    | 1%nat => Some (0, hqs lp)
    | 2%nat => Some (hh lp, - hh lp * hTinf lp)
    | 3%nat => Some (4 * hbeta lp * ksb RA * pow3 RA Tlast,
                     - (hbeta lp * ksb RA * (pow4 RA (hTinf lp) + 3 * pow4 RA Tlast)))
    | _ => None
    end.

  (* what one boundary edge j (from local node j to k = j+1 mod 3) adds to Me[a][b] and be[a] *)
  Definition edge_Me (axi : bool) (D c0 l xj xk : R) (j a b : nat) : R :=
    let k := nxt j in
    if axi then
      let K := - 2 * PI * c0 * l / 6 in
      if (Nat.eqb a j && Nat.eqb b j)%bool then K * 2 * (3 * xj + xk) / 4
      else if (Nat.eqb a k && Nat.eqb b k)%bool then K * 2 * (xj + 3 * xk) / 4
      else if ((Nat.eqb a j && Nat.eqb b k) || (Nat.eqb a k && Nat.eqb b j))%bool then K * (xj + xk) / 2
      else 0
    else
      let K := - D * c0 * l / 6 in
      if ((Nat.eqb a j && Nat.eqb b j) || (Nat.eqb a k && Nat.eqb b k))%bool then K * 2
      else if ((Nat.eqb a j && Nat.eqb b k) || (Nat.eqb a k && Nat.eqb b j))%bool then K
      else 0.
  Definition edge_be (axi : bool) (D c1 l xj xk : R) (j a : nat) : R :=
    let k := nxt j in
    if axi then
      let K := 2 * PI * c1 * l / 2 in
      if Nat.eqb a j then K * (2 * xj + xk) / 3 else if Nat.eqb a k then K * (xj + 2 * xk) / 3 else 0
    else
      let K := D * c1 * l / 2 in
      if (Nat.eqb a j || Nat.eqb a k)%bool then K else 0.

  Lemma hedge_step_spec xs g el D m0 m1 m2 m3 m4 m5 m6 m7 m8 b0 b1 b2 rad j e c0 c1 :
    (j < 3)%nat -> tri_get (ee el) j = Some e ->
    edge_coeffs (nth e (hlines P) (dhline RA)) (edge_Tlast el j) = Some (c0, c1) ->
    let Me := [m0; m1; m2; m3; m4; m5; m6; m7; m8] in
    let be := [b0; b1; b2] in
    let r := hedge_step RA P Vo xs g el (D, Me, be, [], rad) j in
    let xj := vgetR xs j in
    let xk := vgetR xs (nxt j) in
    let D' := if haxi P then PI * (xj + xk) else D in
    let l := vgetR (gl g) j in
    fst (fst (fst (fst r))) = D' /\
    (forall a b, (a < 3)%nat -> (b < 3)%nat ->
       m3get RA (es_Me r) a b = m3get RA Me a b + edge_Me (haxi P) D' c0 l xj xk j a b) /\
    (forall a, (a < 3)%nat -> vgetR (es_be r) a = vgetR be a + edge_be (haxi P) D' c1 l xj xk j a).
  Proof.
    intros Hj He Hc Me be r xj xk D' l.
    unfold r, hedge_step, es_Me, es_be. rewrite He.
    unfold edge_coeffs in Hc. unfold edge_Tlast in Hc.
    fold xj xk l.
    destruct (hfmt (nth e (hlines P) (dhline RA))) as [|[|[|[|bf]]]]; try discriminate Hc;
      injection Hc as <- <-; cbn [Nat.eqb orb]; unfold D', edge_Me, edge_be;
      destruct (haxi P); cbn [fst snd];
      (split; [reflexivity|]);
      destruct j as [|[|[|j]]]; try lia; cbn [nxt]; subst Me be;
      (split; [intros a b Ha Hb; destruct a as [|[|[|a]]]; try lia; destruct b as [|[|[|b]]]; try lia
              |intros a Ha; destruct a as [|[|[|a]]]; try lia]);
      cbn; ra_simpl; lra.
  Qed.

  (* the laws: heat flux, convection, radiation *)
  Theorem flux_law lp T c0 c1 : hfmt lp = 1%nat -> edge_coeffs lp T = Some (c0, c1) ->
    c0 * T + c1 = hqs lp.
  Proof. unfold edge_coeffs. intros ->. intros [= <- <-]. ring. Qed.

  Theorem convection_law lp T c0 c1 : hfmt lp = 2%nat -> edge_coeffs lp T = Some (c0, c1) ->
    c0 * T + c1 = hh lp * (T - hTinf lp).
  Proof. unfold edge_coeffs. intros ->. intros [= <- <-]. ring. Qed.

  (* (d) the radiation linearisation is exact at the temperature it is linearised about *)
  Theorem radiation_fixed_point lp T c0 c1 : hfmt lp = 3%nat -> edge_coeffs lp T = Some (c0, c1) ->
    c0 * T + c1 = hbeta lp * ksb RA * (T ^ 4 - hTinf lp ^ 4).
  Proof. unfold edge_coeffs. intros ->. intros [= <- <-]. unfold pow3, pow4. ra_simpl. ring. Qed.

  (* and it is the tangent (Newton) linearisation: value and slope of beta*Ksb*(T^4-Tinf^4) at Tlast *)
  Theorem radiation_is_tangent lp Tl T c0 c1 : hfmt lp = 3%nat -> edge_coeffs lp Tl = Some (c0, c1) ->
    c0 * T + c1 = hbeta lp * ksb RA * (Tl ^ 4 - hTinf lp ^ 4) + 4 * hbeta lp * ksb RA * Tl ^ 3 * (T - Tl).
  Proof. unfold edge_coeffs. intros ->. intros [= <- <-]. unfold pow3, pow4. ra_simpl. ring. Qed.
End Edges.

(* ---------------- CHMaterialProp::GetK ---------------- *)
Section GetK.
  Implicit Type tk : list (R * R).

  (* strictly increasing temperatures *)
  Fixpoint tk_sorted tk : Prop :=
    match tk with
    | (t0, _) :: (((t1, _) :: _) as rest) => t0 < t1 /\ tk_sorted rest
    | _ => True
    end.

  Lemma tk_sorted_tail p tk : tk_sorted (p :: tk) -> tk_sorted tk.
  Proof. destruct p as [t0 k0]. destruct tk as [|[t1 k1] tk]; simpl; tauto. Qed.

  Lemma tk_sorted_lt t0 k0 : forall tk, tk_sorted ((t0, k0) :: tk) -> forall t k, In (t, k) tk -> t0 < t.
  Proof.
    intros tk. revert t0 k0. induction tk as [|[t1 k1] tk IH]; intros t0 k0 Hs t k Hin; [contradiction|].
    destruct Hs as [H01 Hs]. destruct Hin as [E|Hin].
    - injection E as <- <-. exact H01.
    - specialize (IH t1 k1 Hs t k Hin). lra.
  Qed.

  Lemma tk_sorted_app_r pre : forall tk, tk_sorted (pre ++ tk) -> tk_sorted tk.
  Proof. induction pre as [|p pre IH]; intros tk H; [exact H|]. apply IH. exact (tk_sorted_tail p _ H). Qed.

  Lemma last_in {T} (l : list T) d : l <> [] -> In (last l d) l.
  Proof.
    induction l as [|x l IH]; [congruence|]. intros _. destruct l as [|y l]; [left; reflexivity|].
    right. apply IH. discriminate.
  Qed.

  Lemma getk_no_table kx ky t : getk RA kx ky [] t = (kx, ky).
  Proof. unfold getk, k_linear. ra_simpl. f_equal; ring. Qed.

  Lemma getk_single kx ky t0 k0 t : getk RA kx ky [(t0, k0)] t = (k0, k0).
  Proof. unfold getk, k_both. ra_simpl. f_equal; ring. Qed.

  Lemma k_both_R k : k_both RA k = (k, k).
  Proof. unfold k_both. ra_simpl. f_equal; ring. Qed.
  Lemma k_both'_R k : k_both' RA k = (k, k).
  Proof. unfold k_both'. ra_simpl. f_equal; ring. Qed.

  (* clamping below the first knot *)
  Theorem getk_clamp_low kx ky t0 k0 tk t : t <= t0 -> getk RA kx ky ((t0, k0) :: tk) t = (k0, k0).
  Proof.
    intros Ht. destruct tk as [|p tk]; [apply getk_single|].
    unfold getk. ra_simpl. destruct (Rleb t t0) eqn:E; [apply k_both_R|].
    apply Rleb_false in E. contradiction.
  Qed.

  (* clamping above the last knot *)
  Theorem getk_clamp_high kx ky tk tl kl t d : tk <> [] -> tk_sorted tk -> last tk d = (tl, kl) -> tl <= t ->
    getk RA kx ky tk t = (kl, kl).
  Proof.
    intros Hne Hs Hl Ht. destruct tk as [|[t0 k0] tk]; [congruence|].
    destruct tk as [|p tk].
    - simpl in Hl. injection Hl as <- <-. apply getk_single.
    - assert (Hl' : last ((t0, k0) :: p :: tk) (t0, k0) = (tl, kl)).
      { rewrite <- Hl. clear. revert p. generalize (t0, k0) at 1 3. induction tk as [|q tk IH]; intros x p; [reflexivity|].
        change (last (x :: p :: q :: tk) (t0, k0)) with (last (p :: q :: tk) (t0, k0)).
        change (last (x :: p :: q :: tk) d) with (last (p :: q :: tk) d). apply IH. }
      assert (Hlt : t0 < tl).
      { apply (tk_sorted_lt t0 k0 (p :: tk) Hs tl kl).
        assert (E : last (p :: tk) (t0, k0) = (tl, kl)) by exact Hl'.
        rewrite <- E. apply last_in. discriminate. }
      unfold getk. ra_simpl. destruct (Rleb t t0) eqn:E; [apply Rleb_true in E; lra|].
      rewrite Hl'. destruct (Rleb tl t) eqn:E2; [apply k_both_R|]. apply Rleb_false in E2. contradiction.
  Qed.

  Lemma k_interp_left ti ki tj kj : ti <> tj -> k_interp RA ti ki tj kj ti = ki.
  Proof. intros H. unfold k_interp. ra_simpl. field. lra. Qed.
  Lemma k_interp_right ti ki tj kj : ti <> tj -> k_interp RA ti ki tj kj tj = kj.
  Proof. intros H. unfold k_interp. ra_simpl. field. lra. Qed.

  (* the segment scan returns the interpolant of any segment that contains t *)
  Lemma getk_scan_segment ti ki tj kj post t : ti <= t <= tj -> forall pre,
    tk_sorted (pre ++ (ti, ki) :: (tj, kj) :: post) ->
    getk_scan RA t (pre ++ (ti, ki) :: (tj, kj) :: post) = Some (k_interp RA ti ki tj kj t).
  Proof.
    intros Ht. induction pre as [|[ta ka] pre IH]; intros Hs.
    - simpl. ra_simpl. destruct (Rleb ti t) eqn:E1; [|apply Rleb_false in E1; lra].
      destruct (Rleb t tj) eqn:E2; [|apply Rleb_false in E2; lra]. reflexivity.
    - pose proof (tk_sorted_tail _ _ Hs) as Hs'.
      destruct pre as [|[tb kb] pre].
      + (* the segment just before (ti,ki) *)
        simpl app in *. simpl getk_scan. ra_simpl.
        destruct (Rleb ta t && Rleb t ti)%bool eqn:E.
        * apply andb_true_iff in E. destruct E as [E1 E2]. apply Rleb_true in E1, E2.
          assert (t = ti) by lra. subst t.
          destruct Hs as [Hai [Hij _]].
          rewrite k_interp_left by lra. f_equal. unfold k_interp; ra_simpl. field. lra.
        * specialize (IH Hs'). simpl in IH. ra_simpl. exact IH.
      + simpl app in *. simpl getk_scan. ra_simpl.
        destruct (Rleb ta t && Rleb t tb)%bool eqn:E.
        * apply andb_true_iff in E. destruct E as [E1 E2]. apply Rleb_true in E1, E2.
          (* tb < ti <= t <= tb: impossible *)
          assert (tb < ti).
          { apply (tk_sorted_lt tb kb (pre ++ (ti, ki) :: (tj, kj) :: post) Hs' ti ki).
            apply in_or_app. right. left. reflexivity. }
          lra.
        * apply IH. exact Hs'.
  Qed.

  (* (f) on every segment of a strictly increasing table the conductivity is the linear
     interpolant of the two knots, both components *)
  Theorem getk_on_segment kx ky pre ti ki tj kj post t :
    tk_sorted (pre ++ (ti, ki) :: (tj, kj) :: post) -> ti <= t <= tj ->
    let v := k_interp RA ti ki tj kj t in
    getk RA kx ky (pre ++ (ti, ki) :: (tj, kj) :: post) t = (v, v).
  Proof.
    intros Hs Ht v.
    set (tk := pre ++ (ti, ki) :: (tj, kj) :: post) in *.
    assert (Hij : ti < tj) by (destruct (tk_sorted_app_r pre _ Hs) as [H _]; exact H).
    destruct tk as [|[t0 k0] tk'] eqn:Etk; [destruct pre; discriminate|].
    destruct tk' as [|p tk'']; [destruct pre as [|? [|? ?]]; discriminate|].
    unfold getk. ra_simpl.
    destruct (Rleb t t0) eqn:E0.
    { (* t <= t0: then t = t0 = ti and the segment is the first one *)
      apply Rleb_true in E0. rewrite k_both_R.
      destruct pre as [|[ta ka] pre].
      - simpl in Etk. injection Etk as -> -> _. assert (t = ti) by lra. subst t.
        unfold v. rewrite k_interp_left by lra. reflexivity.
      - simpl in Etk. injection Etk as -> -> Etk'.
        assert (t0 < ti).
        { apply (tk_sorted_lt t0 k0 (p :: tk'') Hs ti ki). rewrite <- Etk'.
          apply in_or_app. right. left. reflexivity. }
        lra. }
    apply Rleb_false in E0.
    destruct (last ((t0, k0) :: p :: tk'') (t0, k0)) as [tl kl] eqn:El.
    destruct (Rleb tl t) eqn:E1.
    { (* tl <= t: then t = tj = tl and the segment is the last one *)
      apply Rleb_true in E1. rewrite k_both_R.
      assert (Hin : In (tl, kl) ((t0, k0) :: p :: tk'')) by (rewrite <- El; apply last_in; discriminate).
      destruct post as [|[tm km] post].
      - assert (El' : last (pre ++ [(ti, ki); (tj, kj)]) (t0, k0) = (tj, kj)).
        { clear. induction pre as [|x pre IH]; [reflexivity|].
          destruct pre as [|y pre]; [reflexivity|]. exact IH. }
        rewrite <- Etk in El. rewrite El' in El. injection El as <- <-.
        assert (t = tj) by lra. subst t. unfold v. rewrite k_interp_right by lra. reflexivity.
      - (* tj < tl *)
        assert (Hjl : tj <= tl).
        { rewrite <- Etk in El.
          assert (Hs2 : tk_sorted ((tj, kj) :: (tm, km) :: post)).
          { apply (tk_sorted_app_r (pre ++ [(ti, ki)])). rewrite <- app_assoc. exact Hs. }
          assert (El2 : last (pre ++ (ti, ki) :: (tj, kj) :: (tm, km) :: post) (t0, k0) = last ((tm, km) :: post) (t0, k0)).
          { clear. induction pre as [|x pre IH]; [reflexivity|].
            destruct pre as [|y pre]; simpl app in *; exact IH. }
          rewrite El2 in El.
          assert (Hin2 : In (tl, kl) ((tm, km) :: post)) by (rewrite <- El; apply last_in; discriminate).
          pose proof (tk_sorted_lt tj kj _ Hs2 tl kl Hin2). lra. }
        assert (Hlt : tj < tl).
        { rewrite <- Etk in El.
          assert (Hs2 : tk_sorted ((tj, kj) :: (tm, km) :: post)).
          { apply (tk_sorted_app_r (pre ++ [(ti, ki)])). rewrite <- app_assoc. exact Hs. }
          assert (El2 : last (pre ++ (ti, ki) :: (tj, kj) :: (tm, km) :: post) (t0, k0) = last ((tm, km) :: post) (t0, k0)).
          { clear. induction pre as [|x pre IH]; [reflexivity|].
            destruct pre as [|y pre]; simpl app in *; exact IH. }
          rewrite El2 in El.
          assert (Hin2 : In (tl, kl) ((tm, km) :: post)) by (rewrite <- El; apply last_in; discriminate).
          exact (tk_sorted_lt tj kj _ Hs2 tl kl Hin2). }
        lra. }
    rewrite <- Etk. rewrite (getk_scan_segment ti ki tj kj post t Ht pre Hs). apply k_both'_R.
  Qed.

  (* value at the knots, and continuity there: the pieces on both sides give the knot value *)
  Theorem getk_at_knots kx ky pre ti ki tj kj post :
    tk_sorted (pre ++ (ti, ki) :: (tj, kj) :: post) ->
    getk RA kx ky (pre ++ (ti, ki) :: (tj, kj) :: post) ti = (ki, ki) /\
    getk RA kx ky (pre ++ (ti, ki) :: (tj, kj) :: post) tj = (kj, kj).
  Proof.
    intros Hs.
    assert (Hij : ti < tj) by (destruct (tk_sorted_app_r pre _ Hs) as [H _]; exact H).
    split.
    - rewrite (getk_on_segment kx ky pre ti ki tj kj post ti Hs) by lra. rewrite k_interp_left by lra. reflexivity.
    - rewrite (getk_on_segment kx ky pre ti ki tj kj post tj Hs) by lra. rewrite k_interp_right by lra. reflexivity.
  Qed.

  Theorem getk_pieces_agree_at_knots ti ki tj kj tm km : ti < tj -> tj < tm ->
    k_interp RA ti ki tj kj tj = kj /\ k_interp RA tj kj tm km tj = kj.
  Proof. intros H1 H2. split; [apply k_interp_right|apply k_interp_left]; lra. Qed.
End GetK.
