(* AsmHProofs.v — theorems about the model of HSolver::AnalyzeProblem (real reading).
   The statements of hsolver.cpp that are shared with esolver.cpp are modelled by AsmE's
   definitions applied to [eview P]; the lemmas of AsmEProofs about them (scatter as a list of
   operations, element row identity, prescribed-value elimination) are used as they are. *)
From Coq Require Import ZArith List Bool Arith Lia Reals Lra.
From XF Require Import Arith Sparse SparseProofs AsmOps AsmOpsProofs AsmE AsmEProofs KT AsmH.
Import ListNotations.
Local Open Scope R_scope.

(* projections of the 6-tuple returned by helem_matrices and the 5-tuple of hedge_step *)
Definition em_D {T1 T2 T3 T4 T5 T6} (r : T1 * T2 * T3 * T4 * T5 * T6) : T1 := fst (fst (fst (fst (fst r)))).
Definition em_k {T1 T2 T3 T4 T5 T6} (r : T1 * T2 * T3 * T4 * T5 * T6) : T2 := snd (fst (fst (fst (fst r)))).
Definition em_Me {T1 T2 T3 T4 T5 T6} (r : T1 * T2 * T3 * T4 * T5 * T6) : T3 := snd (fst (fst (fst r))).
Definition em_be {T1 T2 T3 T4 T5 T6} (r : T1 * T2 * T3 * T4 * T5 * T6) : T4 := snd (fst (fst r)).
Definition em_pows {T1 T2 T3 T4 T5 T6} (r : T1 * T2 * T3 * T4 * T5 * T6) : T5 := snd (fst r).
Definition em_rad {T1 T2 T3 T4 T5 T6} (r : T1 * T2 * T3 * T4 * T5 * T6) : T6 := snd r.
Definition es_Me {T1 T2 T3 T4 T5} (r : T1 * T2 * T3 * T4 * T5) : T2 := snd (fst (fst (fst r))).
Definition es_be {T1 T2 T3 T4 T5} (r : T1 * T2 * T3 * T4 * T5) : T3 := snd (fst (fst r)).

Section Shapes.
  Implicit Type Me be : vecT R.
  Variables (P : hprob (F:=R)) (Vo : vecT R).

  Lemma hedge_step_shape xs g el Depth Me be pows rad j : (j < 3)%nat -> sym9 Me -> len3 be ->
    let r := hedge_step RA P Vo xs g el (Depth, Me, be, pows, rad) j in sym9 (es_Me r) /\ len3 (es_be r).
  Proof.
    intros Hj (m00 & m01 & m02 & m11 & m12 & m22 & ->) (b0 & b1 & b2 & ->).
    unfold hedge_step, es_Me, es_be.
    destruct (tri_get (ee el) j) as [e|]; [|cbn; split; [do 6 eexists|do 3 eexists]; reflexivity].
    destruct (hfmt (nth e (hlines P) (dhline RA))) as [|[|[|[|bf]]]]; cbn [Nat.eqb orb];
      try (cbn; split; [do 6 eexists|do 3 eexists]; reflexivity);
      destruct (haxi P); try destruct pows as [|[[pa pb] pc] pows];
      destruct j as [|[|[|j]]]; try lia;
      cbn; (split; [do 6 eexists|do 3 eexists]; reflexivity).
  Qed.

  Lemma hedge_terms_shape xs g el D Me be pows : sym9 Me -> len3 be ->
    let r := hedge_terms RA P Vo xs g el D Me be pows in sym9 (es_Me r) /\ len3 (es_be r).
  Proof.
    intros S0 B0. unfold hedge_terms. cbn [fold_left].
    destruct (hedge_step_shape xs g el D Me be pows false 0%nat ltac:(lia) S0 B0) as [S1 B1].
    destruct (hedge_step RA P Vo xs g el (D, Me, be, pows, false) 0%nat) as [[[[D1 Me1] be1] pw1] r1].
    unfold es_Me, es_be in S1, B1. cbn [fst snd] in S1, B1.
    destruct (hedge_step_shape xs g el D1 Me1 be1 pw1 r1 1%nat ltac:(lia) S1 B1) as [S2 B2].
    destruct (hedge_step RA P Vo xs g el (D1, Me1, be1, pw1, r1) 1%nat) as [[[[D2 Me2] be2] pw2] r2].
    unfold es_Me, es_be in S2, B2. cbn [fst snd] in S2, B2.
    destruct (hedge_step_shape xs g el D2 Me2 be2 pw2 r2 2%nat ltac:(lia) S2 B2) as [S3 B3].
    exact (conj S3 B3).
  Qed.

  Lemma m3add_diag_sym9 Me K : sym9 Me ->
    sym9 (m3add RA (m3add RA (m3add RA Me 0 0 K) 1 1 K) 2 2 K).
  Proof. intros (m00 & m01 & m02 & m11 & m12 & m22 & ->). cbn. do 6 eexists. reflexivity. Qed.

  Lemma helem_matrices_shape extRo extRi extZo D0 k0 pows el :
    let r := helem_matrices RA P Vo extRo extRi extZo D0 k0 pows el in
    sym9 (em_Me r) /\ len3 (em_be r).
  Proof.
    unfold helem_matrices. cbv zeta.
    match goal with |- context [let '(a, b) := (if haxi P then ?X else ?Y) in _] =>
      destruct (if haxi P then X else Y) as [Dp kl] end.
    match goal with |- context [stiff_add RA (stiff_add RA ?Z ?K1 ?s1) ?K2 ?s2] =>
      assert (S0 : sym9 (stiff_add RA (stiff_add RA Z K1 s1) K2 s2))
        by (unfold geom; cbn [gp gq]; apply stiff_add_sym9, stiff_add_sym9; cbn; do 6 eexists; reflexivity);
      set (Me0 := stiff_add RA (stiff_add RA Z K1 s1) K2 s2) in *
    end.
    assert (B0 : len3 (repeat (azero RA) 3)) by (cbn; do 3 eexists; reflexivity).
    set (be0 := repeat (azero RA) 3) in *.
    match goal with |- context [let '(a, b) := (if aeqb RA (hdT P) (azero RA) then ?X else ?Y) in _] =>
      assert (SB : sym9 (fst (if aeqb RA (hdT P) (azero RA) then X else Y)) /\
                   len3 (snd (if aeqb RA (hdT P) (azero RA) then X else Y)));
      [|destruct (if aeqb RA (hdT P) (azero RA) then X else Y) as [Me1 be1]]
    end.
    { destruct (aeqb RA (hdT P) (azero RA)); cbn [fst snd]; [split; assumption|].
      split; [apply m3add_diag_sym9; exact S0|].
      destruct B0 as (b0 & b1 & b2 & ->). cbn. do 3 eexists. reflexivity. }
    cbn [fst snd] in SB. destruct SB as [S1 B1].
    match goal with |- context [hedge_terms RA P Vo ?xs ?g el ?D ?Me ?be pows] =>
      assert (B2 : len3 be) by (destruct B1 as (b0 & b1 & b2 & ->); cbn; do 3 eexists; reflexivity);
      destruct (hedge_terms_shape xs g el D Me be pows S1 B2) as [S3 B3];
      destruct (hedge_terms RA P Vo xs g el D Me be pows) as [[[[D3 Me3] be3] pw3] r3]
    end.
    unfold es_Me, es_be, em_Me, em_be in *. cbn [fst snd] in *. split; assumption.
  Qed.
End Shapes.

Section Loop.
  Local Notation vgetR := (vget RA).
  Variables (P : hprob (F:=R)) (nn : nat) (Vo : vecT R) (extRo extRi extZo : R) (V : vecT R) (Q : list Z).

  (* sum over the element list of the local residuals (after the prescribed-value processing)
     of the local rows assembled into global row i; (D,k,pows) is the running state *)
  Fixpoint hloop_resid (els : list eelem) (D k : R) (pows : list (R * R * R)) (U : vecT R) (i : nat) : R :=
    match els with
    | [] => 0
    | el :: t =>
        let r := helem_matrices RA P Vo extRo extRi extZo D k pows el in
        let mb := presc_mb V Q (ep el) (em_Me r) (em_be r) in
        ((if Nat.eqb (tri_get (ep el) 0) i then local_resid (fst mb) (snd mb) (ep el) U 0 else 0)
         + (if Nat.eqb (tri_get (ep el) 1) i then local_resid (fst mb) (snd mb) (ep el) U 1 else 0)
         + (if Nat.eqb (tri_get (ep el) 2) i then local_resid (fst mb) (snd mb) (ep el) U 2 else 0))
        + hloop_resid t (em_D r) (em_k r) (em_pows r) U i
    end.

  Lemma helem_step_rows s el U :
    mat_wf (hsM s) -> length (hsb s) = length (hsM s) -> elem_ok (eview RA P) nn (length (hsM s)) el ->
    let s' := helem_step RA P nn Vo extRo extRi extZo V Q s el in
    let r := helem_matrices RA P Vo extRo extRi extZo (hsDepth s) (hsKludge s) (hsPows s) el in
    let mb := presc_mb V Q (ep el) (em_Me r) (em_be r) in
    mat_wf (hsM s') /\ length (hsM s') = length (hsM s) /\ length (hsb s') = length (hsb s) /\
    hsDepth s' = em_D r /\ hsKludge s' = em_k r /\ hsPows s' = em_pows r /\
    forall i, (i < length (hsM s))%nat ->
      Ax (hsM s') U i - vgetR (hsb s') i =
      (Ax (hsM s) U i - vgetR (hsb s) i)
      - ((if Nat.eqb (tri_get (ep el) 0) i then local_resid (fst mb) (snd mb) (ep el) U 0 else 0)
         + (if Nat.eqb (tri_get (ep el) 1) i then local_resid (fst mb) (snd mb) (ep el) U 1 else 0)
         + (if Nat.eqb (tri_get (ep el) 2) i then local_resid (fst mb) (snd mb) (ep el) U 2 else 0)).
  Proof.
    intros Hwf Hb (Hnf & Hd & H0 & H1 & H2) s' r mb.
    unfold s', helem_step. fold r.
    destruct r as [[[[[D' k'] Me] be] pw'] rad'] eqn:Er. unfold em_Me, em_be in mb. cbn [fst snd] in mb.
    pose proof (presc_terms_mb (eview RA P) V Q (ep el) Me be (hsCondK s) (hsCondB s)) as Hmb. cbv zeta in Hmb.
    destruct (presc_terms RA (eview RA P) V Q (ep el) Me be (hsCondK s) (hsCondB s)) as [[[Me' be'] cK] cB].
    cbn [fst snd] in Hmb. fold mb in Hmb.
    rewrite scatter_as_ops. cbn [hsM hsb hsDepth hsKludge hsPows fst snd].
    assert (Hm : mops_in_range (length (hsM s)) (scatter_mops (eview RA P) nn (ep el) Me')).
    { destruct Hnf as (E0 & E1 & E2). unfold scatter_mops, tie_ops. rewrite E0, E1, E2, !Nat.eqb_refl.
      cbn [app]. repeat constructor; cbn [fst snd]; auto. }
    assert (Hbo : bops_in_range (length (hsb s)) (scatter_bops (eview RA P) nn (ep el) be')).
    { destruct Hnf as (E0 & E1 & E2). unfold scatter_bops. rewrite E0, E1, E2, Hb.
      repeat constructor; cbn [fst snd]; auto. }
    destruct (assembled_rows (hsM s) (hsb s) _ _ U Hwf Hm Hbo) as (W & L1 & L2 & HR).
    split; [exact W|]. split; [exact L1|]. split; [exact L2|].
    unfold em_D, em_k, em_pows. cbn [fst snd].
    split; [reflexivity|]. split; [reflexivity|]. split; [reflexivity|].
    intros i Hi. rewrite (HR i Hi).
    pose proof (elem_row_identity (eview RA P) nn (ep el) Me' be' U i Hnf Hd) as G.
    assert (EM : Me' = fst mb) by (rewrite <- Hmb; reflexivity).
    assert (EB : be' = snd mb) by (rewrite <- Hmb; reflexivity).
    rewrite <- EM, <- EB. lra.
  Qed.

  Theorem hloop_rows U : forall els s,
    mat_wf (hsM s) -> length (hsb s) = length (hsM s) -> Forall (elem_ok (eview RA P) nn (length (hsM s))) els ->
    let s' := fold_left (helem_step RA P nn Vo extRo extRi extZo V Q) els s in
    mat_wf (hsM s') /\ length (hsM s') = length (hsM s) /\ length (hsb s') = length (hsb s) /\
    forall i, (i < length (hsM s))%nat ->
      Ax (hsM s') U i - vgetR (hsb s') i =
      (Ax (hsM s) U i - vgetR (hsb s) i) - hloop_resid els (hsDepth s) (hsKludge s) (hsPows s) U i.
  Proof.
    induction els as [|el els IH]; intros s Hwf Hb Hok.
    - simpl. split; [auto|]. split; [auto|]. split; [auto|]. intros; lra.
    - apply Forall_cons_iff in Hok. destruct Hok as [Hel Hok].
      destruct (helem_step_rows s el U Hwf Hb Hel) as (W1 & L1 & L2 & ED & EK & EP & HR).
      cbn [fold_left].
      set (s1 := helem_step RA P nn Vo extRo extRi extZo V Q s el) in *.
      destruct (IH s1 W1) as (W & L & Lb & HR2); [lia|rewrite L1; exact Hok|].
      split; [exact W|]. split; [lia|]. split; [lia|].
      intros i Hi. rewrite HR2 by lia. rewrite HR by auto. cbn [hloop_resid].
      rewrite ED, EK, EP. lra.
  Qed.
End Loop.

Section Galerkin.
  Local Notation vgetR := (vget RA).
  Variables (P : hprob (F:=R)) (Vo : vecT R) (extRo extRi extZo : R).

  Lemma hedge_terms_none xs g el D Me be pows :
    ee el = (None, None, None) -> hedge_terms RA P Vo xs g el D Me be pows = (D, Me, be, pows, false).
  Proof. intros He. unfold hedge_terms, hedge_step. rewrite He. reflexivity. Qed.

  (* the lumped transient coefficient added by an element (0 for a steady problem) *)
  Definition lump_K (D : R) (el : eelem) : R :=
    if Reqb (hdT P) 0 then 0
    else transient_K RA P D (nth (eblk el) (hblocks P) (dhblock RA)) (ga (el_geom (eview RA P) el)).

  Lemma helem_matrices_noedge D0 k0 pows el :
    ee el = (None, None, None) ->
    let r := helem_matrices RA P Vo extRo extRi extZo D0 k0 pows el in
    let dk := elem_dk (eview RA P) extRo extRi extZo D0 k0 el in
    let blk := nth (eblk el) (hblocks P) (dhblock RA) in
    let g := el_geom (eview RA P) el in
    let kn := kn_of RA P Vo el in
    em_D r = fst dk /\ em_k r = snd dk /\ em_pows r = pows /\ em_rad r = false /\
    (forall j k, (j < 3)%nat -> (k < 3)%nat ->
       m3get RA (em_Me r) j k =
         - fst dk * fst kn / (4 * ga g) / snd dk * vgetR (gp g) j * vgetR (gp g) k
         + - fst dk * snd kn / (4 * ga g) / snd dk * vgetR (gq g) j * vgetR (gq g) k
         + (if Nat.eqb j k then lump_K (fst dk) el else 0)) /\
    (forall j, (j < 3)%nat ->
       vgetR (em_be r) j = lump_K (fst dk) el * vgetR (htprev P) (tri_get (ep el) j)
                           + - fst dk * hqv blk * ga g / 3).
  Proof.
    intros He r dk blk g kn. unfold r, helem_matrices. cbv zeta.
    change (nodes (eview RA P)) with (hnodes P) in *.
    fold (el_geom (eview RA P) el). fold g. fold blk. fold kn.
    match goal with |- context [let '(a, b) := (if haxi P then ?X else ?Y) in _] =>
      change (if haxi P then X else Y) with dk end.
    destruct dk as [Dp kl] eqn:Edk. cbn [fst snd].
    unfold lump_K. fold blk. fold g. ra_simpl.
    assert (Hgp : gp g = [vgetR (gp g) 0; vgetR (gp g) 1; vgetR (gp g) 2]) by reflexivity.
    assert (Hgq : gq g = [vgetR (gq g) 0; vgetR (gq g) 1; vgetR (gq g) 2]) by reflexivity.
    set (p0 := vgetR (gp g) 0) in *. set (p1 := vgetR (gp g) 1) in *. set (p2 := vgetR (gp g) 2) in *.
    set (q0 := vgetR (gq g) 0) in *. set (q1 := vgetR (gq g) 1) in *. set (q2 := vgetR (gq g) 2) in *.
    rewrite Hgp, Hgq.
    destruct (Reqb (hdT P) 0); rewrite hedge_terms_none by exact He;
      unfold em_D, em_k, em_pows, em_rad, em_Me, em_be; cbn [fst snd];
      (split; [reflexivity|]); (split; [reflexivity|]); (split; [reflexivity|]); (split; [reflexivity|]); split.
    - intros j k Hj Hk. destruct j as [|[|[|j]]]; try lia; destruct k as [|[|[|k]]]; try lia; cbn; ra_simpl; lra.
    - intros j Hj. destruct j as [|[|[|j]]]; try lia; cbn; ra_simpl; lra.
    - intros j k Hj Hk. destruct j as [|[|[|j]]]; try lia; destruct k as [|[|[|k]]]; try lia; cbn; ra_simpl; lra.
    - intros j Hj. destruct j as [|[|[|j]]]; try lia; cbn; ra_simpl; lra.
  Qed.
End Galerkin.

Section GalerkinTheorems.
  Local Notation vgetR := (vget RA).
  Variables (P : hprob (F:=R)) (Vo : vecT R) (extRo extRi extZo : R).

  (* (b) the conduction part of the element matrix is minus the linear-triangle Galerkin
     stiffness of div(k grad T) with (kx,ky) = kn, the mean of the three nodal conductivities
     at the previous iterate; the diagonal carries in addition the lumped transient term *)
  Theorem conduction_is_galerkin D0 k0 pows el j k :
    ee el = (None, None, None) -> (j < 3)%nat -> (k < 3)%nat ->
    ga (el_geom (eview RA P) el) <> 0 -> snd (elem_dk (eview RA P) extRo extRi extZo D0 k0 el) <> 0 ->
    let r := helem_matrices RA P Vo extRo extRi extZo D0 k0 pows el in
    let dk := elem_dk (eview RA P) extRo extRi extZo D0 k0 el in
    let kn := kn_of RA P Vo el in
    m3get RA (em_Me r) j k =
      - galerkin_K (fst dk) (fst kn) (snd kn) (el_geom (eview RA P) el) j k / snd dk
      + (if Nat.eqb j k then lump_K P (fst dk) el else 0).
  Proof.
    intros He Hj Hk Ha Hkl r dk kn.
    destruct (helem_matrices_noedge P Vo extRo extRi extZo D0 k0 pows el He) as (_ & _ & _ & _ & HM & _).
    unfold r. rewrite (HM j k Hj Hk). unfold galerkin_K. fold dk kn. field. split; assumption.
  Qed.

  (* heat balance at element level: every column of the conduction part sums to zero (the
     column sum of the whole matrix is the lumped transient coefficient, 0 when dT = 0) *)
  Theorem conduction_column_sums D0 k0 pows el k :
    ee el = (None, None, None) -> (k < 3)%nat ->
    let r := helem_matrices RA P Vo extRo extRi extZo D0 k0 pows el in
    m3get RA (em_Me r) 0 k + m3get RA (em_Me r) 1 k + m3get RA (em_Me r) 2 k
    = lump_K P (fst (elem_dk (eview RA P) extRo extRi extZo D0 k0 el)) el.
  Proof.
    intros He Hk r.
    destruct (helem_matrices_noedge P Vo extRo extRi extZo D0 k0 pows el He) as (_ & _ & _ & _ & HM & _).
    unfold r. rewrite !HM by lia. unfold el_geom, geom. cbn [gp gq ga]. unfold vget. cbn [nth].
    destruct k as [|[|[|k]]]; try lia; cbn [Nat.eqb]; ra_simpl; ring.
  Qed.

  (* (c) the transient term: K = -Depth*Kt*a/(3 dT) is added to the three diagonal entries and
     K*Tprev[n_j] to be[j]; the same K is minus the row sum of the consistent capacity matrix
     Depth*Kt*a/12*[2 1 1;1 2 1;1 1 2]/dT (row-sum lumping) *)
  Definition consistent_mass (D kt a dT : R) (j k : nat) : R :=
    D * kt * a / 12 * (if Nat.eqb j k then 2 else 1) / dT.

  Theorem lumped_is_rowsum (D kt a dT : R) j : (j < 3)%nat -> dT <> 0 ->
    consistent_mass D kt a dT j 0 + consistent_mass D kt a dT j 1 + consistent_mass D kt a dT j 2
    = D * kt * a / (3 * dT).
  Proof.
    intros Hj HdT. unfold consistent_mass.
    destruct j as [|[|[|j]]]; try lia; simpl; field; exact HdT.
  Qed.

  Theorem lumped_transient_term D0 k0 pows el :
    ee el = (None, None, None) -> hdT P <> 0 ->
    let r := helem_matrices RA P Vo extRo extRi extZo D0 k0 pows el in
    let D := fst (elem_dk (eview RA P) extRo extRi extZo D0 k0 el) in
    let blk := nth (eblk el) (hblocks P) (dhblock RA) in
    let a := ga (el_geom (eview RA P) el) in
    let K := - (D * hkt blk * a / (3 * hdT P)) in
    lump_K P D el = K /\
    (forall j, (j < 3)%nat ->
       K = - (consistent_mass D (hkt blk) a (hdT P) j 0 + consistent_mass D (hkt blk) a (hdT P) j 1
              + consistent_mass D (hkt blk) a (hdT P) j 2)) /\
    (forall j, (j < 3)%nat ->
       vgetR (em_be r) j = K * vgetR (htprev P) (tri_get (ep el) j) + - D * hqv blk * a / 3).
  Proof.
    intros He HdT r D blk a K.
    assert (EK : lump_K P D el = K).
    { unfold lump_K, transient_K. destruct (Reqb (hdT P) 0) eqn:E; [apply Reqb_true in E; contradiction|].
      fold blk. fold a. unfold K. ra_simpl. field. exact HdT. }
    split; [exact EK|]. split.
    - intros j Hj. rewrite lumped_is_rowsum by assumption. reflexivity.
    - intros j Hj.
      destruct (helem_matrices_noedge P Vo extRo extRi extZo D0 k0 pows el He) as (_ & _ & _ & _ & _ & HB).
      unfold r. rewrite (HB j Hj). fold D. rewrite EK. reflexivity.
  Qed.

  (* on a spatially constant field the lumped and the consistent capacity matrices agree *)
  Theorem lumped_agrees_on_constants (D kt a dT c : R) j : (j < 3)%nat -> dT <> 0 ->
    consistent_mass D kt a dT j 0 * c + consistent_mass D kt a dT j 1 * c + consistent_mass D kt a dT j 2 * c
    = D * kt * a / (3 * dT) * c.
  Proof. intros Hj H. rewrite <- (lumped_is_rowsum D kt a dT j Hj H). ring. Qed.
End GalerkinTheorems.

Section Edges.
  Local Notation vgetR := (vget RA).
  Variables (P : hprob (F:=R)) (Vo : vecT R).

  (* Tlast=(Vo[n[j]]+Vo[n[k]])/2. *)
  Definition edge_Tlast (el : eelem) (j : nat) : R :=
    (vgetR Vo (tri_get (ep el) j) + vgetR Vo (tri_get (ep el) (nxt j))) / 2.

  (* the boundary law of an edge, k dT/dn + c0*T + c1 = 0, by boundary type *)
  Definition edge_coeffs (lp : hline (F:=R)) (Tlast : R) : option (R * R) :=
    match hfmt lp with
    | 1%nat => Some (0, hqs lp)
    | 2%nat => Some (hh lp, - hh lp * hTinf lp)
    | 3%nat => Some (4 * hbeta lp * ksb RA * pow3 RA Tlast,
                     - (hbeta lp * ksb RA * (pow4 RA (hTinf lp) + 3 * pow4 RA Tlast)))
    | _ => None
    end.

  (* what one boundary edge j (from local node j to k = j+1 mod 3) adds to Me[a][b] and be[a] *)
  Definition edge_Me (axi : bool) (D c0 l xj xk : R) (j a b : nat) : R :=
    let k := nxt j in
    if axi then
      let K := - 2 * PI * c0 * l / 6 in
      if (Nat.eqb a j && Nat.eqb b j)%bool then K * 2 * (3 * xj + xk) / 4
      else if (Nat.eqb a k && Nat.eqb b k)%bool then K * 2 * (xj + 3 * xk) / 4
      else if ((Nat.eqb a j && Nat.eqb b k) || (Nat.eqb a k && Nat.eqb b j))%bool then K * (xj + xk) / 2
      else 0
    else
      let K := - D * c0 * l / 6 in
      if ((Nat.eqb a j && Nat.eqb b j) || (Nat.eqb a k && Nat.eqb b k))%bool then K * 2
      else if ((Nat.eqb a j && Nat.eqb b k) || (Nat.eqb a k && Nat.eqb b j))%bool then K
      else 0.
  Definition edge_be (axi : bool) (D c1 l xj xk : R) (j a : nat) : R :=
    let k := nxt j in
    if axi then
      let K := 2 * PI * c1 * l / 2 in
      if Nat.eqb a j then K * (2 * xj + xk) / 3 else if Nat.eqb a k then K * (xj + 2 * xk) / 3 else 0
    else
      let K := D * c1 * l / 2 in
      if (Nat.eqb a j || Nat.eqb a k)%bool then K else 0.

  Lemma hedge_step_spec xs g el D m0 m1 m2 m3 m4 m5 m6 m7 m8 b0 b1 b2 rad j e c0 c1 :
    (j < 3)%nat -> tri_get (ee el) j = Some e ->
    edge_coeffs (nth e (hlines P) (dhline RA)) (edge_Tlast el j) = Some (c0, c1) ->
    let Me := [m0; m1; m2; m3; m4; m5; m6; m7; m8] in
    let be := [b0; b1; b2] in
    let r := hedge_step RA P Vo xs g el (D, Me, be, [], rad) j in
    let xj := vgetR xs j in
    let xk := vgetR xs (nxt j) in
    let D' := if haxi P then PI * (xj + xk) else D in
    let l := vgetR (gl g) j in
    fst (fst (fst (fst r))) = D' /\
    (forall a b, (a < 3)%nat -> (b < 3)%nat ->
       m3get RA (es_Me r) a b = m3get RA Me a b + edge_Me (haxi P) D' c0 l xj xk j a b) /\
    (forall a, (a < 3)%nat -> vgetR (es_be r) a = vgetR be a + edge_be (haxi P) D' c1 l xj xk j a).
  Proof.
    intros Hj He Hc Me be r xj xk D' l.
    unfold r, hedge_step, es_Me, es_be. rewrite He.
    unfold edge_coeffs in Hc. unfold edge_Tlast in Hc.
    fold xj xk l.
    destruct (hfmt (nth e (hlines P) (dhline RA))) as [|[|[|[|bf]]]]; try discriminate Hc;
      injection Hc as <- <-; cbn [Nat.eqb orb]; unfold D', edge_Me, edge_be;
      destruct (haxi P); cbn [fst snd];
      (split; [reflexivity|]);
      destruct j as [|[|[|j]]]; try lia; cbn [nxt]; subst Me be;
      (split; [intros a b Ha Hb; destruct a as [|[|[|a]]]; try lia; destruct b as [|[|[|b]]]; try lia
              |intros a Ha; destruct a as [|[|[|a]]]; try lia]);
      cbn; ra_simpl; lra.
  Qed.

  (* the laws: heat flux, convection, radiation *)
  Theorem flux_law lp T c0 c1 : hfmt lp = 1%nat -> edge_coeffs lp T = Some (c0, c1) ->
    c0 * T + c1 = hqs lp.
  Proof. unfold edge_coeffs. intros ->. intros [= <- <-]. ring. Qed.

  Theorem convection_law lp T c0 c1 : hfmt lp = 2%nat -> edge_coeffs lp T = Some (c0, c1) ->
    c0 * T + c1 = hh lp * (T - hTinf lp).
  Proof. unfold edge_coeffs. intros ->. intros [= <- <-]. ring. Qed.

  (* (d) the radiation linearisation is exact at the temperature it is linearised about *)
  Theorem radiation_fixed_point lp T c0 c1 : hfmt lp = 3%nat -> edge_coeffs lp T = Some (c0, c1) ->
    c0 * T + c1 = hbeta lp * ksb RA * (T ^ 4 - hTinf lp ^ 4).
  Proof. unfold edge_coeffs. intros ->. intros [= <- <-]. unfold pow3, pow4. ra_simpl. ring. Qed.

  (* and it is the tangent (Newton) linearisation: value and slope of beta*Ksb*(T^4-Tinf^4) at Tlast *)
  Theorem radiation_is_tangent lp Tl T c0 c1 : hfmt lp = 3%nat -> edge_coeffs lp Tl = Some (c0, c1) ->
    c0 * T + c1 = hbeta lp * ksb RA * (Tl ^ 4 - hTinf lp ^ 4) + 4 * hbeta lp * ksb RA * Tl ^ 3 * (T - Tl).
  Proof. unfold edge_coeffs. intros ->. intros [= <- <-]. unfold pow3, pow4. ra_simpl. ring. Qed.
End Edges.

(* ---------------- CHMaterialProp::GetK ---------------- *)
Section GetK.
  Implicit Type tk : list (R * R).

  (* strictly increasing temperatures *)
  Fixpoint tk_sorted tk : Prop :=
    match tk with
    | (t0, _) :: (((t1, _) :: _) as rest) => t0 < t1 /\ tk_sorted rest
    | _ => True
    end.

  Lemma tk_sorted_tail p tk : tk_sorted (p :: tk) -> tk_sorted tk.
  Proof. destruct p as [t0 k0]. destruct tk as [|[t1 k1] tk]; simpl; tauto. Qed.

  Lemma tk_sorted_lt t0 k0 : forall tk, tk_sorted ((t0, k0) :: tk) -> forall t k, In (t, k) tk -> t0 < t.
  Proof.
    intros tk. revert t0 k0. induction tk as [|[t1 k1] tk IH]; intros t0 k0 Hs t k Hin; [contradiction|].
    destruct Hs as [H01 Hs]. destruct Hin as [E|Hin].
    - injection E as <- <-. exact H01.
    - specialize (IH t1 k1 Hs t k Hin). lra.
  Qed.

  Lemma tk_sorted_app_r pre : forall tk, tk_sorted (pre ++ tk) -> tk_sorted tk.
  Proof. induction pre as [|p pre IH]; intros tk H; [exact H|]. apply IH. exact (tk_sorted_tail p _ H). Qed.

  Lemma last_in {T} (l : list T) d : l <> [] -> In (last l d) l.
  Proof.
    induction l as [|x l IH]; [congruence|]. intros _. destruct l as [|y l]; [left; reflexivity|].
    right. apply IH. discriminate.
  Qed.

  Lemma getk_no_table kx ky t : getk RA kx ky [] t = (kx, ky).
  Proof. unfold getk, k_linear. ra_simpl. f_equal; ring. Qed.

  Lemma getk_single kx ky t0 k0 t : getk RA kx ky [(t0, k0)] t = (k0, k0).
  Proof. unfold getk, k_both. ra_simpl. f_equal; ring. Qed.

  Lemma k_both_R k : k_both RA k = (k, k).
  Proof. unfold k_both. ra_simpl. f_equal; ring. Qed.
  Lemma k_both'_R k : k_both' RA k = (k, k).
  Proof. unfold k_both'. ra_simpl. f_equal; ring. Qed.

  (* clamping below the first knot *)
  Theorem getk_clamp_low kx ky t0 k0 tk t : t <= t0 -> getk RA kx ky ((t0, k0) :: tk) t = (k0, k0).
  Proof.
    intros Ht. destruct tk as [|p tk]; [apply getk_single|].
    unfold getk. ra_simpl. destruct (Rleb t t0) eqn:E; [apply k_both_R|].
    apply Rleb_false in E. contradiction.
  Qed.

  (* clamping above the last knot *)
  Theorem getk_clamp_high kx ky tk tl kl t d : tk <> [] -> tk_sorted tk -> last tk d = (tl, kl) -> tl <= t ->
    getk RA kx ky tk t = (kl, kl).
  Proof.
    intros Hne Hs Hl Ht. destruct tk as [|[t0 k0] tk]; [congruence|].
    destruct tk as [|p tk].
    - simpl in Hl. injection Hl as <- <-. apply getk_single.
    - assert (Hl' : last ((t0, k0) :: p :: tk) (t0, k0) = (tl, kl)).
      { rewrite <- Hl. clear. revert p. generalize (t0, k0) at 1 3. induction tk as [|q tk IH]; intros x p; [reflexivity|].
        change (last (x :: p :: q :: tk) (t0, k0)) with (last (p :: q :: tk) (t0, k0)).
        change (last (x :: p :: q :: tk) d) with (last (p :: q :: tk) d). apply IH. }
      assert (Hlt : t0 < tl).
      { apply (tk_sorted_lt t0 k0 (p :: tk) Hs tl kl).
        assert (E : last (p :: tk) (t0, k0) = (tl, kl)) by exact Hl'.
        rewrite <- E. apply last_in. discriminate. }
      unfold getk. ra_simpl. destruct (Rleb t t0) eqn:E; [apply Rleb_true in E; lra|].
      rewrite Hl'. destruct (Rleb tl t) eqn:E2; [apply k_both_R|]. apply Rleb_false in E2. contradiction.
  Qed.

  Lemma k_interp_left ti ki tj kj : ti <> tj -> k_interp RA ti ki tj kj ti = ki.
  Proof. intros H. unfold k_interp. ra_simpl. field. lra. Qed.
  Lemma k_interp_right ti ki tj kj : ti <> tj -> k_interp RA ti ki tj kj tj = kj.
  Proof. intros H. unfold k_interp. ra_simpl. field. lra. Qed.

  (* the segment scan returns the interpolant of any segment that contains t *)
  Lemma getk_scan_segment ti ki tj kj post t : ti <= t <= tj -> forall pre,
    tk_sorted (pre ++ (ti, ki) :: (tj, kj) :: post) ->
    getk_scan RA t (pre ++ (ti, ki) :: (tj, kj) :: post) = Some (k_interp RA ti ki tj kj t).
  Proof.
    intros Ht. induction pre as [|[ta ka] pre IH]; intros Hs.
    - simpl. ra_simpl. destruct (Rleb ti t) eqn:E1; [|apply Rleb_false in E1; lra].
      destruct (Rleb t tj) eqn:E2; [|apply Rleb_false in E2; lra]. reflexivity.
    - pose proof (tk_sorted_tail _ _ Hs) as Hs'.
      destruct pre as [|[tb kb] pre].
      + (* the segment just before (ti,ki) *)
        simpl app in *. simpl getk_scan. ra_simpl.
        destruct (Rleb ta t && Rleb t ti)%bool eqn:E.
        * apply andb_true_iff in E. destruct E as [E1 E2]. apply Rleb_true in E1, E2.
          assert (t = ti) by lra. subst t.
          destruct Hs as [Hai [Hij _]].
          rewrite k_interp_left by lra. f_equal. unfold k_interp; ra_simpl. field. lra.
        * specialize (IH Hs'). simpl in IH. ra_simpl. exact IH.
      + simpl app in *. simpl getk_scan. ra_simpl.
        destruct (Rleb ta t && Rleb t tb)%bool eqn:E.
        * apply andb_true_iff in E. destruct E as [E1 E2]. apply Rleb_true in E1, E2.
          (* tb < ti <= t <= tb: impossible *)
          assert (tb < ti).
          { apply (tk_sorted_lt tb kb (pre ++ (ti, ki) :: (tj, kj) :: post) Hs' ti ki).
            apply in_or_app. right. left. reflexivity. }
          lra.
        * apply IH. exact Hs'.
  Qed.

  (* (f) on every segment of a strictly increasing table the conductivity is the linear
     interpolant of the two knots, both components *)
  Lemma last_app_two {T} (pre : list T) a b d : last (pre ++ [a; b]) d = b.
  Proof.
    induction pre as [|x pre IH]; [reflexivity|].
    destruct pre as [|y pre]; [reflexivity|]. exact IH.
  Qed.
  Lemma last_app_cons {T} (pre : list T) a rest d : rest <> [] -> last (pre ++ a :: rest) d = last rest d.
  Proof.
    intros Hne. induction pre as [|x pre IH].
    - destruct rest; [congruence|reflexivity].
    - destruct pre as [|y pre]; simpl app in *; [destruct rest; [congruence|exact IH]|exact IH].
  Qed.

  Theorem getk_on_segment kx ky pre ti ki tj kj post t :
    tk_sorted (pre ++ (ti, ki) :: (tj, kj) :: post) -> ti <= t <= tj ->
    let v := k_interp RA ti ki tj kj t in
    getk RA kx ky (pre ++ (ti, ki) :: (tj, kj) :: post) t = (v, v).
  Proof.
    intros Hs Ht v.
    assert (Hij : ti < tj) by (destruct (tk_sorted_app_r pre _ Hs) as [H _]; exact H).
    pose proof (getk_scan_segment ti ki tj kj post t Ht pre Hs) as Hscan.
    remember (pre ++ (ti, ki) :: (tj, kj) :: post) as tk eqn:Etk.
    destruct tk as [|[t0 k0] tk']; [destruct pre; discriminate|].
    destruct tk' as [|p tk'']; [destruct pre as [|? [|? ?]]; discriminate|].
    unfold getk. ra_simpl.
    destruct (Rleb t t0) eqn:E0.
    { (* t <= t0: then t = t0 = ti and the segment is the first one *)
      apply Rleb_true in E0. rewrite k_both_R.
      destruct pre as [|[ta ka] pre].
      - simpl in Etk. injection Etk as E1 E2 _. subst t0 k0. assert (t = ti) by lra. subst t.
        unfold v. rewrite k_interp_left by lra. reflexivity.
      - simpl in Etk. injection Etk as E1 E2 Etk'. subst ta ka.
        assert (t0 < ti).
        { apply (tk_sorted_lt t0 k0 (p :: tk'') Hs ti ki). rewrite Etk'.
          apply in_or_app. right. left. reflexivity. }
        lra. }
    apply Rleb_false in E0.
    destruct (last ((t0, k0) :: p :: tk'') (t0, k0)) as [tl kl] eqn:El.
    destruct (Rleb tl t) eqn:E1.
    { (* tl <= t: then t = tj = tl and the segment is the last one *)
      apply Rleb_true in E1. rewrite k_both_R.
      destruct post as [|[tm km] post].
      - rewrite Etk in El. rewrite last_app_two in El. injection El as <- <-.
        assert (t = tj) by lra. subst t. unfold v. rewrite k_interp_right by lra. reflexivity.
      - (* tj < tl <= t <= tj: impossible *)
        assert (Hlt : tj < tl).
        { rewrite Etk in El.
          assert (Hs2 : tk_sorted ((tj, kj) :: (tm, km) :: post)).
          { apply (tk_sorted_app_r (pre ++ [(ti, ki)])). rewrite <- app_assoc. simpl app. rewrite <- Etk. exact Hs. }
          replace (pre ++ (ti, ki) :: (tj, kj) :: (tm, km) :: post)
            with ((pre ++ [(ti, ki)]) ++ (tj, kj) :: (tm, km) :: post) in El by (rewrite <- app_assoc; reflexivity).
          rewrite last_app_cons in El by discriminate.
          assert (Hin2 : In (tl, kl) ((tm, km) :: post)) by (rewrite <- El; apply last_in; discriminate).
          exact (tk_sorted_lt tj kj _ Hs2 tl kl Hin2). }
        lra. }
    rewrite Hscan. apply k_both'_R.
  Qed.

  (* value at the knots, and continuity there: the pieces on both sides give the knot value *)
  Theorem getk_at_knots kx ky pre ti ki tj kj post :
    tk_sorted (pre ++ (ti, ki) :: (tj, kj) :: post) ->
    getk RA kx ky (pre ++ (ti, ki) :: (tj, kj) :: post) ti = (ki, ki) /\
    getk RA kx ky (pre ++ (ti, ki) :: (tj, kj) :: post) tj = (kj, kj).
  Proof.
    intros Hs.
    assert (Hij : ti < tj) by (destruct (tk_sorted_app_r pre _ Hs) as [H _]; exact H).
    split.
    - rewrite (getk_on_segment kx ky pre ti ki tj kj post ti Hs) by lra. rewrite k_interp_left by lra. reflexivity.
    - rewrite (getk_on_segment kx ky pre ti ki tj kj post tj Hs) by lra. rewrite k_interp_right by lra. reflexivity.
  Qed.

  Theorem getk_pieces_agree_at_knots ti ki tj kj tm km : ti < tj -> tj < tm ->
    k_interp RA ti ki tj kj tj = kj /\ k_interp RA tj kj tm km tj = kj.
  Proof. intros H1 H2. split; [apply k_interp_right|apply k_interp_left]; lra. Qed.

  Lemma k_interp_minus_right ti ki tj kj t : ti <> tj ->
    k_interp RA ti ki tj kj t - kj = (kj - ki) / (tj - ti) * (t - tj).
  Proof. intros H. unfold k_interp. ra_simpl. field. lra. Qed.
  Lemma k_interp_minus_left ti ki tj kj t : ti <> tj ->
    k_interp RA ti ki tj kj t - ki = (kj - ki) / (tj - ti) * (t - ti).
  Proof. intros H. unfold k_interp. ra_simpl. field. lra. Qed.

  (* continuity of the conductivity at an interior knot of a strictly increasing table *)
  Theorem getk_continuous_at_knot kx ky pre ti ki tj kj tm km post :
    let tk := pre ++ (ti, ki) :: (tj, kj) :: (tm, km) :: post in
    tk_sorted tk ->
    continuity_pt (fun t => fst (getk RA kx ky tk t)) tj /\
    continuity_pt (fun t => snd (getk RA kx ky tk t)) tj.
  Proof.
    intros tk Hs.
    assert (Hs1 : tk_sorted ((ti, ki) :: (tj, kj) :: (tm, km) :: post)) by exact (tk_sorted_app_r pre _ Hs).
    destruct Hs1 as [Hij [Hjm _]].
    assert (Hs2 : tk_sorted ((pre ++ [(ti, ki)]) ++ (tj, kj) :: (tm, km) :: post))
      by (rewrite <- app_assoc; exact Hs).
    assert (Etk : tk = (pre ++ [(ti, ki)]) ++ (tj, kj) :: (tm, km) :: post)
      by (unfold tk; rewrite <- app_assoc; reflexivity).
    set (s1 := (kj - ki) / (tj - ti)). set (s2 := (km - kj) / (tm - tj)).
    assert (Hval : forall t, ti <= t <= tm ->
              getk RA kx ky tk t = (kj + (if Rle_dec t tj then s1 else s2) * (t - tj),
                                    kj + (if Rle_dec t tj then s1 else s2) * (t - tj))).
    { intros t Ht. destruct (Rle_dec t tj) as [Hle|Hgt].
      - unfold tk. rewrite (getk_on_segment kx ky pre ti ki tj kj ((tm, km) :: post) t Hs) by lra.
        pose proof (k_interp_minus_right ti ki tj kj t ltac:(lra)) as E. fold s1 in E.
        replace (k_interp RA ti ki tj kj t) with (kj + s1 * (t - tj)) by lra. reflexivity.
      - rewrite Etk. rewrite (getk_on_segment kx ky (pre ++ [(ti, ki)]) tj kj tm km post t Hs2) by lra.
        pose proof (k_interp_minus_left tj kj tm km t ltac:(lra)) as E. fold s2 in E.
        replace (k_interp RA tj kj tm km t) with (kj + s2 * (t - tj)) by lra. reflexivity. }
    assert (Hc : forall proj : R * R -> R, (forall v, proj (v, v) = v) ->
               continuity_pt (fun t => proj (getk RA kx ky tk t)) tj).
    { intros proj Hproj. unfold continuity_pt, continue_in, limit1_in, limit_in. intros eps Heps.
      simpl dist. unfold R_dist.
      set (S := Rabs s1 + Rabs s2 + 1).
      assert (HS : 0 < S) by (unfold S; pose proof (Rabs_pos s1); pose proof (Rabs_pos s2); lra).
      exists (Rmin (eps / S) (Rmin (tj - ti) (tm - tj))). split.
      - apply Rmin_pos; [apply Rdiv_lt_0_compat; lra|apply Rmin_pos; lra].
      - intros t [_ Hd].
        assert (Hd1 : Rabs (t - tj) < eps / S) by (eapply Rlt_le_trans; [exact Hd|apply Rmin_l]).
        assert (Hd2 : Rabs (t - tj) < tj - ti)
          by (eapply Rlt_le_trans; [exact Hd|]; eapply Rle_trans; [apply Rmin_r|apply Rmin_l]).
        assert (Hd3 : Rabs (t - tj) < tm - tj)
          by (eapply Rlt_le_trans; [exact Hd|]; eapply Rle_trans; [apply Rmin_r|apply Rmin_r]).
        assert (Ht : ti <= t <= tm).
        { apply Rabs_def2 in Hd2. apply Rabs_def2 in Hd3. lra. }
        rewrite (Hval t Ht), (Hval tj ltac:(lra)), !Hproj.
        replace (kj + (if Rle_dec t tj then s1 else s2) * (t - tj) - (kj + (if Rle_dec tj tj then s1 else s2) * (tj - tj)))
          with ((if Rle_dec t tj then s1 else s2) * (t - tj)) by ring.
        rewrite Rabs_mult.
        assert (Hsl : Rabs (if Rle_dec t tj then s1 else s2) <= S).
        { unfold S. pose proof (Rabs_pos s1). pose proof (Rabs_pos s2). destruct (Rle_dec t tj); lra. }
        apply Rle_lt_trans with (S * Rabs (t - tj)).
        + apply Rmult_le_compat_r; [apply Rabs_pos|exact Hsl].
        + apply Rlt_le_trans with (S * (eps / S)); [apply Rmult_lt_compat_l; assumption|].
          right. field. lra. }
    split; [apply (Hc fst)|apply (Hc snd)]; reflexivity.
  Qed.
End GetK.

(* ---------------- the weights of the boundary-edge terms ---------------- *)
Section EdgeWeights.
  (* (e) axisymmetric: the entries are -c0 resp. +c1 times 2*PI*l times the exact integrals
     over the edge of r*phi_a*phi_b and r*phi_a (AsmHInt.v: (3xj+xk)/12, (xj+3xk)/12,
     (xj+xk)/12, (2xj+xk)/6, (xj+2xk)/6) *)
  Theorem axi_edge_entries (D c0 c1 l xj xk : R) j : (j < 3)%nat ->
    let k := nxt j in
    edge_Me true D c0 l xj xk j j j = - c0 * (2 * PI * l * ((3 * xj + xk) / 12)) /\
    edge_Me true D c0 l xj xk j k k = - c0 * (2 * PI * l * ((xj + 3 * xk) / 12)) /\
    edge_Me true D c0 l xj xk j j k = - c0 * (2 * PI * l * ((xj + xk) / 12)) /\
    edge_Me true D c0 l xj xk j k j = - c0 * (2 * PI * l * ((xj + xk) / 12)) /\
    edge_be true D c1 l xj xk j j = c1 * (2 * PI * l * ((2 * xj + xk) / 6)) /\
    edge_be true D c1 l xj xk j k = c1 * (2 * PI * l * ((xj + 2 * xk) / 6)).
  Proof.
    intros Hj k. unfold k, edge_Me, edge_be.
    destruct j as [|[|[|j]]]; try lia; cbn [nxt Nat.eqb andb orb]; repeat split; field.
  Qed.

  (* planar: -c0 resp. +c1 times Depth*l times 1/3, 1/6, 1/2 (the same integrals with r = 1) *)
  Theorem planar_edge_entries (D c0 c1 l xj xk : R) j : (j < 3)%nat ->
    let k := nxt j in
    edge_Me false D c0 l xj xk j j j = - c0 * (D * l * (1 / 3)) /\
    edge_Me false D c0 l xj xk j k k = - c0 * (D * l * (1 / 3)) /\
    edge_Me false D c0 l xj xk j j k = - c0 * (D * l * (1 / 6)) /\
    edge_Me false D c0 l xj xk j k j = - c0 * (D * l * (1 / 6)) /\
    edge_be false D c1 l xj xk j j = c1 * (D * l * (1 / 2)) /\
    edge_be false D c1 l xj xk j k = c1 * (D * l * (1 / 2)).
  Proof.
    intros Hj k. unfold k, edge_Me, edge_be.
    destruct j as [|[|[|j]]]; try lia; cbn [nxt Nat.eqb andb orb]; repeat split; field.
  Qed.
End EdgeWeights.

(* ---------------- the scan for nonlinear materials ---------------- *)
Section Scan.
  (* with the loop bounded by NumEls the scan finds every element whose block has a table *)
  Theorem nonlinear_scan_complete {F} (P : hprob (F:=F)) :
    nonlinear_scan P (scan_bound_fixed P) = true <-> exists i, elem_has_table P i = true.
  Proof.
    unfold nonlinear_scan, scan_bound_fixed. rewrite existsb_exists. split.
    - intros (i & _ & H). exists i. exact H.
    - intros (i & H). exists i. split; [|exact H].
      apply in_seq. split; [lia|]. simpl.
      unfold elem_has_table in H. destruct (nth_error (helems P) i) eqn:E; [|discriminate].
      apply nth_error_Some. congruence.
  Qed.

  (* any bound: a positive answer is always justified *)
  Theorem nonlinear_scan_sound {F} (P : hprob (F:=F)) bound :
    nonlinear_scan P bound = true -> exists i, (i < bound)%nat /\ elem_has_table P i = true.
  Proof.
    unfold nonlinear_scan. rewrite existsb_exists. intros (i & Hin & H). exists i.
    apply in_seq in Hin. split; [lia|exact H].
  Qed.

  (* the witness: a triangle with three interior points, 6 nodes and 7 elements; the last
     element (index 6 >= NumNodes) is the only one whose block has a T-k table *)
  Definition witness_nodes : list (enode (F:=R)) :=
    [mkENode 0 0 None None; mkENode 4 0 None None; mkENode 0 4 None None;
     mkENode 1 1 None None; mkENode 2 1 None None; mkENode 1 2 None None].
  Definition witness_elems : list eelem :=
    [mkEElem (1, 2, 5)%nat (None, None, None) 0 0; mkEElem (1, 5, 4)%nat (None, None, None) 0 0;
     mkEElem (2, 0, 3)%nat (None, None, None) 0 0; mkEElem (2, 3, 5)%nat (None, None, None) 0 0;
     mkEElem (0, 1, 4)%nat (None, None, None) 0 0; mkEElem (0, 4, 3)%nat (None, None, None) 0 0;
     mkEElem (3, 4, 5)%nat (None, None, None) 1 1].
  Definition witness : hprob (F:=R) :=
    mkHProb false 1 3 0 0 0 0 (1 / 100000000)
            witness_nodes witness_elems
            [mkHBlock 1 1 0 0 []; mkHBlock 1 1 0 0 [(300, 1); (400, 2)]]
            [] [] [] [false; false] [] [].

  Theorem nonlinear_scan_refuted :
    exists P : hprob (F:=R),
      (length (hnodes P) < length (helems P))%nat /\
      (exists i, elem_has_table P i = true) /\
      nonlinear_scan P (scan_bound_asis P) = false.
  Proof.
    exists witness. split; [cbn; lia|]. split; [exists 6%nat; reflexivity|reflexivity].
  Qed.

  (* when there are no more elements than nodes the as-shipped bound examines all of them *)
  Theorem nonlinear_scan_asis_complete_small {F} (P : hprob (F:=F)) :
    (length (helems P) <= length (hnodes P))%nat ->
    (nonlinear_scan P (scan_bound_asis P) = true <-> exists i, elem_has_table P i = true).
  Proof.
    intros Hle. split; [intros H; destruct (nonlinear_scan_sound P _ H) as (i & _ & Hi); exists i; exact Hi|].
    intros (i & H). unfold nonlinear_scan, scan_bound_asis. apply existsb_exists. exists i. split; [|exact H].
    apply in_seq. split; [lia|]. simpl.
    unfold elem_has_table in H. destruct (nth_error (helems P) i) eqn:E; [|discriminate].
    assert (i < length (helems P))%nat by (apply nth_error_Some; congruence). lia.
  Qed.
End Scan.

(* ---------------- the outer iteration ---------------- *)
Section Outer.
  Variables (P : hprob (F:=R)) (solve : nat -> lin (F:=R) -> option (vecT R)) (powsf : nat -> list (R * R * R)).

  (* whenever the fuelled outer loop returns, the system it returns is the one assembled by its
     last pass from the previous iterate Vo, the temperatures are the linear solver's answer
     for that system, and if the problem was flagged nonlinear (scan or radiation edge) the
     convergence test sqrt(e1/e2) < 100*Precision accepted the step Vo -> V *)
  Theorem outer_exit : forall fuel L D nl it L' Q' n,
    outer RA fuel P solve powsf L D nl it = Some (L', Q', n) ->
    exists Lp Dp nlp itp,
      let r := hpass RA P Lp Dp (powsf itp) in
      let L1 := fst (fst (fst r)) in
      lM L' = lM L1 /\ lb L' = lb L1 /\ Q' = snd (fst (fst r)) /\
      solve itp L1 = Some (Sparse.lV L') /\ n = S itp /\ (it <= itp)%nat /\
      (nl = true -> nlp = true) /\
      ((nlp || snd r)%bool = true ->
         outer_converged RA P (firstn (length (hnodes P)) (Sparse.lV Lp)) (Sparse.lV L') = true).
  Proof.
    induction fuel as [|fuel IH]; intros L D nl it L' Q' n H; [discriminate|].
    cbn [outer] in H.
    destruct (hpass RA P L D (powsf it)) as [[[L1 Q] D'] rad] eqn:Ep.
    destruct (solve it L1) as [Vn|] eqn:Es; [|discriminate].
    destruct ((nl || rad)%bool) eqn:Enl.
    - destruct (outer_converged RA P (firstn (length (hnodes P)) (Sparse.lV L)) Vn) eqn:Ec; cbn [negb] in H.
      + injection H as <- <- <-. exists L, D, nl, it. rewrite Ep. cbn [fst snd lM lb Sparse.lV].
        repeat split; auto.
      + destruct (IH _ _ _ _ _ _ _ H) as (Lp & Dp & nlp & itp & G).
        exists Lp, Dp, nlp, itp. cbv zeta in G |- *.
        destruct G as (G1 & G2 & G3 & G4 & G5 & G6 & G7 & G8).
        repeat split; auto; try lia.
    - injection H as <- <- <-. exists L, D, nl, it. rewrite Ep. cbn [fst snd lM lb Sparse.lV].
      repeat split; auto. intros Hx. rewrite Enl in Hx. discriminate.
  Qed.
End Outer.

(* ---------------- conductor heat flows ---------------- *)
Section ConductorFlow.
  Local Notation vgetR := (vget RA).
  Variables (P : hprob (F:=R)).

  (* the divisor ChargeOnConductor applies to the conductivity of an element: the external-region
     kludge in the repaired variant for elements of the external region, 1 otherwise *)
  Definition hoc_kludge (extfix : bool) (extRo extRi extZo : R) (el : eelem) : R :=
    if (extfix && haxi P && nth (elbl el) (hlabel_ext P) false)%bool
    then ext_kludge RA P extRo extRi extZo el else 1.

  (* one element's contribution to ChargeOnConductor is the conduction (Galerkin stiffness)
     reaction of the conductor's nodes in that element, with the conductivity evaluated at
     the temperatures V:  sum_j Pv[n_j] * sum_k K_e[j][k] * V[n_k] *)
  Theorem conductor_flow_is_stiffness_reaction extfix extRo extRi extZo Depth V Pv Z el :
    ga (el_geom (eview RA P) el) <> 0 -> hoc_kludge extfix extRo extRi extZo el <> 0 ->
    let g := el_geom (eview RA P) el in
    let De := if haxi P then 2 * PI * gr g else Depth in
    let kn := kn_of RA P V el in
    let Ke := fun j k => galerkin_K De (fst kn) (snd kn) g j k / hoc_kludge extfix extRo extRi extZo el in
    let n := fun j => tri_get (ep el) j in
    hoc_elem RA P extfix extRo extRi extZo Depth V Pv Z el =
      Z + (vgetR Pv (n 0%nat) * (Ke 0%nat 0%nat * vgetR V (n 0%nat) + Ke 0%nat 1%nat * vgetR V (n 1%nat) + Ke 0%nat 2%nat * vgetR V (n 2%nat))
         + vgetR Pv (n 1%nat) * (Ke 1%nat 0%nat * vgetR V (n 0%nat) + Ke 1%nat 1%nat * vgetR V (n 1%nat) + Ke 1%nat 2%nat * vgetR V (n 2%nat))
         + vgetR Pv (n 2%nat) * (Ke 2%nat 0%nat * vgetR V (n 0%nat) + Ke 2%nat 1%nat * vgetR V (n 1%nat) + Ke 2%nat 2%nat * vgetR V (n 2%nat))).
  Proof.
    intros Ha Hkl g De kn Ke n. unfold hoc_elem.
    subst Ke. unfold galerkin_K. subst De kn n. unfold kn_of, cadd. cbv beta.
    cbn [fold_left].
    unfold hoc_kludge in *.
    set (ext := (extfix && haxi P && nth (elbl el) (hlabel_ext P) false)%bool) in *.
    set (klv := ext_kludge RA P extRo extRi extZo el) in *.
    unfold g, el_geom, geom in *. change (nodes (eview RA P)) with (hnodes P) in *.
    set (blk := nth (eblk el) (hblocks P) (dhblock RA)).
    set (n0 := tri_get (ep el) 0) in *. set (n1 := tri_get (ep el) 1) in *. set (n2 := tri_get (ep el) 2) in *.
    set (x0 := nx (nth n0 (hnodes P) (dnode RA))) in *.
    set (y0 := ny (nth n0 (hnodes P) (dnode RA))) in *.
    set (x1 := nx (nth n1 (hnodes P) (dnode RA))) in *.
    set (y1 := ny (nth n1 (hnodes P) (dnode RA))) in *.
    set (x2 := nx (nth n2 (hnodes P) (dnode RA))) in *.
    set (y2 := ny (nth n2 (hnodes P) (dnode RA))) in *.
    set (V0 := vgetR V n0) in *. set (V1 := vgetR V n1) in *. set (V2 := vgetR V n2) in *.
    set (g0 := getk RA (hkx blk) (hky blk) (htk blk) V0).
    set (g1 := getk RA (hkx blk) (hky blk) (htk blk) V1).
    set (g2 := getk RA (hkx blk) (hky blk) (htk blk) V2).
    set (P0 := vgetR Pv n0) in *. set (P1 := vgetR Pv n1) in *. set (P2 := vgetR Pv n2) in *.
    clearbody g0 g1 g2 P0 P1 P2 V0 V1 V2 x0 x1 x2 y0 y1 y2 klv ext.
    cbn [ga gp gq gr] in *. unfold vget in *. cbn [nth fst snd] in *. ra_simpl.
    assert (Hda : (y1 - y2) * (x0 - x2) - (y2 - y0) * (x2 - x1) <> 0) by (intro Hz; apply Ha; lra).
    destruct (Reqb P0 0 && Reqb P1 0 && Reqb P2 0)%bool eqn:E.
    - apply andb_true_iff in E. destruct E as [E E2]. apply andb_true_iff in E. destruct E as [E0 E1].
      apply Reqb_true in E0, E1, E2. rewrite E0, E1, E2.
      destruct ext; field; try split; try exact Hda; try exact Hkl; lra.
    - destruct (haxi P); destruct ext; field; try split; try exact Hda; try exact Hkl; lra.
  Qed.

  (* in the repaired variant the divisor is the kludge the assembly divides the conductivity by *)
  Lemma hoc_kludge_is_assembly_kludge extRo extRi extZo D0 k0 el : haxi P = true ->
    hoc_kludge true extRo extRi extZo el = snd (elem_dk (eview RA P) extRo extRi extZo D0 k0 el).
  Proof.
    intros Hax. unfold hoc_kludge, elem_dk, ext_kludge. cbn [axi eview label_ext nodes].
    rewrite Hax. cbn [andb]. unfold geom. cbn [gr snd].
    destruct (nth (elbl el) (hlabel_ext P) false); [|reflexivity]. ra_simpl. reflexivity.
  Qed.
  (* as shipped it is 1 whatever the element *)
  Lemma hoc_kludge_asis extRo extRi extZo el : hoc_kludge false extRo extRi extZo el = 1.
  Proof. reflexivity. Qed.
End ConductorFlow.

(* ---------------- rows of free and of prescribed nodes of the assembled system ---------------- *)
Section FreeRows.
  Local Notation vgetR := (vget RA).
  Variables (P : hprob (F:=R)) (nn : nat) (Vo : vecT R) (extRo extRi extZo : R) (V : vecT R) (Q : list Z).

  (* the sum of the UN-eliminated local residuals (element matrices as built from conduction,
     transient, source and boundary terms) of the local rows assembled into row i *)
  Fixpoint hloop_resid_raw (els : list eelem) (D k : R) (pows : list (R * R * R)) (U : vecT R) (i : nat) : R :=
    match els with
    | [] => 0
    | el :: t =>
        let r := helem_matrices RA P Vo extRo extRi extZo D k pows el in
        ((if Nat.eqb (tri_get (ep el) 0) i then local_resid (em_Me r) (em_be r) (ep el) U 0 else 0)
         + (if Nat.eqb (tri_get (ep el) 1) i then local_resid (em_Me r) (em_be r) (ep el) U 1 else 0)
         + (if Nat.eqb (tri_get (ep el) 2) i then local_resid (em_Me r) (em_be r) (ep el) U 2 else 0))
        + hloop_resid_raw t (em_D r) (em_k r) (em_pows r) U i
    end.

  (* the sum of the diagonal entries Me[a][a] of the local rows assembled into row i *)
  Fixpoint hloop_diag (els : list eelem) (D k : R) (pows : list (R * R * R)) (i : nat) : R :=
    match els with
    | [] => 0
    | el :: t =>
        let r := helem_matrices RA P Vo extRo extRi extZo D k pows el in
        ((if Nat.eqb (tri_get (ep el) 0) i then m3get RA (em_Me r) 0 0 else 0)
         + (if Nat.eqb (tri_get (ep el) 1) i then m3get RA (em_Me r) 1 1 else 0)
         + (if Nat.eqb (tri_get (ep el) 2) i then m3get RA (em_Me r) 2 2 else 0))
        + hloop_diag t (em_D r) (em_k r) (em_pows r) i
    end.

  Lemma hloop_resid_free U i :
    flagged Q i = false -> (forall j, flagged Q j = true -> vgetR U j = vgetR V j) ->
    forall els D k pows,
      hloop_resid P Vo extRo extRi extZo V Q els D k pows U i = hloop_resid_raw els D k pows U i.
  Proof.
    intros Hi HU. induction els as [|el els IH]; intros D k pows; [reflexivity|].
    cbn [hloop_resid hloop_resid_raw]. rewrite IH. f_equal.
    destruct (helem_matrices_shape P Vo extRo extRi extZo D k pows el)
      as [(m00 & m01 & m02 & m11 & m12 & m22 & EM) (b0 & b1 & b2 & EB)].
    rewrite EM, EB. destruct (ep el) as [[n0 n1] n2]. cbn [tri_get].
    destruct (presc_resid V Q n0 n1 n2 m00 m01 m02 m11 m12 m22 b0 b1 b2 U (HU n0) (HU n1) (HU n2)) as (R0 & R1 & R2).
    cbv zeta in R0, R1, R2.
    destruct (Nat.eqb_spec n0 i) as [->|_]; [rewrite R0, Hi|];
      (destruct (Nat.eqb_spec n1 i) as [->|_]; [rewrite R1, Hi|]);
      (destruct (Nat.eqb_spec n2 i) as [->|_]; [rewrite R2, Hi|]); reflexivity.
  Qed.

  Lemma hloop_resid_prescribed U i :
    flagged Q i = true ->
    forall els D k pows,
      hloop_resid P Vo extRo extRi extZo V Q els D k pows U i
      = (vgetR U i - vgetR V i) * hloop_diag els D k pows i.
  Proof.
    intros Hi. induction els as [|el els IH]; intros D k pows; [cbn; ring|].
    cbn [hloop_resid hloop_diag]. rewrite IH.
    destruct (helem_matrices_shape P Vo extRo extRi extZo D k pows el)
      as [(m00 & m01 & m02 & m11 & m12 & m22 & EM) (b0 & b1 & b2 & EB)].
    rewrite EM, EB. destruct (ep el) as [[n0 n1] n2]. cbn [tri_get].
    destruct (presc_resid_flagged V Q n0 n1 n2 m00 m01 m02 m11 m12 m22 b0 b1 b2 U) as (R0 & R1 & R2).
    cbv zeta in R0, R1, R2.
    replace (m3get RA [m00; m01; m02; m01; m11; m12; m02; m12; m22] 0 0) with m00 by reflexivity.
    replace (m3get RA [m00; m01; m02; m01; m11; m12; m02; m12; m22] 1 1) with m11 by reflexivity.
    replace (m3get RA [m00; m01; m02; m01; m11; m12; m02; m12; m22] 2 2) with m22 by reflexivity.
    destruct (Nat.eqb_spec n0 i) as [->|_]; [rewrite (R0 Hi)|];
      (destruct (Nat.eqb_spec n1 i) as [->|_]; [rewrite (R1 Hi)|]);
      (destruct (Nat.eqb_spec n2 i) as [->|_]; [rewrite (R2 Hi)|]); ring.
  Qed.

  (* the assembled rows: for every U that takes the prescribed values, the row of a free node is
     the un-eliminated residual; the row of a prescribed node is d_i*(U_i - prescribed_i) for
     EVERY U, with d_i the sum of the diagonal entries of the elements around the node *)
  Theorem assembled_rows_free_and_prescribed U els s :
    mat_wf (hsM s) -> length (hsb s) = length (hsM s) ->
    Forall (elem_ok (eview RA P) nn (length (hsM s))) els ->
    let s' := fold_left (helem_step RA P nn Vo extRo extRi extZo V Q) els s in
    forall i, (i < length (hsM s))%nat ->
      (flagged Q i = false -> (forall j, flagged Q j = true -> vgetR U j = vgetR V j) ->
         Ax (hsM s') U i - vgetR (hsb s') i =
         (Ax (hsM s) U i - vgetR (hsb s) i) - hloop_resid_raw els (hsDepth s) (hsKludge s) (hsPows s) U i) /\
      (flagged Q i = true ->
         Ax (hsM s') U i - vgetR (hsb s') i =
         (Ax (hsM s) U i - vgetR (hsb s) i)
         - (vgetR U i - vgetR V i) * hloop_diag els (hsDepth s) (hsKludge s) (hsPows s) i).
  Proof.
    intros Hwf Hb Hok s' i Hi.
    destruct (hloop_rows P nn Vo extRo extRi extZo V Q U els s Hwf Hb Hok) as (_ & _ & _ & HR).
    fold s' in HR. split.
    - intros Hf HU. rewrite (HR i Hi). rewrite hloop_resid_free by assumption. reflexivity.
    - intros Hf. rewrite (HR i Hi). rewrite hloop_resid_prescribed by assumption. reflexivity.
  Qed.
End FreeRows.
