(* Sums.v — finite sums over lists in an abelian group, invariance under permutation, and the
   antisymmetric cancellation lemma: over a duplicate-free list of directed edges closed under
   reversal, every antisymmetric edge function sums to zero.  Used for the discrete Green
   identities (C01 coverage certificate, C13 areas/volumes) and for charge balance. *)
From Coq Require Import List Arith Lia Permutation Bool.
Import ListNotations.

Section Group.
  Variable T : Type.
  Variables (add : T -> T -> T) (opp : T -> T) (zero : T).
  Hypothesis add_comm : forall a b, add a b = add b a.
  Hypothesis add_assoc : forall a b c, add a (add b c) = add (add a b) c.
  Hypothesis add_zero_l : forall a, add zero a = a.
  Hypothesis add_opp_r : forall a, add a (opp a) = zero.
  (* no 2-torsion: holds in Z, Q, R *)
  Hypothesis double_zero : forall a, add a a = zero -> a = zero.

  Fixpoint gsum {E} (f : E -> T) (l : list E) : T :=
    match l with [] => zero | x :: t => add (f x) (gsum f t) end.

  Lemma add_zero_r a : add a zero = a.
  Proof. rewrite add_comm. apply add_zero_l. Qed.

  Lemma gsum_app {E} (f : E -> T) l1 l2 : gsum f (l1 ++ l2) = add (gsum f l1) (gsum f l2).
  Proof.
    induction l1 as [|x t IH]; simpl; [symmetry; apply add_zero_l|].
    rewrite IH. apply add_assoc.
  Qed.

  Lemma gsum_perm {E} (f : E -> T) l1 l2 : Permutation l1 l2 -> gsum f l1 = gsum f l2.
  Proof.
    induction 1; simpl.
    - reflexivity.
    - rewrite IHPermutation. reflexivity.
    - rewrite !add_assoc, (add_comm (f y) (f x)). reflexivity.
    - congruence.
  Qed.

  Lemma gsum_map {E E'} (g : E -> E') (f : E' -> T) l : gsum f (map g l) = gsum (fun x => f (g x)) l.
  Proof. induction l; simpl; congruence. Qed.

  Lemma gsum_ext {E} (f g : E -> T) l : (forall x, In x l -> f x = g x) -> gsum f l = gsum g l.
  Proof.
    induction l as [|x t IH]; simpl; intros H; [reflexivity|].
    rewrite (H x) by auto. rewrite IH by auto. reflexivity.
  Qed.

  Lemma opp_add a b : opp (add a b) = add (opp a) (opp b).
  Proof.
    (* uniqueness of inverses *)
    assert (U : forall x y, add x y = zero -> y = opp x).
    { intros x y H. rewrite <- (add_zero_l y), <- (add_opp_r x), (add_comm x (opp x)), <- add_assoc, H.
      apply add_zero_r. }
    symmetry. apply U.
    rewrite add_assoc, <- (add_assoc a b (opp a)), (add_comm b (opp a)), add_assoc, add_opp_r, add_zero_l.
    apply add_opp_r.
  Qed.

  Lemma opp_zero : opp zero = zero.
  Proof. rewrite <- (add_zero_l (opp zero)). apply add_opp_r. Qed.

  Lemma gsum_opp {E} (f : E -> T) l : gsum (fun x => opp (f x)) l = opp (gsum f l).
  Proof.
    induction l as [|x t IH]; simpl; [symmetry; apply opp_zero|].
    rewrite IH. symmetry. apply opp_add.
  Qed.

  Lemma gsum_filter_split {E} (f : E -> T) (p : E -> bool) l :
    gsum f l = add (gsum f (filter p l)) (gsum f (filter (fun x => negb (p x)) l)).
  Proof.
    induction l as [|x t IH]; simpl; [symmetry; apply add_zero_l|].
    rewrite IH. destruct (p x); simpl.
    - apply add_assoc.
    - rewrite !add_assoc. f_equal. apply add_comm.
  Qed.

  (* antisymmetric cancellation *)
  Theorem antisym_cancel {E} (rev : E -> E) (f : E -> T) (l : list E) :
    NoDup l ->
    (forall e, In e l -> In (rev e) l) ->
    (forall e, rev (rev e) = e) ->
    (forall e, f (rev e) = opp (f e)) ->
    gsum f l = zero.
  Proof.
    intros Hnd Hclosed Hinv Hanti.
    assert (Hperm : Permutation l (map rev l)).
    { apply NoDup_Permutation; [exact Hnd| |].
      - apply FinFun.Injective_map_NoDup; [|exact Hnd].
        intros x y H. rewrite <- (Hinv x), <- (Hinv y), H. reflexivity.
      - intros x. split; intros Hx.
        + apply in_map_iff. exists (rev x). split; [apply Hinv|apply Hclosed; exact Hx].
        + apply in_map_iff in Hx. destruct Hx as [y [<- Hy]]. apply Hclosed. exact Hy. }
    apply double_zero.
    rewrite (gsum_perm f l (map rev l) Hperm) at 2.
    rewrite gsum_map.
    rewrite (gsum_ext (fun x => f (rev x)) (fun x => opp (f x))) by (intros; apply Hanti).
    rewrite gsum_opp. apply add_opp_r.
  Qed.
End Group.
