(* Properties_C17.v — C17: a model built by Lua commands equals the same model read from a file.

   Statements only.  The table gen/LuaTable.v is REGENERATED from the snapshot's sources on every
   ./check C17 (tools/translate_lua.py); the theorems over it are re-proved by vm_compute each time.

   PARTIAL by design (DESIGN.md C17): the theorems establish that the two routes SHOULD coincide
   (the script generator is a right inverse of the command semantics for every well-formed problem,
   no state survives newdocument/open, both spellings reach the same handler); that the real
   handlers, mesher, solvers and post-processors DO coincide on the two routes is decided by the
   run-time tie (tools/props/c17.py).  Not proved: parse (print p) = build (script_of p) against the
   C14 schema model (the property payloads are opaque here). *)
From Coq Require Import List String ZArith Bool.
From XF.gen Require Import LuaTable.
From XF Require Import LuaCmds LuaCmdsProofs.
Import ListNotations.
Local Open Scope string_scope.

(* ---- (a) the registration table of the snapshot under test ---- *)
(* every two registered names that are the same command up to underscores (and analyse/analyze) have the same handler *)
Theorem C17_spellings_agree :
  forall r1 r2, In r1 lua_table -> In r2 lua_table -> canon (rname r1) = canon (rname r2) -> rhandler r1 = rhandler r2.
Proof. exact (spellings_agree_sound lua_table table_spellings_agree). Qed.
Print Assumptions C17_spellings_agree.

Theorem C17_spellings_agree_b : spellings_agree_b lua_table = true.
Proof. exact table_spellings_agree. Qed.
Print Assumptions C17_spellings_agree_b.

(* no name is registered twice (lua_register would silently keep the later one) *)
Theorem C17_names_registered_once : names_unique_b lua_table = true.
Proof. exact table_names_unique. Qed.
Print Assumptions C17_names_registered_once.

(* every spelling with underscores has its plain sibling registered *)
Theorem C17_every_spelling_has_plain : every_spelling_has_plain_b lua_table = true.
Proof. exact table_every_spelling_has_plain. Qed.
Print Assumptions C17_every_spelling_has_plain.

(* every builder / analysis / query command the generator uses is registered, in both spellings,
   with a handler other than the no-op (per physics; hi_setarcsegmentprop excepted: finding C17-1) *)
Theorem C17_every_documented_builder_registered : every_required_registered_b lua_table = true.
Proof. exact table_required_registered. Qed.
Print Assumptions C17_every_documented_builder_registered.

(* every command of the model is a registered command of each physics *)
Theorem C17_model_commands_registered :
  forall (Pay : Type) (k : kind) (c : cmd Pay),
    (k = Heat -> forall a b h g e, c <> SetArcProp a b h g e) ->
    real_handler_b lua_table (lua_name k c) = true.
Proof. intros Pay k c. exact (model_commands_registered k c). Qed.
Print Assumptions C17_model_commands_registered.

(* ---- (b) the script generator is a right inverse of the command semantics ---- *)
Theorem C17_build_script_of :
  forall (Pay : Type) (p : problem Pay), wf p = true -> build (script_of p) = Some p.
Proof. intros Pay p. exact (build_script_of p). Qed.
Print Assumptions C17_build_script_of.

(* ... whatever was built, opened, analysed before in the same script *)
Theorem C17_build_after_anything :
  forall (Pay : Type) (cs : list (cmd Pay)) (p : problem Pay), wf p = true -> build (cs ++ script_of p) = Some p.
Proof. intros Pay cs p. exact (build_after_anything cs p). Qed.
Print Assumptions C17_build_after_anything.

(* ---- (c) document state machine: no state leaks between problems ---- *)
Theorem C17_new_document_resets :
  forall (Pay : Type) (cs : list (cmd Pay)) (k : kind), run (cs ++ [NewDoc k]) = init k.
Proof. intros Pay cs k. exact (new_document_resets cs k). Qed.
Print Assumptions C17_new_document_resets.

Theorem C17_open_replaces :
  forall (Pay : Type) (cs : list (cmd Pay)) (p : problem Pay) (path : string),
    run (cs ++ [OpenDoc p path]) = opened p path.
Proof. intros Pay cs p path. exact (open_replaces cs p path). Qed.
Print Assumptions C17_open_replaces.

(* ---- the hypotheses are satisfiable: two non-trivial well-formed problems ---- *)
(* electrostatics: two materials, two boundary conditions, a conductor, a point property; a box with an arc on
   one side, a hole, groups, a fixed segment size, a hidden segment *)
Definition ex_elec : problem nat :=
  mkProblem Elec (Some 7)
    [("pt", 1)] [("V0", 2); ("mixed", 3)] [("air", 4); ("glass", 5)] [("plate", 6)]
    [mkNode (0, 0)%Z 0 0 0; mkNode (8, 0)%Z 0 1 0; mkNode (8, 6)%Z 0 0 1; mkNode (0, 6)%Z 1 0 0;
     mkNode (2, 2)%Z 0 0 0; mkNode (4, 2)%Z 0 0 0; mkNode (4, 4)%Z 0 0 0]
    [mkSeg 0 1 1 None false 0 0; mkSeg 1 2 2 (Some 3%Z) false 2 0; mkSeg 3 0 0 None true 0 1;
     mkSeg 4 5 0 None false 0 0; mkSeg 5 6 0 None false 0 0; mkSeg 6 4 0 None false 5 0]
    [mkArc 2 3 18000%Z 10%Z 1 false 3 1]
    [mkLab (3, 3)%Z 0 None 0 0%Z 0 1%Z; mkLab (1, 1)%Z 1 (Some 2%Z) 0 0%Z 4 1%Z; mkLab (7, 5)%Z 2 None 0 0%Z 0 1%Z].

Example C17_ex_elec_wf : wf ex_elec = true.
Proof. vm_compute. reflexivity. Qed.
Example C17_ex_elec_build : build (script_of ex_elec) = Some ex_elec.
Proof. vm_compute. reflexivity. Qed.

(* magnetics: circuits with turns, a magnet direction, no conductors on nodes/segments *)
Definition ex_mag : problem nat :=
  mkProblem Mag None
    [] [("A0", 1)] [("air", 2); ("copper", 3); ("NdFeB", 4)] [("coil", 5); ("bar", 6)]
    [mkNode (0, 0)%Z 0 0 0; mkNode (10, 0)%Z 0 0 0; mkNode (10, 10)%Z 0 0 0; mkNode (0, 10)%Z 0 0 0;
     mkNode (2, 2)%Z 0 7 0; mkNode (4, 2)%Z 0 7 0; mkNode (4, 5)%Z 0 7 0; mkNode (2, 5)%Z 0 7 0]
    [mkSeg 0 1 1 None false 0 0; mkSeg 1 2 1 None false 0 0; mkSeg 2 3 1 None false 0 0; mkSeg 3 0 1 None false 0 0;
     mkSeg 4 5 0 None false 7 0; mkSeg 5 6 0 (Some 1%Z) false 7 0; mkSeg 6 7 0 None false 7 0; mkSeg 7 4 0 None false 7 0]
    []
    [mkLab (3, 3)%Z 2 (Some 1%Z) 1 0%Z 7 (-50)%Z; mkLab (8, 8)%Z 1 None 0 0%Z 0 1%Z; mkLab (7, 2)%Z 3 None 2 90%Z 0 1%Z].

Example C17_ex_mag_wf : wf ex_mag = true.
Proof. vm_compute. reflexivity. Qed.
Example C17_ex_mag_build : build (script_of ex_mag) = Some ex_mag.
Proof. vm_compute. reflexivity. Qed.

(* the hypothesis is needed: two nodes at the same place cannot be told apart by the select commands
   (and the second is refused by addnode) *)
Definition ex_bad : problem nat :=
  mkProblem Elec None [] [] [] [] [mkNode (0, 0)%Z 0 0 0; mkNode (0, 0)%Z 0 1 0] [] [] [].
Example C17_ex_bad_not_wf : wf ex_bad = false /\ build (script_of ex_bad) <> Some ex_bad.
Proof. split; [vm_compute; reflexivity | vm_compute; discriminate]. Qed.
