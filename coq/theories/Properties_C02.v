(* Properties_C02.v — theorem statements for C02 (materials, boundary conditions and conductors
   land in the right places).  The marker codec is proved for the constants regenerated from the
   sources (gen/MarkerConsts.v); the geometric part is decided by the validator of C01. *)
From Coq Require Import ZArith List Bool Lia.
From XF.gen Require Import MarkerConsts.
From XF Require Import Marker MarkerProofs MeshCheck MeshCheckProofs.
Local Open Scope Z_scope.

(* point property j and conductor k survive fmesher's encoding and the solvers' decoding, for the
   four present/absent combinations *)
Theorem C02_point_marker_roundtrip : forall p c, prop_ok p -> cond_ok c -> dec_pt (enc_pt p c) = (p, c).
Proof. exact dec_enc_pt. Qed.
Print Assumptions C02_point_marker_roundtrip.

Theorem C02_segment_marker_roundtrip : forall p c, prop_ok p -> cond_ok c -> dec_seg (enc_seg p c) = (p, c).
Proof. exact dec_enc_seg. Qed.
Print Assumptions C02_segment_marker_roundtrip.

Theorem C02_magnetics_point_marker_roundtrip : forall p,
  (match p with Some j => 0 <= j < 2 ^ 31 - 2 | None => True end) -> dec_pt_mag (enc_pt_mag p) = p.
Proof. exact dec_enc_pt_mag. Qed.
Print Assumptions C02_magnetics_point_marker_roundtrip.

Theorem C02_magnetics_segment_marker_roundtrip : forall p,
  (match p with Some j => 0 <= j < 2 ^ 31 - 2 | None => True end) -> dec_seg_mag (enc_seg_mag p) = p.
Proof. exact dec_enc_seg_mag. Qed.
Print Assumptions C02_magnetics_segment_marker_roundtrip.

(* the range guard is sharp *)
Theorem C02_codec_guard_sharp_refuted : exists p c, ~ prop_ok p /\ dec_pt (enc_pt p c) <> (p, c).
Proof. exact dec_enc_pt_refuted. Qed.
Print Assumptions C02_codec_guard_sharp_refuted.

(* no edge or vertex elsewhere carries an assignment: Triangle's own markers decode to nothing *)
Theorem C02_triangle_vertex_marks_ignored : forall n, n <= 1 -> dec_pt n = (None, None).
Proof. exact triangle_marks_ignored_pt. Qed.
Print Assumptions C02_triangle_vertex_marks_ignored.
Theorem C02_triangle_edge_marks_ignored : forall n, 0 <= n -> dec_seg n = (None, None).
Proof. exact triangle_marks_ignored_seg. Qed.
Print Assumptions C02_triangle_edge_marks_ignored.
