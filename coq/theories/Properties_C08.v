(* Properties_C08.v — theorem statements for C08 (no memory error or undefined behaviour).
   Only what is logic can be proved: every array index computed by the modelled routines stays in
   range under the well-formedness that the loaders establish.  (Use of freed / uninitialised memory
   and undefined casts are exhibited by the sanitizer replays of tools/props/c08.py.) *)
From Coq Require Import ZArith List Bool Arith Lia Reals.
From XF Require Import Arith Sparse SparseProofs AsmOps AsmOpsProofs AsmE AsmEProofs MeshCheck MeshCheckProofs
                       Locate LocateProofs Marker MarkerProofs.
Import ListNotations.

(* sparse matrix: Put at an in-range position keeps every stored column index below n and the
   row structure (diagonal first, strictly increasing columns), so no later walk leaves the row *)
Theorem C08_put_keeps_indices_in_range : forall (M : matrixT R) (v : R) (p q : nat),
  mat_wf M -> (p < length M)%nat -> (q < length M)%nat -> mat_wf (mput M v p q).
Proof. exact mat_wf_mput. Qed.
Print Assumptions C08_put_keeps_indices_in_range.

(* every sequence of assembly statements with in-range indices leaves a well-formed matrix and
   vectors of unchanged length *)
Theorem C08_assembly_keeps_indices_in_range :
  forall (M : matrixT R) (b : vecT R) (mops : list (nat * nat * R)) (bops : list (nat * R)) (V : vecT R),
  mat_wf M -> mops_in_range (length M) mops -> bops_in_range (length b) bops ->
  mat_wf (apply_mops RA M mops) /\ length (apply_mops RA M mops) = length M /\
  length (apply_bops RA b bops) = length b.
Proof.
  intros M b mops bops V H1 H2 H3. destruct (assembled_rows M b mops bops V H1 H2 H3) as (A & B & C & _). auto.
Qed.
Print Assumptions C08_assembly_keeps_indices_in_range.

(* the electrostatic element loop only touches rows/columns below the matrix size *)
Theorem C08_element_loop_in_range :
  forall (P : eprob (F:=R)) (nn : nat) (extRo extRi extZo : R) (V : vecT R) (Q : list Z) (U : vecT R)
         (els : list eelem) (s : estate (F:=R)),
  mat_wf (sM s) -> length (sb s) = length (sM s) -> Forall (elem_ok P nn (length (sM s))) els ->
  let s' := fold_left (elem_step RA P nn extRo extRi extZo V Q) els s in
  mat_wf (sM s') /\ length (sM s') = length (sM s) /\ length (sb s') = length (sb s).
Proof.
  intros. destruct (loop_rows P nn extRo extRi extZo V Q U els s) as (A & B & C & _); auto.
Qed.
Print Assumptions C08_element_loop_in_range.

(* point location: every element index the spiral search touches is a valid index *)
Theorem C08_spiral_indices_in_range : forall sz k i : Z,
  (0 < sz)%Z -> (0 <= k < sz)%Z -> In i (visited sz k) -> (0 <= i < sz)%Z.
Proof. exact visited_range. Qed.
Print Assumptions C08_spiral_indices_in_range.

(* markers decode to indices below the property counts they were encoded from (no out-of-range
   property index is manufactured by the codec inside its proved range) *)
Theorem C08_decoded_markers_are_the_encoded_indices : forall p c,
  prop_ok p -> cond_ok c -> dec_pt (enc_pt p c) = (p, c) /\ dec_seg (enc_seg p c) = (p, c).
Proof. intros. split; [apply dec_enc_pt|apply dec_enc_seg]; assumption. Qed.
Print Assumptions C08_decoded_markers_are_the_encoded_indices.

(* models are functions: the same input gives the same output (determinism is by construction) *)
Theorem C08_models_deterministic : forall (P : eprob (F:=R)) bw prec, asmE RA P bw prec = asmE RA P bw prec.
Proof. reflexivity. Qed.
Print Assumptions C08_models_deterministic.
