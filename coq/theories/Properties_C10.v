(* Properties_C10.v — theorem statements for C10 (other length units rescale results exactly). *)
From Coq Require Import ZArith QArith List Bool Arith Lia Reals Lra.
From XF.gen Require Import Tables.
From XF Require Import Arith Sparse AsmE AsmEProofs Units UnitsProofs.
Import ListNotations.

(* every unit table in the sources (esolver, hsolver incl. its LoadMesh, static2d, harmonic2d, the two
   axisymmetric magnetics files, LengthConvMeters, both post-processor tables) is the SI value of the
   six units times the tool's working-unit factor; finite domain, regenerated on every run *)
Theorem C10_unit_tables_consistent : tables_consistent_b = true.
Proof. exact tables_consistent. Qed.
Print Assumptions C10_unit_tables_consistent.

Local Open Scope R_scope.
(* scaling all lengths (coordinates and depth) by s: the element stiffness scales by s and the
   volume-source load by s^3; hence potentials fixed by boundary values are unchanged and
   source-driven potentials scale with s^2 (K V = b  ->  (sK)(s^2 V) = s^3 b) *)
Theorem C10_element_scaling_law :
  forall (P P' : eprob (F:=R)) (extRo extRi extZo D0 k0 s : R) (el : eelem),
  s <> 0 -> ee el = (None, None, None) ->
  (forall t, (t < 3)%nat -> nx (nth (tri_get (ep el) t) (nodes P') (dnode RA)) = s * nx (nth (tri_get (ep el) t) (nodes P) (dnode RA))) ->
  (forall t, (t < 3)%nat -> ny (nth (tri_get (ep el) t) (nodes P') (dnode RA)) = s * ny (nth (tri_get (ep el) t) (nodes P) (dnode RA))) ->
  blocks P' = blocks P -> eo P' = eo P -> ga (el_geom P el) <> 0 ->
  fst (elem_dk P' extRo extRi extZo (s * D0) k0 el) = s * fst (elem_dk P extRo extRi extZo D0 k0 el) ->
  snd (elem_dk P' extRo extRi extZo (s * D0) k0 el) = snd (elem_dk P extRo extRi extZo D0 k0 el) ->
  snd (elem_dk P extRo extRi extZo D0 k0 el) <> 0 ->
  forall j k, (j < 3)%nat -> (k < 3)%nat ->
    let r := elem_matrices RA P extRo extRi extZo D0 k0 el in
    let r' := elem_matrices RA P' extRo extRi extZo (s * D0) k0 el in
    m3get RA (snd (fst r')) j k = s * m3get RA (snd (fst r)) j k /\
    vget RA (snd r') j = s * s * s * vget RA (snd r) j.
Proof. intros. apply element_scaling; assumption. Qed.
Print Assumptions C10_element_scaling_law.

(* the solution relation behind "source-driven potentials scale with the square of the ratio" *)
Theorem C10_solution_scaling : forall (k11 k12 b1 v1 v2 s : R),
  k11 * v1 + k12 * v2 = b1 -> (s * k11) * (s * s * v1) + (s * k12) * (s * s * v2) = s * s * s * b1.
Proof. intros. replace (s * k11 * (s * s * v1) + s * k12 * (s * s * v2)) with (s * s * s * (k11 * v1 + k12 * v2)) by ring. rewrite H. reflexivity. Qed.
Print Assumptions C10_solution_scaling.
