(* AsmMNLDeriv.v — the derivative reading of the tangent term of AsmMNL.nl_update (Coquelicot). *)
From Coq Require Import ZArith List Bool Arith Lia Reals Lra.
Set Warnings "-ambiguous-paths".
From Coquelicot Require Import Coquelicot.
From XF Require Import Arith Sparse SparseProofs AsmOps AsmOpsProofs AsmE AsmEProofs AsmM AsmMProofs BH.
From XF Require Import BHProofs AsmMNL AsmMNLProofs.
Import ListNotations.
Local Open Scope R_scope.

(* dBsq is the gradient of Bsq with respect to the three nodal values *)
Theorem Bsq_is_derive (g : egeom (F:=R)) (v0 v1 v2 : R) : ga g <> 0 ->
  is_derive (fun x => Bsq g x v1 v2) v0 (dBsq g v0 v1 v2 0) /\
  is_derive (fun x => Bsq g v0 x v2) v1 (dBsq g v0 v1 v2 1) /\
  is_derive (fun x => Bsq g v0 v1 x) v2 (dBsq g v0 v1 v2 2).
Proof.
  intros Ha. unfold Bsq, dBsq. cbv zeta.
  generalize (vget RA (gq g) 0) (vget RA (gq g) 1) (vget RA (gq g) 2) (vget RA (gp g) 0) (vget RA (gp g) 1) (vget RA (gp g) 2) (c4pi RA).
  intros q0 q1 q2 p0 p1 p2 c.
  split; [|split]; (auto_derive; [repeat split; auto; lra | field; lra]).
Qed.
