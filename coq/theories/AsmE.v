(* AsmE.v — executable model of ESolver::AnalyzeProblem and ESolver::ChargeOnConductor
   (cfemm/esolver/esolver.cpp), statement by statement, on the post-LoadMesh / post-Cuthill
   data the solver works on.  No proofs in this file. *)
From Coq Require Import ZArith List Bool Arith.
From XF Require Import Arith Sparse.
Import ListNotations.

Section AsmE.
  Context {F : Type} (A : Arith F).
  Local Notation "x +. y" := (aadd A x y) (at level 50, left associativity).
  Local Notation "x -. y" := (asub A x y) (at level 50, left associativity).
  Local Notation "x *. y" := (amul A x y) (at level 40, left associativity).
  Local Notation "x /. y" := (adiv A x y) (at level 40, left associativity).
  Local Notation zero := (azero A).
  Local Notation one := (aone A).
  Local Notation "'#' z" := (aofZ A z) (at level 9).

  Record enode := mkENode { nx : F; ny : F; nbm : option nat; ncond : option nat }.
  Record eelem := mkEElem { ep : nat * nat * nat; ee : option nat * option nat * option nat;
                            eblk : nat; elbl : nat }.
  Record eblock := mkEBlock { bex : F; bey : F; bqv : F }.
  Record eline := mkELine { lfmt : nat; lV : F; lc0 : F; lc1 : F; lqs : F }.
  Record epoint := mkEPoint { pV : F; pqp : F }.
  Record ecirc := mkECirc { ctype : nat; cV : F; cq : F }.
  Record eprob := mkEProb {
    axi : bool; depth_raw : F; unit_idx : nat; extRo_raw : F; extRi_raw : F; extZo_raw : F;
    eo : F;
    nodes : list enode; elems : list eelem; blocks : list eblock; lines : list eline;
    points : list epoint; circs : list ecirc; label_ext : list bool;
    pbcs : list (nat * nat * nat) }.

  Definition dnode := mkENode zero zero None None.
  Definition dblock := mkEBlock zero zero zero.
  Definition dline := mkELine 0 zero zero zero zero.
  Definition dpoint := mkEPoint zero zero.
  Definition dcirc := mkECirc 0 zero zero.

  (* constexpr double units[]={25.4,1.,10.,1000.,0.0254,0.001}; *)
  Definition eunits : list F :=
    [adec A 254 (-1); one; #10; #1000; adec A 254 (-4); adec A 1 (-3)].

  Definition tri_get {T} (t : T * T * T) (j : nat) : T :=
    let '(a, b, c) := t in match j with 0 => a | 1 => b | _ => c end.
  Definition nxt (j : nat) : nat := match j with 0 => 1 | 1 => 2 | _ => 0 end.

  (* ---- book-keeping of prescribed values: (V, Q) ; Q = -2 free, -1 fixed, c conductor ---- *)
  Definition bk_node (P : eprob) (n : enode) : F * Z :=
    let vq := (zero, (-2)%Z) in
    let vq := match nbm n with
              | Some m => let pp := nth m (points P) dpoint in
                          if aeqb A (pqp pp) zero then (pV pp, (-1)%Z) else vq
              | None => vq end in
    match ncond n with
    | Some c => let cc := nth c (circs P) dcirc in
                if Nat.eqb (ctype cc) 1 then (cV cc, Z.of_nat c) else vq
    | None => vq end.

  Definition bk_edge (P : eprob) (el : eelem) (j : nat) (VQ : list F * list Z) : list F * list Z :=
    match tri_get (ee el) j with
    | Some e =>
        let lp := nth e (lines P) dline in
        if Nat.eqb (lfmt lp) 0 then
          let pj := tri_get (ep el) j in
          let pk := tri_get (ep el) (nxt j) in
          let '(V, Q) := VQ in
          (vset (vset V pj (lV lp)) pk (lV lp), vset (vset Q pj (-1)%Z) pk (-1)%Z)
        else VQ
    | None => VQ
    end.

  Definition bookkeeping (P : eprob) (ncirc : nat) : list F * list Z :=
    let vq := map (bk_node P) (nodes P) in
    let V0 := map fst vq ++ repeat zero ncirc in
    let Q0 := map snd vq ++ repeat 0%Z ncirc in
    fold_left (fun VQ el => bk_edge P el 2 (bk_edge P el 1 (bk_edge P el 0 VQ))) (elems P) (V0, Q0).

  (* ---- element matrices ---- *)
  Definition m3get (M : list F) (j k : nat) : F := nth (j * 3 + k) M zero.
  Definition m3set (M : list F) (j k : nat) (v : F) : list F := vset M (j * 3 + k) v.
  Definition m3add (M : list F) (j k : nat) (v : F) : list F := m3set M j k (m3get M j k +. v).
  Definition v3add (b : list F) (j : nat) (v : F) : list F := vset b j (vget A b j +. v).

  Definition sqr (x : F) : F := x *. x.

  Record egeom := mkEGeom { gp : list F; gq : list F; gl : list F; ga : F; gr : F }.

  Definition geom (x0 y0 x1 y1 x2 y2 : F) : egeom :=
    let p := [y1 -. y2; y2 -. y0; y0 -. y1] in
    let q := [x2 -. x1; x0 -. x2; x1 -. x0] in
    let l := [asqrt A (sqr (x1 -. x0) +. sqr (y1 -. y0));
              asqrt A (sqr (x2 -. x1) +. sqr (y2 -. y1));
              asqrt A (sqr (x0 -. x2) +. sqr (y0 -. y2))] in
    let a := (vget A p 0 *. vget A q 1 -. vget A p 1 *. vget A q 0) /. #2 in
    let r := (x0 +. x1 +. x2) /. #3 in
    mkEGeom p q l a r.

  (* the nested loops  for j for k>=j : Me[j][k] += K*s[j]*s[k]; if (j!=k) Me[k][j] += ... *)
  Definition stiff_add (Me : list F) (K : F) (s : list F) : list F :=
    fold_left (fun Me jk =>
      let '(j, k) := jk in
      let v := K *. vget A s j *. vget A s k in
      let Me := m3add Me j k v in
      if Nat.eqb j k then Me else m3add Me k j v)
      [(0,0);(0,1);(0,2);(1,1);(1,2);(2,2)] Me.

  (* state threaded through the element loop: the running value of the member Depth and kludge *)
  Record estate := mkES { sDepth : F; sKludge : F; sM : list (list (nat * F)); sb : list F;
                          sCondK : list F; sCondB : list F }.

  Definition cconst (P : eprob) : F := adec A 1 (-6) /. eo P.

  Definition edge_step (P : eprob) (xs : list F) (g : egeom) (el : eelem)
    (acc : F * list F * list F) (j : nat) : F * list F * list F :=
      let '(Depth, Me, be) := acc in
      match tri_get (ee el) j with
      | None => acc
      | Some e =>
          let k := nxt j in
          let lp := nth e (lines P) dline in
          let Depth := if axi P then api A *. (vget A xs j +. vget A xs k) else Depth in
          let c := cconst P in
          let '(Me, be) :=
            if Nat.eqb (lfmt lp) 1 then
              let K := aneg A #1000 *. Depth *. c *. lc0 lp *. vget A (gl g) j /. #6 in
              let Me := m3add Me j j (K *. #2) in
              let Me := m3add Me k k (K *. #2) in
              let Me := m3add Me j k K in
              let Me := m3add Me k j K in
              let K := #1000 *. Depth *. c *. lc1 lp *. vget A (gl g) j /. #2 in
              (Me, v3add (v3add be j K) k K)
            else (Me, be) in
          let be :=
            if Nat.eqb (lfmt lp) 2 then
              let K := aneg A #1000 *. Depth *. c *. lqs lp *. vget A (gl g) j /. #2 in
              v3add (v3add be j K) k K
            else be in
          (Depth, Me, be)
      end.

  Definition edge_terms (P : eprob) (xs : list F) (g : egeom) (el : eelem) (depth0 : F)
    (Me be : list F) : F * list F * list F :=
    fold_left (edge_step P xs g el) [0;1;2] (depth0, Me, be).

  (* process any prescribed nodal values.  The (Me, be) part and the (condK, condB) part —
     which keeps, per floating conductor, the couplings to prescribed nodes that the
     elimination removes from the matrix — are written as two components of one fold: the
     second reads the element matrix as it is BEFORE the step, as the C++ does. *)
  Definition presc_inner_mb (j : nat) (vj : F) (mb : list F * list F) (k : nat) : list F * list F :=
    if Nat.eqb j k then mb
    else (m3set (m3set (fst mb) k j zero) j k zero,
          vset (snd mb) k (vget A (snd mb) k -. m3get (fst mb) k j *. vj)).

  Definition presc_inner_c (P : eprob) (n : nat * nat * nat) (j : nat) (vj : F)
    (mb : list F * list F) (c : list F * list F) (k : nat) : list F * list F :=
    if Nat.eqb j k then c
    else match ncond (nth (tri_get n k) (nodes P) dnode) with
         | Some cc =>
             if Nat.eqb (ctype (nth cc (circs P) dcirc)) 0 then
               (vset (fst c) cc (vget A (fst c) cc -. m3get (fst mb) k j),
                vset (snd c) cc (vget A (snd c) cc +. m3get (fst mb) k j *. vj))
             else c
         | None => c
         end.

  Definition presc_outer_mb (V : list F) (Q : list Z) (n : nat * nat * nat)
    (mb : list F * list F) (j : nat) : list F * list F :=
    let nj := tri_get n j in
    if Z.eqb (nth nj Q (-2)%Z) (-2)%Z then mb
    else
      let vj := vget A V nj in
      let mb' := fold_left (presc_inner_mb j vj) [0;1;2] mb in
      (fst mb', vset (snd mb') j (vj *. m3get (fst mb') j j)).

  Definition presc_outer_c (P : eprob) (V : list F) (Q : list Z) (n : nat * nat * nat)
    (mb : list F * list F) (c : list F * list F) (j : nat) : list F * list F :=
    let nj := tri_get n j in
    if Z.eqb (nth nj Q (-2)%Z) (-2)%Z then c
    else
      let vj := vget A V nj in
      snd (fold_left (fun acc k => (presc_inner_mb j vj (fst acc) k, presc_inner_c P n j vj (fst acc) (snd acc) k))
                     [0;1;2] (mb, c)).

  Definition presc_terms (P : eprob) (V : list F) (Q : list Z) (n : nat * nat * nat) (Me be cK cB : list F)
    : list F * list F * list F * list F :=
    let r := fold_left (fun acc j => (presc_outer_mb V Q n (fst acc) j, presc_outer_c P V Q n (fst acc) (snd acc) j))
                       [0;1;2] ((Me, be), (cK, cB)) in
    (fst (fst r), snd (fst r), fst (snd r), snd (snd r)).

  Definition msub (M : list (list (nat * F))) (v : F) (p q : nat) := mput M (mget A M p q -. v) p q.
  Definition madd (M : list (list (nat * F))) (v : F) (p q : nat) := mput M (mget A M p q +. v) p q.

  Definition scatter (P : eprob) (nn : nat) (n : nat * nat * nat) (Me be : list F)
    (M : list (list (nat * F))) (b : list F) : list (list (nat * F)) * list F :=
    let ne := fun j =>
      let nj := tri_get n j in
      match ncond (nth nj (nodes P) dnode) with
      | Some c => if Nat.eqb (ctype (nth c (circs P) dcirc)) 0 then c + nn else nj
      | None => nj end in
    fold_left (fun acc j =>
      let '(M, b) := acc in
      let M := fold_left (fun M k => if Nat.leb j k then msub M (m3get Me j k) (ne j) (ne k) else M) [0;1;2] M in
      let b := vset b (ne j) (vget A b (ne j) -. vget A be j) in
      let nj := tri_get n j in
      let M := if Nat.eqb (ne j) nj then M
               else madd (msub M (m3get Me j j) nj nj) (m3get Me j j) nj (ne j) in
      (M, b)) [0;1;2] (M, b).

  (* element matrices before the prescribed-value processing: (Depth', kludge', Me, be) *)
  Definition elem_matrices (P : eprob) (extRo extRi extZo : F) (Depth0 kl0 : F) (el : eelem)
    : F * F * list F * list F :=
    let n := ep el in
    let nd := fun j => nth (tri_get n j) (nodes P) dnode in
    let g := geom (nx (nd 0)) (ny (nd 0)) (nx (nd 1)) (ny (nd 1)) (nx (nd 2)) (ny (nd 2)) in
    let xs := [nx (nd 0); nx (nd 1); nx (nd 2)] in
    let '(Depth, kludge) :=
      if axi P then
        let Depth := #2 *. api A *. gr g in
        let kludge :=
          if nth (elbl el) (label_ext P) false then
            let z := (ny (nd 0) +. ny (nd 1) +. ny (nd 2)) /. #3 -. extZo in
            (gr g *. gr g +. z *. z) /. (extRi *. extRo)
          else one in
        (Depth, kludge)
      else (Depth0, kl0) in
    let blk := nth (eblk el) (blocks P) dblock in
    let Me := repeat zero 9 in
    let be := repeat zero 3 in
    let K := aneg A Depth *. bex blk /. (#4 *. ga g) /. kludge in
    let Me := stiff_add Me K (gp g) in
    let K := aneg A Depth *. bey blk /. (#4 *. ga g) /. kludge in
    let Me := stiff_add Me K (gq g) in
    let Kq := aneg A Depth *. cconst P *. bqv blk *. ga g /. #3 in
    let be := v3add (v3add (v3add be 0 Kq) 1 Kq) 2 Kq in
    let '(Depth, Me, be) := edge_terms P xs g el Depth Me be in
    (Depth, kludge, Me, be).

  Definition elem_step (P : eprob) (nn : nat) (extRo extRi extZo : F) (V : list F) (Q : list Z)
    (s : estate) (el : eelem) : estate :=
    let '(Depth, kludge, Me, be) := elem_matrices P extRo extRi extZo (sDepth s) (sKludge s) el in
    let '(Me, be, cK, cB) := presc_terms P V Q (ep el) Me be (sCondK s) (sCondB s) in
    let '(M, b) := scatter P nn (ep el) Me be (sM s) (sb s) in
    mkES Depth kludge M b cK cB.

  (* point charges and conductor book-keeping; returns (Depth, b, Q) *)
  Definition point_charges (P : eprob) (Depth : F) (b : list F) (Q : list Z) : F * list F * list Z :=
    fold_left (fun acc in_ =>
      let '(Depth, b, Q) := acc in
      let '(i, n) := in_ in
      let '(Depth, b, Q) :=
        match nbm n with
        | Some m =>
            if Z.eqb (nth i Q 0%Z) (-2)%Z then
              let Depth := if axi P then #2 *. api A *. nx n else Depth in
              let b := vset b i (vget A b i +. adec A 1 6 *. Depth *. cconst P *. pqp (nth m (points P) dpoint)) in
              (Depth, b, vset Q i (-1)%Z)
            else (Depth, b, Q)
        | None => (Depth, b, Q)
        end in
      let Q := match ncond n with Some c => vset Q i (Z.of_nat c) | None => Q end in
      (Depth, b, Q)) (combine (seq 0 (length (nodes P))) (nodes P)) (Depth, b, Q).

  Definition apply_pbcs (P : eprob) (L : lin (F:=F)) : lin :=
    fold_left (fun L pbc =>
      let '(x, y, t) := pbc in
      let L := if Nat.eqb t 0 then periodicity A L x y else L in
      if Nat.eqb t 1 then antiperiodicity A L x y else L) (pbcs P) L.

  (* one conductor's row (ESolver::AnalyzeProblem, "construct row for each conductor"); k = nn + i *)
  Definition cond_rowsum (L : lin (F:=F)) (k : nat) (K0 : F) : F :=
    fold_left (fun K j => if Nat.eqb j k then K else K +. mget A (lM L) k j) (seq 0 (ln L)) K0.

  Definition cond_row_step (P : eprob) (nn : nat) (cK cB : list F) (L : lin (F:=F)) (ic : nat * ecirc) : lin :=
    let '(i, cc) := ic in
    let k := nn + i in
    let L :=
      if Nat.eqb (ctype cc) 1 then
        let K := mget A (lM L) 0 0 in
        lsetb (lput L K k k) k (K *. cV cc)
      else L in
    if Nat.eqb (ctype cc) 0 then
      let K := cond_rowsum L k (vget A cK i) in
      if aeqb A K zero then lput L (mget A (lM L) 0 0) k k
      else lsetb (lput L (aneg A K) k k) k (adec A 1 9 *. cconst P *. cq cc +. vget A cB i)
    else L.

  Definition conductor_rows (P : eprob) (nn : nat) (cK cB : list F) (L : lin (F:=F)) : lin :=
    fold_left (cond_row_step P nn cK cB) (combine (seq 0 (length (circs P))) (circs P)) L.

  (* the assembled system, the prescribed-value vector and the Q flags *)
  Definition asmE (P : eprob) (bw : nat) (prec : F) : lin (F:=F) * list F * list Z :=
    let nn := length (nodes P) in
    let nc := length (circs P) in
    let u := nth (unit_idx P) eunits one in
    let Depth := depth_raw P *. u in
    let extRo := extRo_raw P *. u in
    let extRi := extRi_raw P *. u in
    let extZo := extZo_raw P *. u in
    let '(V, Q) := bookkeeping P nc in
    let L0 := lcreate A (nn + nc) bw prec (adec A 15 (-1)) in
    let s := fold_left (elem_step P nn extRo extRi extZo V Q) (elems P)
                       (mkES Depth one (lM L0) (lb L0) (repeat zero nc) (repeat zero nc)) in
    let '(Depth, b, Q) := point_charges P (sDepth s) (sb s) Q in
    let L := mkLin (ln L0) (lbdw L0) (sM s) b V (lprec L0) (llam L0) in
    let L := apply_pbcs P L in
    let L := conductor_rows P nn (sCondK s) (sCondB s) L in
    (L, V, Q).

  (* ESolver::ChargeOnConductor; Depth is the member after AnalyzeProblem (planar: raw*units) *)
  (* [extfix] selects the variant of the source: false = elements of the exterior region integrated with the
     unscaled permittivity (as shipped), true = divided by the same kludge the assembly uses (repaired) *)
  Definition charge_on_conductor (P : eprob) (extfix : bool) (Depth : F) (V : list F) (cond : nat) : F :=
    let lc := adec A 1 (-3) in
    let u := nth (unit_idx P) eunits one in
    let extRo := extRo_raw P *. u in
    let extRi := extRi_raw P *. u in
    let extZo := extZo_raw P *. u in
    let Pv := map (fun n => match ncond n with
                            | Some c => if Nat.eqb c cond then one else zero
                            | None => zero end) (nodes P) in
    fold_left (fun Z el =>
      let n := ep el in
      let nj := fun j => tri_get n j in
      if aeqb A (vget A Pv (nj 0)) zero && aeqb A (vget A Pv (nj 1)) zero && aeqb A (vget A Pv (nj 2)) zero
      then Z
      else
        let nd := fun j => nth (nj j) (nodes P) dnode in
        let b := [ny (nd 1) -. ny (nd 2); ny (nd 2) -. ny (nd 0); ny (nd 0) -. ny (nd 1)] in
        let c := [nx (nd 2) -. nx (nd 1); nx (nd 0) -. nx (nd 2); nx (nd 1) -. nx (nd 0)] in
        let da := vget A b 0 *. vget A c 1 -. vget A b 1 *. vget A c 0 in
        let a := da *. lc *. lc /. #2 in
        let a := if axi P then a *. (#2 *. api A *. lc *. (nx (nd 0) +. nx (nd 1) +. nx (nd 2)) /. #3)
                 else a *. (Depth *. lc) in
        let a := if extfix && axi P && nth (elbl el) (label_ext P) false then
                   let r := (nx (nd 0) +. nx (nd 1) +. nx (nd 2)) /. #3 in
                   let z := (ny (nd 0) +. ny (nd 1) +. ny (nd 2)) /. #3 -. extZo in
                   a /. ((r *. r +. z *. z) /. (extRi *. extRo))
                 else a in
        let '(vx, vy, Dx, Dy) :=
          fold_left (fun acc k =>
            let '(vx, vy, Dx, Dy) := acc in
            (vx -. (vget A Pv (nj k) *. vget A b k) /. (da *. lc),
             vy -. (vget A Pv (nj k) *. vget A c k) /. (da *. lc),
             Dx -. (vget A V (nj k) *. vget A b k) /. (da *. lc),
             Dy -. (vget A V (nj k) *. vget A c k) /. (da *. lc))) [0;1;2] (zero, zero, zero, zero) in
        let blk := nth (eblk el) (blocks P) dblock in
        let Dx := Dx *. (eo P *. bex blk) in
        let Dy := Dy *. (eo P *. bey blk) in
        Z +. a *. (Dx *. vx +. Dy *. vy)) (elems P) zero.
End AsmE.
