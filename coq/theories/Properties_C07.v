(* Properties_C07.v — theorem statements for C07 ((anti)periodic boundaries pair the right nodes
   and the solution repeats), about the model Pbc.v of FMesher::DoPeriodicBCTriangulation and, for
   the solution, about Sparse.v's Periodicity/AntiPeriodicity.  Proofs: PbcProofs.v (and
   SparseProofs.tie_system_equiv).  Nothing else lives here. *)
From Coq Require Import ZArith List Bool Arith Lia Reals Lra.
From XF Require Import Arith Discretize DiscretizeProofs Pbc PbcProofs Sparse SparseProofs.
Import ListNotations.

(* -- (a) partner segments ------------------------------------------------------------------------ *)
(* Two partner segments a0->a1, b0->b1 (the second after the code's swap) cut into k >= 2 parts: the
   loop appends 2(k-1) points, lists the pairs (L+2j, L+2j+1), j < k-1, and the second point of each
   pair is the image of the first (which is a0+(a1-a0)(j+1)/k) under EVERY affine map that takes a0
   to b0 and a1 to b1 — all subdivision counts k, all coordinates. *)
Theorem C07_seg_pair_is_affine_image :
  forall (k : nat) (a0 a1 b0 b1 : R * R) (e0 e1 f0 f1 t c0 c1 : nat) nodes segs pts (M : aff),
  (2 <= k)%nat -> app M a0 = b0 -> app M a1 = b1 ->
  exists new segs',
    seg_pair_loop RA k 0 k a0 a1 b0 b1 e0 e1 f0 f1 t c0 c1 (nodes, segs, pts) =
    (nodes ++ new, segs ++ segs', pts ++ new_pts (length nodes) t 0 (k - 1)) /\
    length new = (2 * (k - 1))%nat /\ length segs' = (2 * k)%nat /\
    forall j, (j < k - 1)%nat ->
      nth (2 * j) new (0%R, 0%R) = sub_point RA a0 a1 j k /\
      nth (2 * j + 1) new (0%R, 0%R) = app M (nth (2 * j) new (0%R, 0%R)).
Proof. exact seg_pair_is_affine_image. Qed.
Print Assumptions C07_seg_pair_is_affine_image.

(* ... and when the partners have the same length such a map exists that is a proper rigid motion *)
Theorem C07_equal_length_partners_have_a_rigid_motion :
  forall a0 a1 b0 b1 : R * R, a0 <> a1 -> dist2 a0 a1 = dist2 b0 b1 ->
  exists M, is_rigid M /\ det M = 1%R /\ app M a0 = b0 /\ app M a1 = b1.
Proof. exact rigid_motion_exists. Qed.
Print Assumptions C07_equal_length_partners_have_a_rigid_motion.

Theorem C07_rigid_motion_preserves_distances :
  forall (M : aff) (p q : R * R), is_rigid M -> dist2 (app M p) (app M q) = dist2 p q.
Proof. exact rigid_preserves_dist. Qed.
Print Assumptions C07_rigid_motion_preserves_distances.

(* -- (b) partner arcs ---------------------------------------------------------------------------- *)
(* Two partner arcs (centres c0, c1, begin points bg0, bg1 at equal radius, rotation factors d0 and
   d1 = d0 or conj d0) cut into k >= 2 parts: the listed pairs are the (j+1)-th turns of the two begin
   points, and ONE rigid motion M (a rotation, det 1, when d1 = d0) takes centre to centre, begin point
   to begin point and the first point of every listed pair to the second. *)
Theorem C07_arc_pair_is_rotation_image :
  forall (k : nat) (c0 c1 d0 d1 bg0 bg1 : R * R) (p00 p01 p10 p11 t m0 m1 : nat) nodes segs pts,
  (2 <= k)%nat -> bg0 <> c0 -> dist2 bg0 c0 = dist2 bg1 c1 -> d1 = d0 \/ d1 = cconj RA d0 ->
  exists new segs' M,
    arc_pair_loop RA k 0 k c0 c1 d0 d1 bg0 bg1 p00 p01 p10 p11 t m0 m1 (nodes, segs, pts) =
    (nodes ++ new, segs ++ segs', pts ++ new_pts (length nodes) t 0 (k - 1)) /\
    length new = (2 * (k - 1))%nat /\ length segs' = (2 * k)%nat /\
    is_rigid M /\ (d1 = d0 -> det M = 1%R) /\ app M c0 = c1 /\ app M bg0 = bg1 /\
    forall j, (j < k - 1)%nat ->
      nth (2 * j) new (0%R, 0%R) = turns RA c0 d0 bg0 (S j) /\
      nth (2 * j + 1) new (0%R, 0%R) = app M (nth (2 * j) new (0%R, 0%R)).
Proof. exact arc_pair_is_rotation_image. Qed.
Print Assumptions C07_arc_pair_is_rotation_image.

(* the factors the model selects from the NormalDirection flags (equal step angles) *)
Theorem C07_arc_direction_factors :
  forall (nd0 nd1 : bool) (a0 a1 : parc (F:=R)), pa_ec a1 = pa_ec a0 -> pa_es a1 = pa_es a0 ->
  let d0 := snd (arc_start0 RA nd0 a0) in
  let d1 := snd (arc_start1 RA nd1 a1) in
  (nd0 <> nd1 -> d1 = d0) /\ (nd0 = nd1 -> d1 = cconj RA d0).
Proof. exact arc_start_factors. Qed.
Print Assumptions C07_arc_direction_factors.

(* with a unit factor every created point stays on its arc's circle *)
Theorem C07_arc_nodes_on_circle :
  forall (c d z : R * R) (n : nat), (fst d * fst d + snd d * snd d = 1)%R -> dist2 (turns RA c d z n) c = dist2 z c.
Proof. exact turns_on_circle. Qed.
Print Assumptions C07_arc_nodes_on_circle.

(* -- (c) the point list ---------------------------------------------------------------------------- *)
(* what one condition appends to the point list, for every arithmetic reading and every k: the two
   end-point pairs, then the pairs of created nodes *)
Theorem C07_seg_pair_point_list :
  forall (F : Type) (A : Arith F) orig wls (e : pbce) (k : nat) nodes segs pts,
  let l0 := wl_get A wls (pb_seg0 e) in let l1 := wl_get A wls (pb_seg1 e) in
  snd (seg_pair A orig wls e k (nodes, segs, pts)) =
  pts ++ pair_pts (length nodes) k (wl_n0 l0) (wl_n1 l0) (wl_n1 l1) (wl_n0 l1) (bool_nat (pb_anti e)).
Proof. exact (fun F A => seg_pair_pts A). Qed.
Print Assumptions C07_seg_pair_point_list.

Theorem C07_arc_pair_point_list :
  forall (F : Type) (A : Arith F) orig nlines arcs was (e : pbce) (k : nat) nodes segs pts,
  let s0 := arc_start0 A (wa_nd (wa_get A was (pb_seg0 e))) (pa_get A arcs (pb_seg0 e)) in
  let s1 := arc_start1 A (wa_nd (wa_get A was (pb_seg1 e))) (pa_get A arcs (pb_seg1 e)) in
  snd (arc_pair A orig nlines arcs was e k (nodes, segs, pts)) =
  pts ++ pair_pts (length nodes) k (fst (fst s0)) (snd (fst s0)) (fst (fst s1)) (snd (fst s1)) (bool_nat (pb_anti e)).
Proof. exact (fun F A => arc_pair_pts A). Qed.
Print Assumptions C07_arc_pair_point_list.

(* After sortXY and pruning, the list of one condition (L points existed before, k parts, end points
   e0,e1 of the first partner paired with f0,f1) has no duplicate, k+1 entries (k >= 1), every entry
   carries the condition's flag, and every node of the first partner — both end points and each
   created node — is in exactly one entry, together with its partner. *)
Theorem C07_ptlst_complete_nodup :
  forall L k e0 e1 f0 f1 t : nat,
  (e0 < L)%nat -> (e1 < L)%nat -> (f0 < L)%nat -> (f1 < L)%nat -> e0 <> e1 -> f0 <> e1 -> f1 <> e0 ->
  let final := prune (map sort_xy (pair_pts L k e0 e1 f0 f1 t)) in
  NoDup (map key final) /\ length final = (2 + (k - 1))%nat /\
  (forall e, In e final -> flag e = t) /\
  forall u v, In (u, v) (partners L k e0 e1 f0 f1) ->
    In (sort_xy (u, v, t)) final /\ forall e, In e final -> mentions u e -> e = sort_xy (u, v, t).
Proof. exact ptlst_complete_nodup. Qed.
Print Assumptions C07_ptlst_complete_nodup.

(* several conditions sharing nodes: pruning keeps exactly one entry per distinct (x, y) *)
Theorem C07_pruning_keeps_one_entry_per_pair :
  forall raw : list (nat * nat * nat),
  let final := prune (map sort_xy raw) in
  NoDup (map key final) /\
  (forall e, In e final -> exists r, In r raw /\ e = sort_xy r) /\
  (forall r, In r raw -> exists e, In e final /\ key e = key (sort_xy r)).
Proof. exact ptlst_prune_represents. Qed.
Print Assumptions C07_pruning_keeps_one_entry_per_pair.

(* -- (d) invalid assignments are rejected ------------------------------------------------------- *)
Theorem C07_reject_more_than_two_segments :
  forall kind bdry orig (lines : list (pline (F:=R))) arcs wls was (b : nat),
  (b < length bdry)%nat -> pbc_selected kind (nth b bdry 0%Z) = true -> (3 <= occ b (map pl_bc lines))%nat ->
  exists err, validity RA kind bdry orig lines arcs wls was = inl err.
Proof. exact (reject_more_than_two_segments RA). Qed.
Print Assumptions C07_reject_more_than_two_segments.

Theorem C07_reject_more_than_two_arcs :
  forall kind bdry orig lines (arcs : list (parc (F:=R))) wls was (b : nat),
  (b < length bdry)%nat -> pbc_selected kind (nth b bdry 0%Z) = true -> (3 <= occ b (map pa_bc arcs))%nat ->
  exists err, validity RA kind bdry orig lines arcs wls was = inl err.
Proof. exact (reject_more_than_two_arcs RA). Qed.
Print Assumptions C07_reject_more_than_two_arcs.

Theorem C07_reject_mixed :
  forall kind bdry orig (lines : list (pline (F:=R))) (arcs : list (parc (F:=R))) wls was (b : nat),
  (b < length bdry)%nat -> pbc_selected kind (nth b bdry 0%Z) = true ->
  (1 <= occ b (map pl_bc lines))%nat -> (1 <= occ b (map pa_bc arcs))%nat ->
  exists err, validity RA kind bdry orig lines arcs wls was = inl err.
Proof. exact (reject_mixed RA). Qed.
Print Assumptions C07_reject_mixed.

(* exactly two lines, at positions i = |l1| and j = |l1|+1+|l2| of the line list, carry the condition
   and their lengths differ by more than 1e-6 *)
Theorem C07_reject_dissimilar :
  forall kind bdry orig (lines : list (pline (F:=R))) (arcs : list (parc (F:=R))) wls was (b : nat) l1 l2 l3,
  (b < length bdry)%nat -> pbc_selected kind (nth b bdry 0%Z) = true ->
  map pl_bc lines = l1 ++ Some b :: l2 ++ Some b :: l3 -> occ b l1 = 0%nat -> occ b l2 = 0%nat -> occ b l3 = 0%nat ->
  occ b (map pa_bc arcs) = 0%nat ->
  (adec RA 1 (-6) < Rabs (len_of RA orig wls (length l1) - len_of RA orig wls (length l1 + 1 + length l2)))%R ->
  exists err, validity RA kind bdry orig lines arcs wls was = inl err.
Proof.
  intros. eapply (reject_dissimilar RA); eauto. unfold tol6. ra_simpl. apply Rltb_true. assumption.
Qed.
Print Assumptions C07_reject_dissimilar.

(* -- (e) the listed pairs in the solver (restated from C09's tie theorem) ------------------------- *)
(* apply_pair = one round of the solvers' loop over the .pbc entries; in EVERY solution of the system
   so modified the potentials of the pair are equal (flag 0) / opposite (flag 1) *)
Theorem C07_periodic_pairs_force_equal :
  forall (L : lin (F:=R)) (x y : nat) (V : list R),
  mat_wf (lM L) -> ln L = length (lM L) -> length (lb L) = length (lM L) ->
  (x < y)%nat -> (y < length (lM L))%nat ->
  ((mget RA (lM L) x x + mget RA (lM L) y y) / 2 - mget RA (lM L) x y <> 0)%R ->
  solves (length (lM L)) (apply_pair L (x, y, 0%nat)) V -> vget RA V y = vget RA V x.
Proof. exact periodic_pair_forces_equal. Qed.
Print Assumptions C07_periodic_pairs_force_equal.

Theorem C07_antiperiodic_pairs_force_opposite :
  forall (L : lin (F:=R)) (x y : nat) (V : list R),
  mat_wf (lM L) -> ln L = length (lM L) -> length (lb L) = length (lM L) ->
  (x < y)%nat -> (y < length (lM L))%nat ->
  ((mget RA (lM L) x x + mget RA (lM L) y y) / 2 + mget RA (lM L) x y <> 0)%R ->
  solves (length (lM L)) (apply_pair L (x, y, 1%nat)) V -> (vget RA V y = - vget RA V x)%R.
Proof. exact antiperiodic_pair_forces_opposite. Qed.
Print Assumptions C07_antiperiodic_pairs_force_opposite.

(* -- which conditions the pairing code looks at ------------------------------------------------------ *)
(* [pbc_selected] (the test in DoPeriodicBCTriangulation) and [is_periodic]/[is_antiperiodic] (what the
   three readers call (anti)periodic) are regenerated from the sources on every run; whether the test
   recognises every (anti)periodic condition is DECIDED by [selection_matches_readers], and both
   outcomes have their theorem.  The check reports which one is in force (tools/props/c07.py). *)
Theorem C07_selection_complete : selection_matches_readers = true ->
  forall k fmt, (0 <= fmt <= 7)%Z -> reader_pbc k fmt = true -> pbc_selected k fmt = true.
Proof. exact selection_complete. Qed.
Print Assumptions C07_selection_complete.

(* the faithful model violates the property when the decision is false: "every mesh node of one partner
   is listed against its image" fails for a condition kind that the reader calls (anti)periodic but the
   test does not select — whatever lines or arcs carry it, the pair list comes out empty and invalid
   assignments of it are not rejected.  (At the time of writing: PERIODIC conditions of electrostatics
   files, BdryFormat 3, while the test looks for 4 and 5.) *)
Theorem C07_unselected_periodic_pairs_refuted : selection_matches_readers = false ->
  exists k fmt, reader_pbc k fmt = true /\ pbc_selected k fmt = false /\
    forall dosmart orig lines arcs edges eles,
      match pbc_mesh RA k dosmart [fmt] orig lines arcs edges eles with
      | POk _ _ pts => pts = []
      | PErr e => e = EBadInput
      end.
Proof.
  intros H. destruct (selection_incomplete_no_pairs H) as (k & fmt & H1 & H2 & H3).
  exists k, fmt. split; [exact H1|]. split; [exact H2|]. intros. apply (H3 R RA).
Qed.
Print Assumptions C07_unselected_periodic_pairs_refuted.

(* -- non-vacuity: the hypotheses are satisfiable ---------------------------------------------------- *)
(* a translation by (2,0) takes the end points of the left side of a 2 x 1 cell to those of the right *)
Example C07_affine_hypotheses_satisfiable :
  let M := mkAff 1 0 0 1 2 0 in
  app M (0, 1)%R = (2, 1)%R /\ app M (0, 0)%R = (2, 0)%R /\ is_rigid M /\
  (0, 1)%R <> (0, 0)%R /\ dist2 (0, 1)%R (0, 0)%R = dist2 (2, 1)%R (2, 0)%R.
Proof.
  unfold app, is_rigid, dist2. cbn [m11 m12 m21 m22 tx ty fst snd].
  repeat split; try (f_equal; lra); try lra. intros H. inversion H. lra.
Qed.

(* a quarter-turn arc pair: centre (0,0) and (5,0), begin points at radius 1, factor (0,1) *)
Example C07_arc_hypotheses_satisfiable :
  (1, 0)%R <> (0, 0)%R /\ dist2 (1, 0)%R (0, 0)%R = dist2 (6, 0)%R (5, 0)%R /\
  (fst (0, 1) * fst (0, 1) + snd (0, 1) * snd (0, 1) = 1)%R.
Proof. unfold dist2. cbn [fst snd]. repeat split; try lra. intros H. inversion H. lra. Qed.

(* the left/right sides of a rectangle with corner nodes 0..3: first partner 3 -> 0, second 1 -> 2
   after the swap (paired 3-2, 0-1), four points before the subdivision *)
Example C07_point_list_hypotheses_satisfiable :
  (3 < 4 /\ 0 < 4 /\ 2 < 4 /\ 1 < 4 /\ 3 <> 0 /\ 2 <> 0 /\ 1 <> 3)%nat /\
  prune (map sort_xy (pair_pts 4 3 3 0 2 1 1)) = [(2, 3, 1); (0, 1, 1); (4, 5, 1); (6, 7, 1)]%nat.
Proof. split; [lia|reflexivity]. Qed.

(* three lines carrying condition 0 (BdryFormat 4) *)
Example C07_reject_hypotheses_satisfiable :
  let l := mkPLine 0 1 (-1)%R (Some 0%nat) 1 in
  (0 < length [4%Z])%nat /\ pbc_selected Magnetics (nth 0 [4%Z] 0%Z) = true /\ (3 <= occ 0 (map pl_bc [l; l; l]))%nat.
Proof. cbn. repeat split; lia. Qed.

(* a line of length 0 and a line of length 2 are dissimilar *)
Example C07_dissimilar_hypothesis_satisfiable :
  let orig := [(0, 0); (2, 0)]%R in
  let wls := [mkWLine 0 0 (-1)%R; mkWLine 0 1 (-1)%R] in
  (adec RA 1 (-6) < Rabs (len_of RA orig wls 0 - len_of RA orig wls 1))%R.
Proof.
  cbn zeta. unfold len_of, wl_get, seg_length, pget. cbn [nth wl_n0 wl_n1].
  assert (E0 : cabsf RA (csub RA (0, 0)%R (0, 0)%R) = 0%R).
  { unfold cabsf, csub. ra_simpl. cbn [fst snd].
    assert (H : Reqb (0 - 0) 0 = true) by (apply Reqb_true; lra). rewrite H. reflexivity. }
  assert (HA : Rabs (0 - 2) = 2%R) by (unfold Rabs; destruct (Rcase_abs (0 - 2)); lra).
  assert (HB : Rabs (0 - 0) = 0%R) by (unfold Rabs; destruct (Rcase_abs (0 - 0)); lra).
  assert (E1 : cabsf RA (csub RA (0, 0)%R (2, 0)%R) = 2%R).
  { unfold cabsf, csub. ra_simpl. cbn [fst snd].
    assert (H : Reqb (0 - 2) 0 = false) by (apply Reqb_false; lra). rewrite H. cbn [andb].
    assert (H2 : Rltb (Rabs (0 - 0)) (Rabs (0 - 2)) = true) by (apply Rltb_true; rewrite HA, HB; lra).
    rewrite H2. replace (1 + (0 - 0) / (0 - 2) * ((0 - 0) / (0 - 2)))%R with 1%R by (field; lra).
    rewrite sqrt_1, HA. lra. }
  rewrite E0, E1. unfold adec. ra_simpl. cbn [Z.ltb Z.opp].
  rewrite HA. change ((-6 <? 0)%Z) with true. cbv iota.
  replace (10 ^ 6)%Z with 1000000%Z by reflexivity. lra.
Qed.

(* a 2 x 2 system to which the tie theorems apply *)
Example C07_tie_hypotheses_satisfiable : forall (n : nat) (h : list (R * nat * nat)),
  in_range n h -> mat_wf (puts (mcreate RA n) h) /\ length (puts (mcreate RA n) h) = n.
Proof.
  intros n h Hr. destruct (mat_wf_puts h (mcreate RA n) (mat_wf_mcreate n)) as [H1 H2].
  - rewrite mcreate_length. exact Hr.
  - split; [exact H1|]. rewrite H2. apply mcreate_length.
Qed.
