From XF Require Import Arith Sparse AsmE.
Theorem C03_placeholder : True. Proof. exact I. Qed.
Print Assumptions C03_placeholder.
