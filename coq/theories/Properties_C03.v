(* Properties_C03.v — theorem statements for C03 (electrostatic solution satisfies the discrete
   field equations and Gauss's law).  Model: AsmE.v (ESolver::AnalyzeProblem).  Proofs:
   AsmOpsProofs.v, AsmEProofs.v, AsmEFinish.v, AsmEPoints.v.  Real-number reading. *)
From Coq Require Import ZArith List Bool Arith Lia Reals Lra.
From XF Require Import Arith Sparse SparseProofs AsmOps AsmOpsProofs AsmE AsmEProofs AsmEFinish AsmEPoints.
Import ListNotations.
Local Open Scope R_scope.

(* 1. Whatever sequence of "L.Put(L.Get(p,q)+v,p,q)" / "L.b[i]+=v" statements an assembler
      executes, every row of the residual M V - b of the assembled system is the initial row
      plus the sum of the statements' contributions (any order, any number, any pattern). *)
Theorem C03_assembled_system_is_sum_of_contributions :
  forall (M : matrixT R) (b : vecT R) (mops : list (nat * nat * R)) (bops : list (nat * R)) (V : vecT R),
  mat_wf M -> mops_in_range (length M) mops -> bops_in_range (length b) bops ->
  let M' := apply_mops RA M mops in
  let b' := apply_bops RA b bops in
  mat_wf M' /\ length M' = length M /\ length b' = length b /\
  forall i, (i < length M)%nat ->
    Ax M' V i - vget RA b' i =
    (Ax M V i - vget RA b i) + lsum (fun o => mop_row V o i) mops - lsum (fun o => bop_entry o i) bops.
Proof. exact assembled_rows. Qed.
Print Assumptions C03_assembled_system_is_sum_of_contributions.

(* 2. The element loop of ESolver::AnalyzeProblem (all meshes, all element orders): row i of the
      assembled residual is minus the sum, over the elements and their local rows that are
      assembled into row i, of the element's local residual  sum_b Me[a][b] U[n_b] - be[a]
      (element matrices taken after the prescribed-value processing). *)
Theorem C03_element_loop_rows :
  forall (P : eprob (F:=R)) (nn : nat) (extRo extRi extZo : R) (V : vecT R) (Q : list Z) (U : vecT R)
         (els : list eelem) (s : estate (F:=R)),
  mat_wf (sM s) -> length (sb s) = length (sM s) -> Forall (elem_ok P nn (length (sM s))) els ->
  let s' := fold_left (elem_step RA P nn extRo extRi extZo V Q) els s in
  mat_wf (sM s') /\ length (sM s') = length (sM s) /\ length (sb s') = length (sb s) /\
  forall i, (i < length (sM s))%nat ->
    Ax (sM s') U i - vget RA (sb s') i =
    (Ax (sM s) U i - vget RA (sb s) i) - loop_resid P extRo extRi extZo V Q els (sDepth s) (sKludge s) U i.
Proof. exact loop_rows. Qed.
Print Assumptions C03_element_loop_rows.

(* 3a. Prescribed voltages: after the prescribed-value processing the local row of a node with
       a prescribed value is  Me[a][a] * (U_a - prescribed_a)  for EVERY vector U, so the
       assembled row forces the prescribed value. *)
Theorem C03_prescribed_rows_force_values :
  forall (V : vecT R) (Q : list Z) (n0 n1 n2 : nat) (m00 m01 m02 m11 m12 m22 b0 b1 b2 : R) (U : vecT R),
  let n := (n0, n1, n2) in
  let Me := [m00; m01; m02; m01; m11; m12; m02; m12; m22] in
  let be := [b0; b1; b2] in
  let r := presc_mb V Q n Me be in
  (flagged Q n0 = true -> local_resid (fst r) (snd r) n U 0 = m00 * (vget RA U n0 - vget RA V n0)) /\
  (flagged Q n1 = true -> local_resid (fst r) (snd r) n U 1 = m11 * (vget RA U n1 - vget RA V n1)) /\
  (flagged Q n2 = true -> local_resid (fst r) (snd r) n U 2 = m22 * (vget RA U n2 - vget RA V n2)).
Proof. exact presc_resid_flagged. Qed.
Print Assumptions C03_prescribed_rows_force_values.

(* 3b. Free nodes: for every U that takes the prescribed values, the local rows of free nodes keep
       exactly the residual of the un-eliminated element equations (stiffness, mixed-boundary
       and source terms), and rows of prescribed nodes vanish. *)
Theorem C03_free_rows_keep_galerkin_residual :
  forall (V : vecT R) (Q : list Z) (n0 n1 n2 : nat) (m00 m01 m02 m11 m12 m22 b0 b1 b2 : R) (U : vecT R),
  let n := (n0, n1, n2) in
  let Me := [m00; m01; m02; m01; m11; m12; m02; m12; m22] in
  let be := [b0; b1; b2] in
  (flagged Q n0 = true -> vget RA U n0 = vget RA V n0) ->
  (flagged Q n1 = true -> vget RA U n1 = vget RA V n1) ->
  (flagged Q n2 = true -> vget RA U n2 = vget RA V n2) ->
  let r := presc_mb V Q n Me be in
  local_resid (fst r) (snd r) n U 0 =
    (if flagged Q n0 then m00 * (vget RA U n0 - vget RA V n0) else local_resid Me be n U 0) /\
  local_resid (fst r) (snd r) n U 1 =
    (if flagged Q n1 then m11 * (vget RA U n1 - vget RA V n1) else local_resid Me be n U 1) /\
  local_resid (fst r) (snd r) n U 2 =
    (if flagged Q n2 then m22 * (vget RA U n2 - vget RA V n2) else local_resid Me be n U 2).
Proof. exact presc_resid. Qed.
Print Assumptions C03_free_rows_keep_galerkin_residual.

(* 3c. the element matrices handed to that step always have the symmetric 3x3 shape assumed *)
Theorem C03_element_matrices_symmetric :
  forall (P : eprob (F:=R)) (extRo extRi extZo D0 k0 : R) (el : eelem),
  let r := elem_matrices RA P extRo extRi extZo D0 k0 el in
  sym9 (snd (fst r)) /\ len3 (snd r).
Proof. exact elem_matrices_shape. Qed.
Print Assumptions C03_element_matrices_symmetric.

(* 4. The element matrix is (minus) the linear-triangle Galerkin stiffness of div(eps grad V),
      planar and axisymmetric, any anisotropic permittivity; (p_j,q_j)/(2a) is grad phi_j. *)
Theorem C03_stiffness_is_galerkin :
  forall (P : eprob (F:=R)) (extRo extRi extZo D0 k0 : R) (el : eelem) (j k : nat),
  ee el = (None, None, None) -> (j < 3)%nat -> (k < 3)%nat ->
  ga (el_geom P el) <> 0 -> snd (elem_dk P extRo extRi extZo D0 k0 el) <> 0 ->
  let r := elem_matrices RA P extRo extRi extZo D0 k0 el in
  let blk := nth (eblk el) (blocks P) (dblock RA) in
  m3get RA (snd (fst r)) j k =
    - galerkin_K (fst (elem_dk P extRo extRi extZo D0 k0 el)) (bex blk) (bey blk) (el_geom P el) j k
      / snd (elem_dk P extRo extRi extZo D0 k0 el).
Proof. exact stiffness_is_galerkin. Qed.
Print Assumptions C03_stiffness_is_galerkin.

Theorem C03_shape_functions_are_nodal :
  forall x0 y0 x1 y1 x2 y2 : R,
  ga (geom RA x0 y0 x1 y1 x2 y2) <> 0 ->
  shape x0 y0 x1 y1 x2 y2 0 x0 y0 = 1 /\ shape x0 y0 x1 y1 x2 y2 0 x1 y1 = 0 /\ shape x0 y0 x1 y1 x2 y2 0 x2 y2 = 0 /\
  shape x0 y0 x1 y1 x2 y2 1 x0 y0 = 0 /\ shape x0 y0 x1 y1 x2 y2 1 x1 y1 = 1 /\ shape x0 y0 x1 y1 x2 y2 1 x2 y2 = 0 /\
  shape x0 y0 x1 y1 x2 y2 2 x0 y0 = 0 /\ shape x0 y0 x1 y1 x2 y2 2 x1 y1 = 0 /\ shape x0 y0 x1 y1 x2 y2 2 x2 y2 = 1.
Proof. exact shape_kronecker. Qed.
Print Assumptions C03_shape_functions_are_nodal.

(* 5. Gauss's law / charge balance: the columns of every element stiffness sum to zero, so the
      nodal reactions of any potential field sum to zero over the mesh. *)
Theorem C03_charge_balance_columns :
  forall (P : eprob (F:=R)) (extRo extRi extZo D0 k0 : R) (el : eelem) (k : nat),
  ee el = (None, None, None) -> (k < 3)%nat ->
  let r := elem_matrices RA P extRo extRi extZo D0 k0 el in
  m3get RA (snd (fst r)) 0 k + m3get RA (snd (fst r)) 1 k + m3get RA (snd (fst r)) 2 k = 0.
Proof. exact stiffness_column_sums_vanish. Qed.
Print Assumptions C03_charge_balance_columns.

(* 6. Conductors.  A conductor with prescribed charge owns the unknown k = nn + i.  The finishing
      step of AnalyzeProblem rewrites row k so that, for EVERY vector V, the row holds exactly when
          sum_{j<>k} M_kj (V_j - V_k) - condK_i V_k = 1e9 c q_i + condB_i ,
      the statement that the flux leaving the conductor (couplings to free unknowns in row k,
      couplings to fixed nodes eliminated into condK/condB) equals its prescribed charge; every
      other row and right-hand-side entry is unchanged. *)
Theorem C03_floating_conductor_row_is_charge_balance :
  forall (P : eprob (F:=R)) (nn : nat) (cK cB : vecT R) (L : lin (F:=R)) (i : nat) (cc : ecirc (F:=R)) (V : vecT R),
  wfL L -> (nn + i < ln L)%nat -> ctype cc = 0%nat ->
  let k := (nn + i)%nat in
  let L' := cond_row_step RA P nn cK cB L (i, cc) in
  cond_rowsum RA L k (vget RA cK i) <> 0 ->
  (Ax (lM L') V k = vget RA (lb L') k
   <-> floating_balance L (vget RA cK i) (vget RA cB i) (adec RA 1 9 * cconst RA P * cq cc) k V)
  /\ (forall r, r <> k -> (r < ln L)%nat ->
        Ax (lM L') V r = Ax (lM L) V r /\ vget RA (lb L') r = vget RA (lb L) r).
Proof. exact floating_conductor_row. Qed.
Print Assumptions C03_floating_conductor_row_is_charge_balance.

(* 6b. A conductor with prescribed voltage gets the row  K V_k = K V_c  and nothing else moves. *)
Theorem C03_fixed_conductor_row :
  forall (P : eprob (F:=R)) (nn : nat) (cK cB : vecT R) (L : lin (F:=R)) (i : nat) (cc : ecirc (F:=R)),
  wfL L -> (nn + i < ln L)%nat -> ctype cc = 1%nat ->
  let k := (nn + i)%nat in
  let L' := cond_row_step RA P nn cK cB L (i, cc) in
  let K := mget RA (lM L) 0 0 in
  mget RA (lM L') k k = K /\ vget RA (lb L') k = K * cV cc /\ (forall p q, (p <> k \/ q <> k) -> mget RA (lM L') p q = mget RA (lM L) p q) /\
  (forall r, r <> k -> vget RA (lb L') r = vget RA (lb L) r).
Proof. exact fixed_conductor_row. Qed.
Print Assumptions C03_fixed_conductor_row.

(* 6c. the hypotheses of 6/6b hold at every step of the conductor loop *)
Theorem C03_conductor_loop_keeps_system_well_formed :
  forall (P : eprob (F:=R)) (nn : nat) (cK cB : vecT R) (L : lin (F:=R)),
  wfL L -> (nn + length (circs P) <= ln L)%nat -> wfL (conductor_rows RA P nn cK cB L).
Proof. exact conductor_rows_wf. Qed.
Print Assumptions C03_conductor_loop_keeps_system_well_formed.

(* non-vacuity: the freshly created system meets the hypotheses of the loop theorem *)
Example C03_initial_state_ok : forall n bw prec lam,
  mat_wf (lM (lcreate RA n bw prec lam)) /\ length (lb (lcreate RA n bw prec lam)) = length (lM (lcreate RA n bw prec lam)).
Proof.
  intros. cbn [lM lb lcreate]. split; [apply mat_wf_mcreate|].
  rewrite mcreate_length, vzero_length. reflexivity.
Qed.

(* non-vacuity of 6: a 3-unknown system whose last unknown is a floating conductor coupled to
   unknown 1 and (through condK) to a fixed node *)
Example C03_floating_row_premises_hold :
  let L0 := lcreate RA 3 3 1 1 in
  let L := lput (lput L0 (-2) 2 1) 2 2 2 in
  wfL L /\ cond_rowsum RA L 2 1 <> 0.
Proof.
  cbn zeta. split.
  - unfold wfL. cbn [lM lb ln lput lcreate]. rewrite !mput_length, mcreate_length, vzero_length.
    repeat split. repeat apply mput_ok. apply mcreate_ok.
  - rewrite cond_rowsum_spec. cbn [ln lput lcreate rsum Nat.eqb lM].
    assert (H0 : mget RA (mput (mput (mcreate RA 3) (-2) 2 1) 2 2 2) 2 0 = 0).
    { rewrite mget_mput_other; [|repeat apply mput_ok; apply mcreate_ok| rewrite ?mput_length, mcreate_length; lia ..| lia].
      rewrite mget_mput_other; [|apply mcreate_ok| rewrite ?mcreate_length; lia ..| lia].
      reflexivity. }
    assert (H1 : mget RA (mput (mput (mcreate RA 3) (-2) 2 1) 2 2 2) 2 1 = -2).
    { rewrite mget_mput_other; [|repeat apply mput_ok; apply mcreate_ok| rewrite ?mput_length, mcreate_length; lia ..| lia].
      apply mget_mput_same; [apply mcreate_ok| rewrite mcreate_length; lia ..]. }
    rewrite H0, H1. lra.
Qed.

(* 8. Point charges (the loop over all nodes after the element loop): row i of the right-hand side
      receives exactly the load of node i's point property,
          1e6 * Depth_i * c * qp     with  Depth_i = 2 pi r_i (axisymmetric) | Depth (planar),
      when the node is still marked free (flag -2) — for every node list, every flag list — and no
      other row changes; rows of the conductor unknowns are untouched; a node that is prescribed
      or tied to a conductor receives no point load. *)
Theorem C03_point_charge_rows :
  forall (P : eprob (F:=R)) (Depth : R) (b : list R) (Q : list Z),
  (length (nodes P) <= length b)%nat ->
  let '(D', b', Q') := point_charges RA P Depth b Q in
  length b' = length b /\
  forall i, vget RA b' i = vget RA b i + point_load P Depth Q i.
Proof. exact point_charges_rows. Qed.
Print Assumptions C03_point_charge_rows.

Theorem C03_point_charge_leaves_conductor_rows :
  forall (P : eprob (F:=R)) (Depth : R) (b : list R) (Q : list Z) (i : nat),
  (length (nodes P) <= length b)%nat -> (length (nodes P) <= i)%nat ->
  let '(D', b', Q') := point_charges RA P Depth b Q in vget RA b' i = vget RA b i.
Proof. exact point_charges_other_rows. Qed.
Print Assumptions C03_point_charge_leaves_conductor_rows.

Theorem C03_point_charge_only_on_free_nodes :
  forall (P : eprob (F:=R)) (Depth : R) (Q : list Z) (i : nat),
  nth i Q 0%Z <> (-2)%Z -> point_load P Depth Q i = 0.
Proof. exact point_load_only_on_free_nodes. Qed.
Print Assumptions C03_point_charge_only_on_free_nodes.

(* non-vacuity of 8: a planar two-node problem whose second node carries a point charge of 3 *)
Example C03_point_charge_example :
  let P := mkEProb false 1 1%nat 0 0 0 1
             [mkENode 0 0 None None; mkENode 1 0 (Some 0%nat) None] [] [] []
             [mkEPoint 0 3] [] [] [] in
  point_load P 2 [(-2)%Z; (-2)%Z] 1 = 1000000 * 2 * cconst RA P * 3.
Proof. cbn zeta. unfold point_load, depth_at. cbn. lra. Qed.
