(* Properties_C05_prev.v — planar magnetostatic problems that build on a PREVIOUS SOLUTION (incremental permeability, PrevType 1, and
   frozen permeability, PrevType 2): theorems about the model AsmMPrev.v of FSolver::Static2D's bIncremental branch,
   FSolver::getPrev2DB and CMMaterialProp::IncrementalPermeability (C05: what the dependent run assembles; C11: superposition for
   incremental problems).  Proofs in AsmMPrevProofs.v.  Real-number reading.  Units as in the code: node coordinates in cm,
   V = A/c with c = 4 pi 1e-5, Aprev in Wb/m as printed in the .ans file, flux densities in T, permeabilities relative.
   Names: el_B12 = (B1p, B2p) of getPrev2DB, el_B = |B_prev|, el_mm = (muinc, murel) of IncrementalPermeability at el_B,
   el_t = (mu1, mu2, v12) of the element, prev_Me / prev_be = the element matrices Me, be that are scattered.  Statements only. *)
From Coq Require Import ZArith List Bool Arith Lia Reals Lra.
From XF Require Import Arith Sparse SparseProofs AsmOps AsmOpsProofs AsmE AsmEProofs AsmM AsmMProofs BH.
Set Warnings "-ambiguous-paths".
From XF Require Import BHProofs AsmMNL AsmMNLProofs AsmMPrev AsmMPrevProofs.
Import ListNotations.
Local Open Scope R_scope.

(* ====================================================================================================== *)
(* C05 — reduction: when does the dependent run assemble the ordinary linear system                        *)
(* ====================================================================================================== *)

(* (a) element: a block without B-H table (a linear material), or PrevType 0: exactly the element matrices of the linear path
   (AsmM.melem_matrices), v12 = 0 *)
Theorem C05_prev_linear_material_is_ordinary_element :
  forall (P : mprob (F:=R)) (res : list (nat * R * R)) (mats : list (mat (F:=R))) (lct : vecT R) (inc : nat) (Aprev : vecT R)
         (el : melem (F:=R)),
  bhpoints (el_m mats el) = 0%nat \/ inc = 0%nat ->
  prev_elem_matrices RA lct P mats res inc Aprev el
    = (fst (fst (melem_matrices RA P res el)), snd (fst (melem_matrices RA P res el)),
       (fst (el_mu RA (el_blk P el)), snd (el_mu RA (el_blk P el)), 0)).
Proof. exact prev_elem_linear_material. Qed.
Print Assumptions C05_prev_linear_material_is_ordinary_element.

(* (b) element, previous solution with zero field on the element (both PrevTypes): isotropic, the linear element with the
   incremental permeability of the curve at B = 0 *)
Theorem C05_prev_zero_field_is_linear_element :
  forall (P : mprob (F:=R)) (res : list (nat * R * R)) (mats : list (mat (F:=R))) (lct : vecT R) (inc : nat) (Aprev : vecT R)
         (el : melem (F:=R)),
  bhpoints (el_m mats el) <> 0%nat -> inc <> 0%nat ->
  (forall j, (j < 3)%nat -> vget RA Aprev (tri_get (mp el) j) = 0) ->
  let m0 := fst (incr_perm RA (el_m mats el) (el_blk P el) 0) in
  el_t P mats lct inc Aprev el = (m0, m0, 0) /\
  prev_Me P res mats lct inc Aprev el = fst (secant_matrices P res el (m0, m0)).
Proof. exact prev_zero_field_element. Qed.
Print Assumptions C05_prev_zero_field_is_linear_element.

(* (c) element, a curve whose differential and secant permeabilities agree at the previous flux density (a straight-line table:
   BHProofs.line_getH / line_getdHdB): the incremental run assembles the linear element with that permeability *)
Theorem C05_prev_straight_line_is_linear_element :
  forall (P : mprob (F:=R)) (res : list (nat * R * R)) (mats : list (mat (F:=R))) (lct : vecT R) (inc : nat) (Aprev : vecT R)
         (el : melem (F:=R)) (mu : R),
  bhpoints (el_m mats el) <> 0%nat -> inc = 1%nat -> el_B P lct Aprev el <> 0 ->
  el_mm P mats lct Aprev el = (mu, mu) -> mu <> 0 ->
  el_t P mats lct inc Aprev el = (mu, mu, 0) /\
  prev_Me P res mats lct inc Aprev el = fst (secant_matrices P res el (mu, mu)).
Proof. exact prev_equal_perms_element. Qed.
Print Assumptions C05_prev_straight_line_is_linear_element.

(* (d) whole pass, through scatter, point currents, prescribed values and periodic pairs: if every element's tensor is its
   block's linear permeability (by (a), (b) with a matching mu_x, or (c)) the dependent run hands the linear solver exactly the
   system of the linear path AsmM.asmM (C05's theorems about it apply) *)
Theorem C05_prev_reduction_to_linear_system :
  forall (P : mprob (F:=R)) (mats : list (mat (F:=R))) (lct : vecT R) (inc : nat) (Aprev : vecT R) (bw : nat) (prec : R),
  prev_exits RA P mats inc = false ->
  Forall (el_prev_lin P mats lct inc Aprev) (melems P) ->
  exists ts, asmMprev RA lct P mats inc Aprev bw prec = Some (fst (asmM RA P bw prec), ts, snd (asmM RA P bw prec)).
Proof. exact asmMprev_linear. Qed.
Print Assumptions C05_prev_reduction_to_linear_system.

(* ====================================================================================================== *)
(* C05 — the incremental element matrix                                                                    *)
(* ====================================================================================================== *)

(* (e) the element tensor of PrevType 1 is the reluctivity tensor  N = nu_par e e^T + nu_perp (I - e e^T)  with e the direction
   of the previous flux density, nu_par = 1/muinc, nu_perp = 1/murel:  1/mu1 = N_xx, 1/mu2 = N_yy, v12 = -N_xy *)
Theorem C05_prev_incremental_tensor :
  forall (B1p B2p B muinc murel : R),
  B <> 0 -> muinc <> 0 -> murel <> 0 ->
  B1p * B1p * murel + B2p * B2p * muinc <> 0 -> B1p * B1p * muinc + B2p * B2p * murel <> 0 ->
  let t := prev_tensor RA 1 B1p B2p B muinc murel in
  let ex := B1p / B in let ey := B2p / B in
  1 / fst (fst t) = / muinc * ex * ex + / murel * ey * ey /\
  1 / snd (fst t) = / muinc * ey * ey + / murel * ex * ex /\
  - snd t = (/ muinc - / murel) * ex * ey /\ fst (fst t) <> 0 /\ snd (fst t) <> 0.
Proof. exact prev_tensor_incremental. Qed.
Print Assumptions C05_prev_incremental_tensor.

(* (f) HEADLINE: the incremental element matrix is the quadratic form of the differential reluctivity tensor dH/dB at the previous
   flux density:  Me_jk = -(1/4a) (nu_par par_j par_k + nu_perp perp_j perp_k), where (par_j, perp_j) = R (q_j, -p_j) are the
   components of 2a curl(phi_j) along and across B_prev (R the rotation onto the direction of B_prev), i.e.
   Me = -a G^T (R^T diag(1/muinc, 1/murel) R) G with G the discrete curl *)
Theorem C05_prev_incremental_matrix_is_rotated_tensor :
  forall (P : mprob (F:=R)) (res : list (nat * R * R)) (mats : list (mat (F:=R))) (lct : vecT R) (inc : nat) (Aprev : vecT R)
         (el : melem (F:=R)) (j k : nat),
  no_mixed_edge P el -> (j < 3)%nat -> (k < 3)%nat -> bhpoints (el_m mats el) <> 0%nat -> inc = 1%nat ->
  el_B P lct Aprev el <> 0 -> fst (el_mm P mats lct Aprev el) <> 0 -> snd (el_mm P mats lct Aprev el) <> 0 ->
  fst (el_B12 P lct Aprev el) * fst (el_B12 P lct Aprev el) * snd (el_mm P mats lct Aprev el)
    + snd (el_B12 P lct Aprev el) * snd (el_B12 P lct Aprev el) * fst (el_mm P mats lct Aprev el) <> 0 ->
  fst (el_B12 P lct Aprev el) * fst (el_B12 P lct Aprev el) * fst (el_mm P mats lct Aprev el)
    + snd (el_B12 P lct Aprev el) * snd (el_B12 P lct Aprev el) * snd (el_mm P mats lct Aprev el) <> 0 ->
  m3get RA (prev_Me P res mats lct inc Aprev el) j k
    = -1 / (4 * ga (mel_geom RA P el))
      * (/ fst (el_mm P mats lct Aprev el) * par P lct Aprev el j * par P lct Aprev el k
         + / snd (el_mm P mats lct Aprev el) * perp P lct Aprev el j * perp P lct Aprev el k).
Proof. exact prev_incremental_matrix_is_rotated_tensor. Qed.
Print Assumptions C05_prev_incremental_matrix_is_rotated_tensor.

(* (g) symmetric (any tensor, any PrevType) *)
Theorem C05_prev_matrix_symmetric :
  forall (P : mprob (F:=R)) (res : list (nat * R * R)) (mats : list (mat (F:=R))) (lct : vecT R) (inc : nat) (Aprev : vecT R)
         (el : melem (F:=R)) (j k : nat),
  no_mixed_edge P el -> (j < 3)%nat -> (k < 3)%nat ->
  m3get RA (prev_Me P res mats lct inc Aprev el) j k = m3get RA (prev_Me P res mats lct inc Aprev el) k j.
Proof. exact prev_Me_symmetric. Qed.
Print Assumptions C05_prev_matrix_symmetric.

(* (h) positive semi-definite (-Me is what Static2D adds to the system) for positive differential and secant permeabilities,
   i.e. for monotone curves (dH/dB > 0, H/B > 0; C19: GetSlopes leaves monotone tables) *)
Theorem C05_prev_incremental_matrix_positive_semidefinite :
  forall (P : mprob (F:=R)) (res : list (nat * R * R)) (mats : list (mat (F:=R))) (lct : vecT R) (inc : nat) (Aprev : vecT R)
         (el : melem (F:=R)) (u0 u1 u2 : R),
  no_mixed_edge P el -> bhpoints (el_m mats el) <> 0%nat -> inc = 1%nat ->
  el_B P lct Aprev el <> 0 -> 0 < fst (el_mm P mats lct Aprev el) -> 0 < snd (el_mm P mats lct Aprev el) ->
  0 < ga (mel_geom RA P el) ->
  0 <= - q3 (prev_Me P res mats lct inc Aprev el) u0 u1 u2.
Proof. exact prev_incremental_matrix_psd. Qed.
Print Assumptions C05_prev_incremental_matrix_positive_semidefinite.

(* (i) what IncrementalPermeability returns (unlaminated, B > 0): muinc = 1/(muo dH/dB), murel = 1/(muo H/B); GetdHdB is the
   derivative of GetH (C19) *)
Theorem C05_prev_permeabilities_are_dHdB_and_H_over_B :
  forall (m : mat (F:=R)) (blk : mblock (F:=R)) (B : R), 0 < B -> bhpoints m <> 0%nat -> bLamd blk = 0 ->
  fst (incr_perm RA m blk B) = 1 / (mMuo m * fst (getdHdB RA m B)) /\
  snd (incr_perm RA m blk B) = 1 / (mMuo m * (fst (getH RA m B) / B)).
Proof. exact incr_perm_meaning. Qed.
Print Assumptions C05_prev_permeabilities_are_dHdB_and_H_over_B.

Theorem C05_prev_permeabilities_laminated :
  forall (m : mat (F:=R)) (blk : mblock (F:=R)) (B : R), bLamd blk <> 0 -> bLamFill blk <> 0 ->
  let muinc := 1 / (mMuo m * fst (getdHdB RA m B)) in
  let murel := 1 / (mMuo m * fst (get_v RA m B)) in
  incr_perm RA m blk B = (muinc * bLamFill blk + (1 - bLamFill blk), murel * bLamFill blk + (1 - bLamFill blk)).
Proof. exact incr_perm_laminated. Qed.
Print Assumptions C05_prev_permeabilities_laminated.

(* ====================================================================================================== *)
(* C05 — frozen permeability                                                                               *)
(* ====================================================================================================== *)

(* (j) the frozen element matrix is the linear (secant) matrix with the isotropic permeability murel ... *)
Theorem C05_prev_frozen_matrix_is_secant_matrix :
  forall (P : mprob (F:=R)) (res : list (nat * R * R)) (mats : list (mat (F:=R))) (lct : vecT R) (inc : nat) (Aprev : vecT R)
         (el : melem (F:=R)),
  bhpoints (el_m mats el) <> 0%nat -> inc = 2%nat -> el_B P lct Aprev el <> 0 ->
  prev_Me P res mats lct inc Aprev el
    = fst (secant_matrices P res el (snd (el_mm P mats lct Aprev el), snd (el_mm P mats lct Aprev el))) /\
  el_t P mats lct inc Aprev el = (snd (el_mm P mats lct Aprev el), snd (el_mm P mats lct Aprev el), 0).
Proof. exact prev_frozen_matrix_is_secant. Qed.
Print Assumptions C05_prev_frozen_matrix_is_secant_matrix.

(* (k) ... and murel at flux density B is the permeability the Newton update of AsmMNL.nl_update stores for B (nl_mu_of): with
   (l) the frozen matrix is the secant matrix of the previous run's last pass (C05_nl_secant_matrix_is_curlcurl) *)
Theorem C05_prev_frozen_permeability_is_newton_secant_permeability :
  forall (m : mat (F:=R)) (blk : mblock (F:=R)) (B : R), 0 < B -> bhpoints m <> 0%nat -> bLamd blk = 0 ->
  snd (incr_perm RA m blk B) = fst (nl_mu_of RA m B).
Proof. exact frozen_perm_is_newton_secant_perm. Qed.
Print Assumptions C05_prev_frozen_permeability_is_newton_secant_permeability.

(* (l) the previous flux density of getPrev2DB against the flux density nl_Bmag the Newton update of the previous run computes
   from its iterate V (Aprev = the potentials WriteStatic2D printed, written_A V): equal up to the factor 0.01/LengthConv[unit] *)
Theorem C05_prev_flux_density_is_scaled_newton_flux_density :
  forall (P : mprob (F:=R)) (lct : vecT R) (V : vecT R) (el : melem (F:=R)),
  let g := mel_geom RA P el in
  let lc := nth (unit_idx P) lct 1 in
  let V3 := el_V3 RA V el in
  0 < ga g -> 0 < lc ->
  el_B P lct (written_A RA V) el
    = nl_Bmag RA (ga g) (sum3 RA (fun j => vget RA V3 j * vget RA (gq g) j)) (sum3 RA (fun j => vget RA V3 j * vget RA (gp g) j))
      * (1 / 100 / lc).
Proof. exact prevB_is_scaled_nl_Bmag. Qed.
Print Assumptions C05_prev_flux_density_is_scaled_newton_flux_density.

(* (m) with the table the code uses (LengthConvMeters) the two agree for problems in centimetres ... *)
Theorem C05_prev_flux_density_centimetres :
  forall (P : mprob (F:=R)) (V : vecT R) (el : melem (F:=R)),
  let g := mel_geom RA P el in let V3 := el_V3 RA V el in
  0 < ga g -> unit_idx P = 2%nat ->
  el_B P (lenconv_meters RA) (written_A RA V) el
    = nl_Bmag RA (ga g) (sum3 RA (fun j => vget RA V3 j * vget RA (gq g) j)) (sum3 RA (fun j => vget RA V3 j * vget RA (gp g) j)).
Proof. exact prevB_shipped_table_centimetres. Qed.
Print Assumptions C05_prev_flux_density_centimetres.

(* (n) ... but NOT in the other length units (findings/XPREV-2): the statement "the previous flux density is the flux density of
   the run that produced Aprev" for all units is REFUTED for the shipped table (witness: one triangle, inches) *)
Theorem C05_prev_flux_density_unit_refuted :
  exists (P : mprob (F:=R)) (V : vecT R) (el : melem (F:=R)),
    let g := mel_geom RA P el in let V3 := el_V3 RA V el in
    0 < ga g /\ unit_idx P = 0%nat /\
    el_B P (lenconv_meters RA) (written_A RA V) el
      <> nl_Bmag RA (ga g) (sum3 RA (fun j => vget RA V3 j * vget RA (gq g) j)) (sum3 RA (fun j => vget RA V3 j * vget RA (gp g) j)).
Proof. exact prevB_shipped_table_refuted. Qed.
Print Assumptions C05_prev_flux_density_unit_refuted.

(* (o) with the factor 0.01 of getPrevAxiB (table lenconv_cm) it holds in every unit *)
Theorem C05_prev_flux_density_repaired_table :
  forall (P : mprob (F:=R)) (V : vecT R) (el : melem (F:=R)),
  let g := mel_geom RA P el in let V3 := el_V3 RA V el in
  0 < ga g -> (unit_idx P < 6)%nat ->
  el_B P (lenconv_cm RA) (written_A RA V) el
    = nl_Bmag RA (ga g) (sum3 RA (fun j => vget RA V3 j * vget RA (gq g) j)) (sum3 RA (fun j => vget RA V3 j * vget RA (gp g) j)).
Proof. exact prevB_cm_table. Qed.
Print Assumptions C05_prev_flux_density_repaired_table.

(* ====================================================================================================== *)
(* C11 — superposition for incremental / frozen problems                                                   *)
(* ====================================================================================================== *)

(* (p) the element matrix and tensor of a dependent run do not depend on the new excitations: two problems with the same passive
   data (nodes, unit, the block's permeabilities and lamination data, type and c0 of the boundary properties on the element's
   edges) on the same previous solution give the same Me and (mu1, mu2, v12), whatever their sources and circuit results *)
Theorem C11_prev_element_matrix_independent_of_excitations :
  forall (P1 P2 : mprob (F:=R)) (res1 res2 : list (nat * R * R)) (mats : list (mat (F:=R))) (lct : vecT R) (inc : nat)
         (Aprev : vecT R) (el : melem (F:=R)),
  same_passive P1 P2 el ->
  prev_Me P1 res1 mats lct inc Aprev el = prev_Me P2 res2 mats lct inc Aprev el /\
  el_t P1 mats lct inc Aprev el = el_t P2 mats lct inc Aprev el.
Proof. exact prev_matrix_independent_of_excitations. Qed.
Print Assumptions C11_prev_element_matrix_independent_of_excitations.

(* (q) the element right-hand side of a dependent run IS the one of the ordinary linear assembly, whatever the previous solution:
   it is linear in the new excitations exactly as C05_current_and_magnet_rhs / C05_mixed_boundary_edge_terms say *)
Theorem C11_prev_element_rhs_is_linear_rhs :
  forall (P : mprob (F:=R)) (res : list (nat * R * R)) (mats : list (mat (F:=R))) (lct : vecT R) (inc : nat) (Aprev : vecT R)
         (el : melem (F:=R)),
  prev_be P res mats lct inc Aprev el = snd (fst (melem_matrices RA P res el)).
Proof. exact prev_rhs_is_linear_rhs. Qed.
Print Assumptions C11_prev_element_rhs_is_linear_rhs.

(* ====================================================================================================== *)
(* the hypotheses are satisfiable                                                                           *)
(* ====================================================================================================== *)
Example XPREV_tensor_hypotheses_satisfiable :
  let t := prev_tensor RA 1 3 4 5 100 2000 in
  1 / fst (fst t) = / 100 * (3 / 5) * (3 / 5) + / 2000 * (4 / 5) * (4 / 5) /\ - snd t = (/ 100 - / 2000) * (3 / 5) * (4 / 5).
Proof.
  assert (H : 5 <> 0 /\ 100 <> 0 /\ 2000 <> 0 /\ 3 * 3 * 2000 + 4 * 4 * 100 <> 0 /\ 3 * 3 * 100 + 4 * 4 * 2000 <> 0)
    by (repeat split; lra).
  destruct H as (H1 & H2 & H3 & H4 & H5).
  destruct (prev_tensor_incremental 3 4 5 100 2000 H1 H2 H3 H4 H5) as (E1 & _ & E3 & _).
  cbv zeta. split; [exact E1|exact E3].
Qed.

Example XPREV_same_passive_satisfiable : same_passive wit_P wit_P wit_el.
Proof.
  unfold same_passive. repeat split; reflexivity.
Qed.
