(* LuaCmdsProofs.v — C17: proofs about the Lua command model (LuaCmds.v).
   1. the regenerated registration table: both spellings of every command share a handler, names are
      registered once, every underscore spelling has its plain sibling, every command the generator
      uses is registered with a real handler (vm_compute over the finite table);
   2. build (script_of p) = Some p for every well-formed problem p, from any previous state;
   3. newdocument / open replace the current document (no state leaks). *)
From Coq Require Import List String ZArith Bool Arith Lia Ascii.
From XF.gen Require Import LuaTable.
From XF Require Import LuaCmds.
Import ListNotations.
Local Open Scope string_scope.
Local Open Scope list_scope.

(* ------------------------------------------------------------------ 1. the table ------------ *)
Lemma table_spellings_agree : spellings_agree_b lua_table = true.
Proof. vm_compute. reflexivity. Qed.

Lemma table_names_unique : names_unique_b lua_table = true.
Proof. vm_compute. reflexivity. Qed.

Lemma table_every_spelling_has_plain : every_spelling_has_plain_b lua_table = true.
Proof. vm_compute. reflexivity. Qed.

Lemma table_required_registered : every_required_registered_b lua_table = true.
Proof. vm_compute. reflexivity. Qed.

(* what the boolean means *)
Lemma spellings_agree_sound (t : list lrow) :
  spellings_agree_b t = true ->
  forall r1 r2, In r1 t -> In r2 t -> canon (rname r1) = canon (rname r2) -> rhandler r1 = rhandler r2.
Proof.
  unfold spellings_agree_b. intros H r1 r2 H1 H2 Hc.
  rewrite forallb_forall in H.
  specialize (H (canon (rname r1), rhandler r1)).
  rewrite forallb_forall in H.
  assert (In (canon (rname r1), rhandler r1) (map (fun r => (canon (rname r), rhandler r)) t)) as I1
      by (apply in_map_iff; eexists; split; [reflexivity|assumption]).
  assert (In (canon (rname r2), rhandler r2) (map (fun r => (canon (rname r), rhandler r)) t)) as I2
      by (apply in_map_iff; eexists; split; [reflexivity|assumption]).
  specialize (H I1 _ I2). cbn [fst snd] in H.
  rewrite Hc, String.eqb_refl in H. cbn in H. apply String.eqb_eq. exact H.
Qed.

Lemma model_commands_registered {Pay : Type} (k : kind) (c : cmd Pay) :
  (k = Heat -> forall a b h g e, c <> SetArcProp a b h g e) ->
  real_handler_b lua_table (lua_name k c) = true.
Proof.
  (* (robust against hi_setarcsegmentprop becoming registered: then the excluded case holds as well) *)
  intros H. destruct k, c; solve [ vm_compute; reflexivity | exfalso; eapply H; reflexivity ].
Qed.

(* ------------------------------------------------------------------ 2. basic facts ----------- *)
Lemma pt_eqb_eq (a b : pt) : pt_eqb a b = true <-> a = b.
Proof.
  unfold pt_eqb. destruct a as [ax ay], b as [bx by_]. cbn. rewrite andb_true_iff, !Z.eqb_eq.
  split; [intros [-> ->]; reflexivity | intros E; inversion E; auto].
Qed.

Lemma pt_eqb_refl (a : pt) : pt_eqb a a = true.
Proof. apply pt_eqb_eq. reflexivity. Qed.

Lemma existsb_pt_false (q : pt) (l : list pt) : ~ In q l -> existsb (pt_eqb q) l = false.
Proof.
  intros H. apply not_true_is_false. intros E. apply existsb_exists in E as (x & Hx & Hq).
  apply pt_eqb_eq in Hq. subst. contradiction.
Qed.

Lemma distinct_pt_NoDup (l : list pt) : distinct_pt l = true -> NoDup l.
Proof.
  induction l as [|x r IH]; cbn; intros H; [constructor|].
  apply andb_true_iff in H as [H1 H2]. constructor; [|auto].
  intros I. apply negb_true_iff in H1. rewrite (proj2 (existsb_exists _ _)) in H1; [discriminate|].
  exists x. split; [assumption | apply pt_eqb_refl].
Qed.

Lemma distinct_str_NoDup (l : list string) : distinct_str l = true -> NoDup l.
Proof.
  induction l as [|x r IH]; cbn; intros H; [constructor|].
  apply andb_true_iff in H as [H1 H2]. constructor; [|auto].
  intros I. apply negb_true_iff in H1. rewrite (proj2 (existsb_exists _ _)) in H1; [discriminate|].
  exists x. split; [assumption | apply String.eqb_refl].
Qed.

Lemma dist2_nonneg (a b : pt) : (0 <= dist2 a b)%Z.
Proof.
  unfold dist2. destruct a as [ax ay], b as [bx by_]. cbn [fst snd].
  pose proof (Z.square_nonneg (ax - bx)). pose proof (Z.square_nonneg (ay - by_)). lia.
Qed.

Lemma dist2_zero (a b : pt) : dist2 a b = 0%Z <-> a = b.
Proof.
  unfold dist2. destruct a as [ax ay], b as [bx by_]. cbn. split.
  - intros H. pose proof (Z.square_nonneg (ax - bx)) as H1. pose proof (Z.square_nonneg (ay - by_)) as H2.
    assert ((ax - bx) * (ax - bx) = 0)%Z as E1 by lia. assert ((ay - by_) * (ay - by_) = 0)%Z as E2 by lia.
    apply Z.mul_eq_0 in E1. apply Z.mul_eq_0 in E2. f_equal; lia.
  - intros E. inversion E. subst. lia.
Qed.

Lemma dist2_pos (a b : pt) : a <> b -> (0 < dist2 a b)%Z.
Proof.
  intros H. pose proof (dist2_nonneg a b). destruct (Z.eq_dec (dist2 a b) 0) as [E|E]; [|lia].
  apply dist2_zero in E. contradiction.
Qed.

Lemma NoDup_app_l {A : Type} (a b : list A) : NoDup (a ++ b) -> NoDup a.
Proof.
  induction a as [|x r IH]; cbn; intros H; [constructor|].
  inversion H as [|? ? Hn Hr]; subst. constructor; [|apply IH; exact Hr].
  intros I. apply Hn. apply in_or_app. left. exact I.
Qed.

Lemma NoDup_app_r {A : Type} (a b : list A) : NoDup (a ++ b) -> NoDup b.
Proof.
  induction a as [|x r IH]; cbn; intros H; [exact H|].
  inversion H; subst. apply IH. assumption.
Qed.

(* closest: the loop of FemmProblem::closestNode *)
Lemma cf_zero (q : pt) (l : list pt) (i best : nat) : closest_from q l i best 0%Z = best.
Proof.
  revert i. induction l as [|p r IH]; intros i; cbn; [reflexivity|].
  pose proof (dist2_nonneg p q). destruct (Z.ltb_spec (dist2 p q) 0); [lia|]. apply IH.
Qed.

Lemma cf_hit (q : pt) : forall (X Y : list pt) (i best : nat) (dbest : Z),
  (0 < dbest)%Z -> ~ In q X -> closest_from q (X ++ q :: Y) i best dbest = i + List.length X.
Proof.
  induction X as [|p r IH]; intros Y i best dbest Hd Hn; cbn [app closest_from List.length].
  - replace (dist2 q q) with 0%Z by (symmetry; apply dist2_zero; reflexivity).
    destruct (Z.ltb_spec 0 dbest); [|lia]. rewrite cf_zero. lia.
  - assert (p <> q) as Hp by (intros E; apply Hn; left; exact E).
    assert (~ In q r) as Hr by (intros I; apply Hn; right; exact I).
    pose proof (dist2_pos p q Hp).
    destruct (Z.ltb_spec (dist2 p q) dbest); rewrite IH by assumption; lia.
Qed.

Lemma closest_app (X Y : list pt) (q : pt) :
  NoDup (X ++ q :: Y) -> closest (X ++ q :: Y) q = Some (List.length X).
Proof.
  intros H. apply NoDup_remove_2 in H.
  assert (~ In q X) as Hn by (intros I; apply H; apply in_or_app; left; exact I).
  destruct X as [|p0 r]; cbn [app closest].
  - cbn [closest_from List.length].
    replace (dist2 q q) with 0%Z by (symmetry; apply dist2_zero; reflexivity).
    cbn. rewrite cf_zero. reflexivity.
  - assert (p0 <> q) as Hp by (intros E; apply Hn; left; exact E).
    change (p0 :: r ++ q :: Y) with ((p0 :: r) ++ q :: Y).
    rewrite cf_hit; [reflexivity | apply dist2_pos; exact Hp | exact Hn].
Qed.

Lemma closest_nth (l : list pt) (i : nat) (d : pt) :
  NoDup l -> i < List.length l -> closest l (nth i l d) = Some i.
Proof.
  intros H Hi. destruct (nth_split l d Hi) as (X & Y & E & L).
  remember (nth i l d) as q eqn:Hq. clear Hq. subst l i. apply closest_app. exact H.
Qed.

(* ------------------------------------------------------------------ names and references ----- *)
Section Names.
  Context {Pay : Type}.
  Local Notation propT := (string * Pay)%type.

  Lemma index_of_none (n : string) (l : list propT) : ~ In n (map fst l) -> index_of n l = None.
  Proof.
    induction l as [|[m v] r IH]; cbn; intros H; [reflexivity|].
    destruct (String.eqb_spec n m) as [E|E]; [exfalso; apply H; left; symmetry; exact E|].
    rewrite IH; [reflexivity | intros I; apply H; right; exact I].
  Qed.

  Lemma index_of_nth (l : list propT) : forall i m v,
    NoDup (map fst l) -> nth_error l i = Some (m, v) -> index_of m l = Some i.
  Proof.
    induction l as [|[m0 v0] r IH]; intros i m v H E; [destruct i; discriminate|].
    cbn [map fst] in H. inversion H as [|? ? Hn Hr]; subst.
    destruct i as [|i]; cbn in E |- *.
    - inversion E; subst. rewrite String.eqb_refl. reflexivity.
    - destruct (String.eqb_spec m m0) as [Em|Em].
      + exfalso. subst. apply Hn. apply nth_error_In in E. apply (in_map fst) in E. exact E.
      + rewrite (IH i m v Hr E). reflexivity.
  Qed.

  Lemma names_ok_spec (none : string) (l : list propT) :
    names_ok none l = true -> NoDup (map fst l) /\ ~ In none (map fst l).
  Proof.
    unfold names_ok. intros H. apply andb_true_iff in H as [H1 H2]. split.
    - apply distinct_str_NoDup. exact H1.
    - intros I. apply negb_true_iff in H2. rewrite (proj2 (existsb_exists _ _)) in H2; [discriminate|].
      exists none. split; [exact I | apply String.eqb_refl].
  Qed.

  Lemma ref_name_roundtrip (none : string) (l : list propT) (r : nat) :
    names_ok none l = true -> r <= List.length l -> ref_of_name (name_of_ref none r l) l = r.
  Proof.
    intros H Hr. apply names_ok_spec in H as [Hd Hn]. unfold ref_of_name, name_of_ref.
    destruct r as [|i].
    - rewrite index_of_none by exact Hn. reflexivity.
    - destruct (nth_error l i) as [[m v]|] eqn:E.
      + rewrite (index_of_nth l i m v Hd E). reflexivity.
      + apply nth_error_None in E. lia.
  Qed.
End Names.

(* ------------------------------------------------------------------ selection machinery ------ *)
Section SelProofs.
  Context {E : Type} (handle : E -> pt).

  Lemma map_handle_unsel (l : list E) : map (fun x : E * bool => handle (fst x)) (unsel l) = map handle l.
  Proof. unfold unsel. rewrite map_map. reflexivity. Qed.

  Lemma map_fst_unsel (l : list E) : map fst (unsel l) = l.
  Proof. unfold unsel. rewrite map_map. cbn. apply map_id. Qed.

  Lemma unsel_app (a b : list E) : unsel (a ++ b) = unsel a ++ unsel b.
  Proof. unfold unsel. apply map_app. Qed.

  Lemma clear_unsel (l : list E) : clear_sel (unsel l) = unsel l.
  Proof. unfold clear_sel, unsel. rewrite map_map. reflexivity. Qed.

  Lemma toggle_nth_app (A B : list E) (e : E) :
    toggle_nth (List.length A) (unsel (A ++ e :: B)) = unsel A ++ (e, true) :: unsel B.
  Proof. induction A as [|a r IH]; cbn; [reflexivity|]. f_equal. exact IH. Qed.

  Lemma set_selected_unsel (f : E -> E) (l : list E) : set_selected f (unsel l) = unsel l.
  Proof. unfold set_selected, unsel. rewrite map_map. reflexivity. Qed.

  (* select the entity, set its properties, clear the selection *)
  Lemma triple_app (A B : list E) (e : E) (f : E -> E) :
    closest (map handle (A ++ e :: B)) (handle e) = Some (List.length A) ->
    clear_sel (set_selected f (toggle_closest handle (unsel (A ++ e :: B)) (handle e))) = unsel (A ++ f e :: B).
  Proof.
    intros H. unfold toggle_closest. rewrite map_handle_unsel, H, toggle_nth_app.
    unfold set_selected. rewrite map_app. cbn [map snd fst].
    fold (set_selected f (unsel A)). fold (set_selected f (unsel B)). rewrite !set_selected_unsel.
    unfold clear_sel. rewrite map_app. cbn [map fst].
    fold (clear_sel (unsel A)). fold (clear_sel (unsel B)). rewrite !clear_unsel.
    rewrite unsel_app. reflexivity.
  Qed.

  (* all entities, one after the other: B still carry the attributes given by the add command (dfl),
     A are done; fin e is what the set command generated for e does to a selected entity *)
  Context (dfl : E -> E) (fin : E -> E -> E).
  Lemma assign_list : forall (B A : list E),
    (forall e, handle (dfl e) = handle e) ->
    NoDup (map handle (A ++ B)) ->
    (forall e, In e B -> fin e (dfl e) = e) ->
    fold_left (fun l e => clear_sel (set_selected (fin e) (toggle_closest handle l (handle e)))) B
              (unsel (A ++ map dfl B)) = unsel (A ++ B).
  Proof.
    induction B as [|e r IH]; intros A Hh Hd Hf; cbn [fold_left map]; [reflexivity|].
    assert (map handle (A ++ dfl e :: map dfl r) = map handle (A ++ e :: r)) as EM.
    { rewrite !map_app. cbn [map]. rewrite Hh, map_map. f_equal. f_equal. apply map_ext. exact Hh. }
    assert (closest (map handle (A ++ dfl e :: map dfl r)) (handle (dfl e)) = Some (List.length A)) as HC.
    { rewrite EM, Hh, map_app. cbn [map]. rewrite <- (map_length handle A). apply closest_app.
      rewrite <- (map_cons handle), <- map_app. exact Hd. }
    rewrite <- (Hh e) at 1. rewrite (triple_app A (map dfl r) (dfl e) (fin e) HC).
    rewrite (Hf e) by (left; reflexivity).
    replace (A ++ e :: map dfl r) with ((A ++ [e]) ++ map dfl r) by (rewrite <- app_assoc; reflexivity).
    rewrite IH.
    - rewrite <- app_assoc. reflexivity.
    - exact Hh.
    - rewrite <- app_assoc. exact Hd.
    - intros x Hx. apply Hf. right. exact Hx.
  Qed.
End SelProofs.

(* ------------------------------------------------------------------ 3. build (script_of p) ---- *)
Section Build.
  Context {Pay : Type}.
  Local Notation problem := (problem Pay).
  Local Notation doc := (doc Pay).
  Local Notation cmd := (cmd Pay).
  Local Notation state := (state Pay).
  Local Notation propT := (string * Pay)%type.

  Definition builder (c : cmd) : bool :=
    match c with
    | NewDoc _ | OpenDoc _ _ | CloseDoc | SaveAs _ | Analyze | LoadSolution => false
    | _ => true
    end.

  Lemma run_builder : forall (cs : list cmd) (d : doc) pth m sol,
    forallb builder cs = true ->
    run_from (mkState (Some d) pth m sol) cs = mkState (Some (fold_left step cs d)) pth m sol.
  Proof.
    unfold run_from. induction cs as [|c r IH]; intros d pth m sol H; cbn [fold_left]; [reflexivity|].
    cbn [forallb] in H. apply andb_true_iff in H as [Hc Hr].
    assert (exec (mkState (Some d) pth m sol) c = mkState (Some (step d c)) pth m sol) as ->
      by (destruct c; try discriminate Hc; reflexivity).
    apply IH. exact Hr.
  Qed.

  Lemma pts_of_unsel (N : list nodeT) : pts_of (unsel N) = map n_at N.
  Proof. unfold pts_of, unsel. rewrite map_map. reflexivity. Qed.

  Lemma existsb_lab_false (q : pt) (L : list labT) :
    ~ In q (map l_at L) -> existsb (fun x : labT * bool => pt_eqb q (l_at (fst x))) (unsel L) = false.
  Proof.
    intros H. apply not_true_is_false. intros E. apply existsb_exists in E as (x & Hx & Hq).
    apply pt_eqb_eq in Hq. apply H. unfold unsel in Hx. apply in_map_iff in Hx as (l & <- & Hl).
    cbn in Hq. subst q. apply in_map. exact Hl.
  Qed.

  (* ---- properties ---- *)
  Lemma fold_pp : forall (l : list propT) k df pp bp mt ci ns ss ars ls,
    fold_left step (map (fun x => AddPointProp (fst x) (snd x)) l) (mkDoc k df pp bp mt ci ns ss ars ls)
    = mkDoc k df (pp ++ l) bp mt ci ns ss ars ls.
  Proof.
    induction l as [|[n v] r IH]; intros; cbn [map fold_left fst snd].
    - rewrite app_nil_r. reflexivity.
    - cbn [step d_kind d_def d_pp d_bp d_mat d_circ d_nodes d_segs d_arcs d_labs]. rewrite IH, <- app_assoc. reflexivity.
  Qed.
  Lemma fold_bp : forall (l : list propT) k df pp bp mt ci ns ss ars ls,
    fold_left step (map (fun x => AddBoundProp (fst x) (snd x)) l) (mkDoc k df pp bp mt ci ns ss ars ls)
    = mkDoc k df pp (bp ++ l) mt ci ns ss ars ls.
  Proof.
    induction l as [|[n v] r IH]; intros; cbn [map fold_left fst snd].
    - rewrite app_nil_r. reflexivity.
    - cbn [step d_kind d_def d_pp d_bp d_mat d_circ d_nodes d_segs d_arcs d_labs]. rewrite IH, <- app_assoc. reflexivity.
  Qed.
  Lemma fold_mt : forall (l : list propT) k df pp bp mt ci ns ss ars ls,
    fold_left step (map (fun x => AddMaterial (fst x) (snd x)) l) (mkDoc k df pp bp mt ci ns ss ars ls)
    = mkDoc k df pp bp (mt ++ l) ci ns ss ars ls.
  Proof.
    induction l as [|[n v] r IH]; intros; cbn [map fold_left fst snd].
    - rewrite app_nil_r. reflexivity.
    - cbn [step d_kind d_def d_pp d_bp d_mat d_circ d_nodes d_segs d_arcs d_labs]. rewrite IH, <- app_assoc. reflexivity.
  Qed.
  Lemma fold_ci : forall (l : list propT) k df pp bp mt ci ns ss ars ls,
    fold_left step (map (fun x => AddCircProp (fst x) (snd x)) l) (mkDoc k df pp bp mt ci ns ss ars ls)
    = mkDoc k df pp bp mt (ci ++ l) ns ss ars ls.
  Proof.
    induction l as [|[n v] r IH]; intros; cbn [map fold_left fst snd].
    - rewrite app_nil_r. reflexivity.
    - cbn [step d_kind d_def d_pp d_bp d_mat d_circ d_nodes d_segs d_arcs d_labs]. rewrite IH, <- app_assoc. reflexivity.
  Qed.

  (* ---- nodes ---- *)
  Definition dfn (n : nodeT) : nodeT := dflt_node (n_at n).
  Lemma fold_nodes : forall (l N : list nodeT) k (df : option Pay) (pp bp mt ci : list propT) ss ars,
    NoDup (map n_at N ++ map n_at l) ->
    fold_left step (map (fun n => AddNode (n_at n)) l) (mkDoc k df pp bp mt ci (unsel N) ss ars [])
    = mkDoc k df pp bp mt ci (unsel (N ++ map dfn l)) ss ars [].
  Proof.
    induction l as [|n r IH]; intros N k df pp bp mt ci ss ars H; cbn [map fold_left].
    - rewrite app_nil_r. reflexivity.
    - cbn [step d_kind d_def d_pp d_bp d_mat d_circ d_nodes d_segs d_arcs d_labs].
      rewrite pts_of_unsel. cbn [existsb]. rewrite orb_false_r.
      cbn [map] in H. pose proof (NoDup_remove_2 _ _ _ H) as Hn.
      rewrite existsb_pt_false by (intros I; apply Hn; apply in_or_app; left; exact I).
      replace (unsel N ++ [(dflt_node (n_at n), false)]) with (unsel (N ++ [dfn n]))
        by (rewrite unsel_app; reflexivity).
      rewrite IH.
      + rewrite <- app_assoc. reflexivity.
      + rewrite map_app. cbn [map dfn dflt_node n_at]. rewrite <- app_assoc. exact H.
  Qed.

  Lemma closest_pt_at (pts : list pt) (i : nat) :
    NoDup pts -> i < List.length pts -> closest pts (pt_at pts i) = Some i.
  Proof. intros. unfold pt_at. apply closest_nth; assumption. Qed.

  (* ---- segments ---- *)
  Definition dfs (s : segT) : segT := dflt_seg (s_n0 s) (s_n1 s).
  Lemma seg_handle_dfs pts (s : segT) : seg_handle pts (dfs s) = seg_handle pts s.
  Proof. reflexivity. Qed.

  Lemma same_seg_handle pts n0 n1 (x : segT) :
    same_seg n0 n1 x = true -> seg_handle pts x = seg_handle pts (dflt_seg n0 n1).
  Proof.
    unfold same_seg, seg_handle. cbn [s_n0 s_n1 dflt_seg]. intros H.
    apply orb_true_iff in H as [H|H]; apply andb_true_iff in H as [H0 H1];
      apply Nat.eqb_eq in H0; apply Nat.eqb_eq in H1; rewrite H0, H1; [reflexivity|].
    f_equal; lia.
  Qed.

  Lemma fold_segs : forall (l S : list segT) (N : list nodeT) k (df : option Pay) (pp bp mt ci : list propT) ars ls,
    NoDup (map n_at N) ->
    (forall s, In s l -> s_n0 s < List.length N /\ s_n1 s < List.length N /\ s_n0 s <> s_n1 s) ->
    NoDup (map (seg_handle (map n_at N)) (S ++ l)) ->
    fold_left step (map (fun s => AddSegment (pt_at (map n_at N) (s_n0 s)) (pt_at (map n_at N) (s_n1 s))) l)
              (mkDoc k df pp bp mt ci (unsel N) (unsel S) ars ls)
    = mkDoc k df pp bp mt ci (unsel N) (unsel (S ++ map dfs l)) ars ls.
  Proof.
    induction l as [|s r IH]; intros S N k df pp bp mt ci ars ls HN Hok Hd; cbn [map fold_left].
    - rewrite app_nil_r. reflexivity.
    - destruct (Hok s (or_introl eq_refl)) as (H0 & H1 & Hne).
      cbn [step d_kind d_def d_pp d_bp d_mat d_circ d_nodes d_segs d_arcs d_labs].
      rewrite pts_of_unsel.
      rewrite !closest_pt_at by (rewrite ?map_length; assumption).
      destruct (Nat.eqb_spec (s_n0 s) (s_n1 s)) as [E|_]; [contradiction|]. cbn [orb].
      assert (existsb (fun x : segT * bool => same_seg (s_n0 s) (s_n1 s) (fst x)) (unsel S) = false) as ->.
      { apply not_true_is_false. intros E. apply existsb_exists in E as (x & Hx & Hs).
        unfold unsel in Hx. apply in_map_iff in Hx as (y & <- & Hy). cbn [fst] in Hs.
        apply (same_seg_handle (map n_at N)) in Hs. fold (dfs s) in Hs. rewrite seg_handle_dfs in Hs.
        rewrite map_app in Hd. cbn [map] in Hd. apply NoDup_remove_2 in Hd. apply Hd.
        apply in_or_app. left. rewrite <- Hs. apply in_map. exact Hy. }
      replace (unsel S ++ [(dflt_seg (s_n0 s) (s_n1 s), false)]) with (unsel (S ++ [dfs s]))
        by (rewrite unsel_app; reflexivity).
      rewrite IH.
      + rewrite <- app_assoc. reflexivity.
      + exact HN.
      + intros x Hx. apply Hok. right. exact Hx.
      + rewrite <- app_assoc. cbn [app]. rewrite !map_app in *. cbn [map] in *. rewrite seg_handle_dfs. exact Hd.
  Qed.

  Lemma fold_segs' : forall (l S : list segT) (N : list nodeT) (pts : list pt) k (df : option Pay) (pp bp mt ci : list propT) ars ls,
    map n_at N = pts -> NoDup pts ->
    (forall s, In s l -> s_n0 s < List.length N /\ s_n1 s < List.length N /\ s_n0 s <> s_n1 s) ->
    NoDup (map (seg_handle pts) (S ++ l)) ->
    fold_left step (map (fun s => AddSegment (pt_at pts (s_n0 s)) (pt_at pts (s_n1 s))) l)
              (mkDoc k df pp bp mt ci (unsel N) (unsel S) ars ls)
    = mkDoc k df pp bp mt ci (unsel N) (unsel (S ++ map dfs l)) ars ls.
  Proof. intros; subst pts; apply fold_segs; assumption. Qed.

  (* ---- arcs ---- *)
  Definition dfa (a : arcT) : arcT := dflt_arc (a_n0 a) (a_n1 a) (a_angle a) (a_maxseg a).
  Lemma arc_handle_dfa pts (a : arcT) : arc_handle pts (dfa a) = arc_handle pts a.
  Proof. reflexivity. Qed.

  Lemma same_arc_handle pts n0 n1 ang ms (x : arcT) :
    same_arc n0 n1 ang x = true -> arc_handle pts x = arc_handle pts (dflt_arc n0 n1 ang ms).
  Proof.
    unfold same_arc, arc_handle. cbn [a_n0 a_n1 dflt_arc]. intros H.
    apply andb_true_iff in H as [H _]. apply andb_true_iff in H as [H0 H1].
    apply Nat.eqb_eq in H0; apply Nat.eqb_eq in H1. rewrite H0, H1. reflexivity.
  Qed.

  Lemma fold_arcs : forall (l R : list arcT) (N : list nodeT) k (df : option Pay) (pp bp mt ci : list propT) ss ls,
    NoDup (map n_at N) ->
    (forall a, In a l -> a_n0 a < List.length N /\ a_n1 a < List.length N /\ a_n0 a <> a_n1 a) ->
    NoDup (map (arc_handle (map n_at N)) (R ++ l)) ->
    fold_left step (map (fun a => AddArc (pt_at (map n_at N) (a_n0 a)) (pt_at (map n_at N) (a_n1 a)) (a_angle a) (a_maxseg a)) l)
              (mkDoc k df pp bp mt ci (unsel N) ss (unsel R) ls)
    = mkDoc k df pp bp mt ci (unsel N) ss (unsel (R ++ map dfa l)) ls.
  Proof.
    induction l as [|a r IH]; intros R N k df pp bp mt ci ss ls HN Hok Hd; cbn [map fold_left].
    - rewrite app_nil_r. reflexivity.
    - destruct (Hok a (or_introl eq_refl)) as (H0 & H1 & Hne).
      cbn [step d_kind d_def d_pp d_bp d_mat d_circ d_nodes d_segs d_arcs d_labs].
      rewrite pts_of_unsel.
      rewrite !closest_pt_at by (rewrite ?map_length; assumption).
      destruct (Nat.eqb_spec (a_n0 a) (a_n1 a)) as [E|_]; [contradiction|]. cbn [orb].
      assert (existsb (fun x : arcT * bool => same_arc (a_n0 a) (a_n1 a) (a_angle a) (fst x)) (unsel R) = false) as ->.
      { apply not_true_is_false. intros E. apply existsb_exists in E as (x & Hx & Hs).
        unfold unsel in Hx. apply in_map_iff in Hx as (y & <- & Hy). cbn [fst] in Hs.
        apply (same_arc_handle (map n_at N) _ _ _ (a_maxseg a)) in Hs. fold (dfa a) in Hs. rewrite arc_handle_dfa in Hs.
        rewrite map_app in Hd. cbn [map] in Hd. apply NoDup_remove_2 in Hd. apply Hd.
        apply in_or_app. left. rewrite <- Hs. apply in_map. exact Hy. }
      replace (unsel R ++ [(dflt_arc (a_n0 a) (a_n1 a) (a_angle a) (a_maxseg a), false)]) with (unsel (R ++ [dfa a]))
        by (rewrite unsel_app; reflexivity).
      rewrite IH.
      + rewrite <- app_assoc. reflexivity.
      + exact HN.
      + intros x Hx. apply Hok. right. exact Hx.
      + rewrite <- app_assoc. cbn [app]. rewrite !map_app in *. cbn [map] in *. rewrite arc_handle_dfa. exact Hd.
  Qed.

  Lemma fold_arcs' : forall (l R : list arcT) (N : list nodeT) (pts : list pt) k (df : option Pay) (pp bp mt ci : list propT) ss ls,
    map n_at N = pts -> NoDup pts ->
    (forall a, In a l -> a_n0 a < List.length N /\ a_n1 a < List.length N /\ a_n0 a <> a_n1 a) ->
    NoDup (map (arc_handle pts) (R ++ l)) ->
    fold_left step (map (fun a => AddArc (pt_at pts (a_n0 a)) (pt_at pts (a_n1 a)) (a_angle a) (a_maxseg a)) l)
              (mkDoc k df pp bp mt ci (unsel N) ss (unsel R) ls)
    = mkDoc k df pp bp mt ci (unsel N) ss (unsel (R ++ map dfa l)) ls.
  Proof. intros; subst pts; apply fold_arcs; assumption. Qed.

  (* ---- block labels ---- *)
  Definition dfl (l : labT) : labT := dflt_lab (l_at l).
  Lemma fold_labs : forall (l L : list labT) (N : list nodeT) k (df : option Pay) (pp bp mt ci : list propT) ss ars,
    NoDup (map n_at N ++ map l_at L ++ map l_at l) ->
    fold_left step (map (fun x => AddLabel (l_at x)) l) (mkDoc k df pp bp mt ci (unsel N) ss ars (unsel L))
    = mkDoc k df pp bp mt ci (unsel N) ss ars (unsel (L ++ map dfl l)).
  Proof.
    induction l as [|x r IH]; intros L N k df pp bp mt ci ss ars H; cbn [map fold_left].
    - rewrite app_nil_r. reflexivity.
    - cbn [step d_kind d_def d_pp d_bp d_mat d_circ d_nodes d_segs d_arcs d_labs].
      rewrite pts_of_unsel. cbn [map] in H.
      rewrite app_assoc in H. pose proof (NoDup_remove_2 _ _ _ H) as Hn. rewrite <- app_assoc in H.
      rewrite existsb_pt_false by (intros I; apply Hn; apply in_or_app; left; apply in_or_app; left; exact I).
      rewrite existsb_lab_false by (intros I; apply Hn; apply in_or_app; left; apply in_or_app; right; exact I).
      cbn [orb].
      replace (unsel L ++ [(dflt_lab (l_at x), false)]) with (unsel (L ++ [dfl x])) by (rewrite unsel_app; reflexivity).
      rewrite IH.
      + rewrite <- app_assoc. reflexivity.
      + rewrite map_app. cbn [map dfl dflt_lab l_at]. rewrite <- !app_assoc. exact H.
  Qed.

  (* ---- assignments: select + set*prop + clearselected for every entity ---- *)
  Definition Dp (p : problem) (X : list (nodeT * bool)) (S : list (segT * bool)) (R : list (arcT * bool))
             (L : list (labT * bool)) : doc :=
    mkDoc (p_kind p) (p_def p) (p_pointprops p) (p_bdryprops p) (p_materials p) (p_circuits p) X S R L.
  Definition D0 (p : problem) : doc := Dp p [] [] [] [].

  Definition fin_node (p : problem) (e : nodeT) : nodeT -> nodeT :=
    app_node (D0 p) (name_of_ref NONE (n_prop e) (p_pointprops p)) (n_group e) (name_of_ref NONE (n_cond e) (p_circuits p)).
  Definition fin_seg (p : problem) (e : segT) : segT -> segT :=
    app_seg (D0 p) (name_of_ref NONE (s_bdry e) (p_bdryprops p)) (size_arg (s_size e)) (auto_arg (s_size e))
            (s_hide e) (s_group e) (name_of_ref NONE (s_cond e) (p_circuits p)).
  Definition fin_arc (p : problem) (e : arcT) : arcT -> arcT :=
    app_arc (D0 p) (a_maxseg e) (name_of_ref NONE (a_bdry e) (p_bdryprops p)) (a_hide e) (a_group e)
            (name_of_ref NONE (a_cond e) (p_circuits p)).
  Definition fin_lab (p : problem) (e : labT) : labT -> labT :=
    app_lab (D0 p) (name_of_ref NOMESH (l_block e) (p_materials p)) (auto_arg (l_size e)) (size_arg (l_size e))
            (name_of_ref NONE (l_circ e) (p_circuits p)) (l_magdir e) (l_group e) (l_turns e).

  Lemma fold_assign_nodes (p : problem) : forall (B : list nodeT) X S R L,
    fold_left step (flat_map (node_cmds p) B) (Dp p X (unsel S) (unsel R) (unsel L))
    = Dp p (fold_left (fun l e => clear_sel (set_selected (fin_node p e) (toggle_closest n_at l (n_at e)))) B X)
           (unsel S) (unsel R) (unsel L).
  Proof.
    induction B as [|e r IH]; intros X S R L; [reflexivity|].
    cbn [flat_map node_cmds app fold_left].
    unfold Dp at 1. cbn [step d_kind d_def d_pp d_bp d_mat d_circ d_nodes d_segs d_arcs d_labs].
    rewrite !clear_unsel. apply IH.
  Qed.

  Lemma fold_assign_segs (p : problem) (N : list nodeT) : forall (B : list segT) X R L,
    fold_left step (flat_map (seg_cmds p (map n_at N)) B) (Dp p (unsel N) X (unsel R) (unsel L))
    = Dp p (unsel N)
           (fold_left (fun l e => clear_sel (set_selected (fin_seg p e)
                                   (toggle_closest (seg_handle (map n_at N)) l (seg_handle (map n_at N) e)))) B X)
           (unsel R) (unsel L).
  Proof.
    induction B as [|e r IH]; intros X R L; [reflexivity|].
    cbn [flat_map seg_cmds app fold_left].
    unfold Dp at 1. cbn [step d_kind d_def d_pp d_bp d_mat d_circ d_nodes d_segs d_arcs d_labs].
    rewrite !clear_unsel, pts_of_unsel. apply IH.
  Qed.

  Lemma fold_assign_arcs (p : problem) (N : list nodeT) : forall (B : list arcT) S X L,
    fold_left step (flat_map (arc_cmds p (map n_at N)) B) (Dp p (unsel N) (unsel S) X (unsel L))
    = Dp p (unsel N) (unsel S)
           (fold_left (fun l e => clear_sel (set_selected (fin_arc p e)
                                   (toggle_closest (arc_handle (map n_at N)) l (arc_handle (map n_at N) e)))) B X)
           (unsel L).
  Proof.
    induction B as [|e r IH]; intros S X L; [reflexivity|].
    cbn [flat_map arc_cmds app fold_left].
    unfold Dp at 1. cbn [step d_kind d_def d_pp d_bp d_mat d_circ d_nodes d_segs d_arcs d_labs].
    rewrite !clear_unsel, pts_of_unsel. apply IH.
  Qed.

  Lemma fold_assign_labs (p : problem) : forall (B : list labT) N S R X,
    fold_left step (flat_map (lab_cmds p) B) (Dp p (unsel N) (unsel S) (unsel R) X)
    = Dp p (unsel N) (unsel S) (unsel R)
           (fold_left (fun l e => clear_sel (set_selected (fin_lab p e) (toggle_closest l_at l (l_at e)))) B X).
  Proof.
    induction B as [|e r IH]; intros N S R X; [reflexivity|].
    cbn [flat_map lab_cmds app fold_left].
    unfold Dp at 1. cbn [step d_kind d_def d_pp d_bp d_mat d_circ d_nodes d_segs d_arcs d_labs].
    rewrite !clear_unsel. apply IH.
  Qed.

  (* ---- what the set command generated for an entity does to the freshly added entity ---- *)
  Lemma implb_mag (k : kind) (b : bool) : implb (is_mag k) b = true -> k = Mag -> b = true.
  Proof. intros H ->. exact H. Qed.

  Lemma fin_node_ok (p : problem) (n : nodeT) :
    names_ok NONE (p_pointprops p) = true -> names_ok NONE (p_circuits p) = true ->
    node_ok p n = true -> fin_node p n (dfn n) = n.
  Proof.
    intros Hpp Hci H. unfold node_ok in H.
    apply andb_true_iff in H as [H H0]. apply andb_true_iff in H as [H H1].
    apply Nat.leb_le in H. apply Nat.leb_le in H1.
    unfold fin_node, app_node, D0, Dp, dfn, dflt_node. cbn [d_kind d_pp d_circ n_at n_cond].
    destruct n as [q pr g c]. cbn [n_at n_prop n_group n_cond] in *.
    rewrite (ref_name_roundtrip NONE _ pr Hpp H).
    destruct (p_kind p) eqn:K.
    - cbn in H0. apply Nat.eqb_eq in H0. subst c. reflexivity.
    - rewrite (ref_name_roundtrip NONE _ c Hci H1). reflexivity.
    - rewrite (ref_name_roundtrip NONE _ c Hci H1). reflexivity.
  Qed.

  Lemma size_roundtrip (o old : option Z) :
    size_ok o = true ->
    (if auto_arg o then None else if (0 <? size_arg o)%Z then Some (size_arg o) else old) = o.
  Proof. destruct o as [z|]; cbn; intros H; [rewrite H|]; reflexivity. Qed.

  Lemma fin_seg_ok (p : problem) (s : segT) :
    names_ok NONE (p_bdryprops p) = true -> names_ok NONE (p_circuits p) = true ->
    seg_ok p s = true -> fin_seg p s (dfs s) = s.
  Proof.
    intros Hbp Hci H. unfold seg_ok in H.
    apply andb_true_iff in H as [H H0]. apply andb_true_iff in H as [H H1].
    apply andb_true_iff in H as [H H3]. apply andb_true_iff in H as [H H2]. clear H.
    apply Nat.leb_le in H2. apply Nat.leb_le in H3.
    unfold fin_seg, app_seg, D0, Dp, dfs, dflt_seg. cbn [d_kind d_bp d_circ s_n0 s_n1 s_size s_cond].
    destruct s as [n0 n1 b sz h g c]. cbn [s_n0 s_n1 s_bdry s_size s_hide s_group s_cond] in *.
    rewrite (ref_name_roundtrip NONE _ b Hbp H2), (size_roundtrip sz None H1).
    destruct (p_kind p) eqn:K.
    - cbn in H0. apply Nat.eqb_eq in H0. subst c. reflexivity.
    - rewrite (ref_name_roundtrip NONE _ c Hci H3). reflexivity.
    - rewrite (ref_name_roundtrip NONE _ c Hci H3). reflexivity.
  Qed.

  Lemma fin_arc_ok (p : problem) (a : arcT) :
    names_ok NONE (p_bdryprops p) = true -> names_ok NONE (p_circuits p) = true ->
    arc_ok p a = true -> fin_arc p a (dfa a) = a.
  Proof.
    intros Hbp Hci H. unfold arc_ok in H.
    apply andb_true_iff in H as [H H0]. apply andb_true_iff in H as [H H2].
    apply andb_true_iff in H as [H H1]. clear H.
    apply Nat.leb_le in H1. apply Nat.leb_le in H2.
    unfold fin_arc, app_arc, D0, Dp, dfa, dflt_arc. cbn [d_kind d_bp d_circ a_n0 a_n1 a_angle a_maxseg a_cond].
    destruct a as [n0 n1 an ms b h g c]. cbn [a_n0 a_n1 a_angle a_maxseg a_bdry a_hide a_group a_cond] in *.
    rewrite (ref_name_roundtrip NONE _ b Hbp H1).
    destruct (p_kind p) eqn:K.
    - cbn in H0. apply Nat.eqb_eq in H0. subst c. reflexivity.
    - rewrite (ref_name_roundtrip NONE _ c Hci H2). reflexivity.
    - rewrite (ref_name_roundtrip NONE _ c Hci H2). reflexivity.
  Qed.

  Lemma fin_lab_ok (p : problem) (l : labT) :
    names_ok NOMESH (p_materials p) = true -> names_ok NONE (p_circuits p) = true ->
    lab_ok p l = true -> fin_lab p l (dfl l) = l.
  Proof.
    intros Hmt Hci H. unfold lab_ok in H.
    apply andb_true_iff in H as [H H0]. apply andb_true_iff in H as [H H1].
    apply andb_true_iff in H as [H H2].
    apply Nat.leb_le in H. apply Nat.leb_le in H2.
    unfold fin_lab, app_lab, D0, Dp, dfl, dflt_lab. cbn [d_kind d_mat d_circ l_at l_circ l_magdir l_turns].
    destruct l as [q b sz c md g t]. cbn [l_at l_block l_size l_circ l_magdir l_group l_turns] in *.
    rewrite (ref_name_roundtrip NOMESH _ b Hmt H).
    replace (if auto_arg sz then None else if (0 <? size_arg sz)%Z then Some (size_arg sz) else None) with sz
      by (symmetry; apply size_roundtrip; exact H1).
    destruct (p_kind p) eqn:K; cbn [is_mag kind_eqb] in H0.
    - rewrite (ref_name_roundtrip NONE _ c Hci H2).
      apply negb_true_iff in H0. rewrite H0. reflexivity.
    - apply andb_true_iff in H0 as [H0 H4]. apply andb_true_iff in H0 as [H0 H3].
      apply Nat.eqb_eq in H0. apply Z.eqb_eq in H4. apply Z.eqb_eq in H3. subst. reflexivity.
    - apply andb_true_iff in H0 as [H0 H4]. apply andb_true_iff in H0 as [H0 H3].
      apply Nat.eqb_eq in H0. apply Z.eqb_eq in H4. apply Z.eqb_eq in H3. subst. reflexivity.
  Qed.

  (* ---- the generated script consists of builder commands after its newdocument ---- *)
  Lemma forallb_map_true {A : Type} (f : A -> cmd) (l : list A) :
    (forall x, builder (f x) = true) -> forallb builder (map f l) = true.
  Proof. intros H. induction l; cbn; [reflexivity|]. rewrite H, IHl. reflexivity. Qed.

  Lemma forallb_flat_map_true {A : Type} (f : A -> list cmd) (l : list A) :
    (forall x, forallb builder (f x) = true) -> forallb builder (flat_map f l) = true.
  Proof. intros H. induction l; cbn; [reflexivity|]. rewrite forallb_app, H, IHl. reflexivity. Qed.

  Definition script_tail (p : problem) : list cmd := tl (script_of p).

  Lemma script_tail_builder (p : problem) : forallb builder (script_tail p) = true.
  Proof.
    unfold script_tail, script_of. cbn [app tl].
    repeat rewrite forallb_app. repeat (apply andb_true_iff; split);
      try (apply forallb_map_true; intros; reflexivity);
      try (apply forallb_flat_map_true; intros; reflexivity).
    destruct (p_def p); reflexivity.
  Qed.

  Lemma wf_spec (p : problem) : wf p = true ->
    names_ok NONE (p_pointprops p) = true /\ names_ok NONE (p_bdryprops p) = true /\
    names_ok NOMESH (p_materials p) = true /\ names_ok NONE (p_circuits p) = true /\
    NoDup (map n_at (p_nodes p) ++ map l_at (p_labels p)) /\
    NoDup (map (seg_handle (map n_at (p_nodes p))) (p_segs p)) /\
    NoDup (map (arc_handle (map n_at (p_nodes p))) (p_arcs p)) /\
    (forall n, In n (p_nodes p) -> node_ok p n = true) /\ (forall s, In s (p_segs p) -> seg_ok p s = true) /\
    (forall a, In a (p_arcs p) -> arc_ok p a = true) /\ (forall l, In l (p_labels p) -> lab_ok p l = true).
  Proof.
    unfold wf. intros H. repeat (apply andb_true_iff in H as [H ?]).
    repeat split; try assumption; try (apply distinct_pt_NoDup; assumption);
      try (apply forallb_forall; assumption).
    unfold names_ok. apply andb_true_iff; split; assumption.
  Qed.

  Lemma doc_of_Dp (p : problem) : doc_of p = Dp p (unsel (p_nodes p)) (unsel (p_segs p)) (unsel (p_arcs p)) (unsel (p_labels p)).
  Proof. reflexivity. Qed.

  Lemma fold_script_tail (p : problem) : wf p = true -> fold_left step (script_tail p) (empty_doc (p_kind p)) = doc_of p.
  Proof.
    intros W. destruct (wf_spec p W) as (Hpp & Hbp & Hmt & Hci & HN & HS & HR & Hn & Hs & Ha & Hl).
    assert (NoDup (map n_at (p_nodes p))) as HNn by (apply NoDup_app_l in HN; exact HN).
    unfold script_tail, script_of. cbn [app tl].
    rewrite !fold_left_app.
    assert (fold_left step (match p_def p with Some v => [ProbDef v] | None => [] end) (empty_doc (p_kind p))
            = mkDoc (p_kind p) (p_def p) [] [] [] [] (unsel []) (unsel []) (unsel []) []) as -> by (destruct (p_def p); reflexivity).
    rewrite fold_pp, fold_bp, fold_mt, fold_ci. cbn [app].
    rewrite fold_nodes by (cbn [map app]; exact HNn). cbn [app].
    change (@nil (labT * bool)) with (unsel (@nil labT)).
    assert (map n_at (map dfn (p_nodes p)) = map n_at (p_nodes p)) as EN by (rewrite map_map; reflexivity).
    rewrite (fold_segs' (p_segs p) [] (map dfn (p_nodes p)) (map n_at (p_nodes p))).
    2:{ exact EN. } 2:{ exact HNn. }
    2:{ intros s Hin. specialize (Hs s Hin). unfold seg_ok in Hs.
        do 4 (apply andb_true_iff in Hs as [Hs _]). apply andb_true_iff in Hs as [Hs H3]. apply andb_true_iff in Hs as [Hs H4].
        rewrite map_length. apply Nat.ltb_lt in Hs. apply Nat.ltb_lt in H4. apply negb_true_iff in H3. apply Nat.eqb_neq in H3. auto. }
    2:{ exact HS. }
    rewrite (fold_arcs' (p_arcs p) [] (map dfn (p_nodes p)) (map n_at (p_nodes p))).
    2:{ exact EN. } 2:{ exact HNn. }
    2:{ intros a Hin. specialize (Ha a Hin). unfold arc_ok in Ha.
        do 3 (apply andb_true_iff in Ha as [Ha _]). apply andb_true_iff in Ha as [Ha H2]. apply andb_true_iff in Ha as [Ha H3].
        rewrite map_length. apply Nat.ltb_lt in Ha. apply Nat.ltb_lt in H3. apply negb_true_iff in H2. apply Nat.eqb_neq in H2. auto. }
    2:{ exact HR. }
    rewrite fold_labs by (rewrite EN; exact HN).
    cbn [app].
    fold (Dp p (unsel (map dfn (p_nodes p))) (unsel (map dfs (p_segs p))) (unsel (map dfa (p_arcs p))) (unsel (map dfl (p_labels p)))).
    rewrite fold_assign_nodes.
    pose proof (assign_list n_at dfn (fin_node p) (p_nodes p) [] (fun _ => eq_refl)) as Q.
    cbn [app] in Q. rewrite Q; clear Q.
    2:{ exact HNn. }
    2:{ intros e He. apply fin_node_ok; auto. }
    rewrite fold_assign_segs.
    pose proof (assign_list (seg_handle (map n_at (p_nodes p))) dfs (fin_seg p) (p_segs p) [] (fun _ => eq_refl)) as Q.
    cbn [app] in Q. rewrite Q; clear Q.
    2:{ exact HS. }
    2:{ intros e He. apply fin_seg_ok; auto. }
    rewrite fold_assign_arcs.
    pose proof (assign_list (arc_handle (map n_at (p_nodes p))) dfa (fin_arc p) (p_arcs p) [] (fun _ => eq_refl)) as Q.
    cbn [app] in Q. rewrite Q; clear Q.
    2:{ exact HR. }
    2:{ intros e He. apply fin_arc_ok; auto. }
    rewrite fold_assign_labs.
    pose proof (assign_list l_at dfl (fin_lab p) (p_labels p) [] (fun _ => eq_refl)) as Q.
    cbn [app] in Q. rewrite Q; clear Q.
    2:{ apply NoDup_app_r in HN. exact HN. }
    2:{ intros e He. apply fin_lab_ok; auto. } symmetry. apply doc_of_Dp.
  Qed.

  Lemma problem_of_doc_of (p : problem) : problem_of (doc_of p) = p.
  Proof.
    destruct p. unfold problem_of, doc_of. f_equal; try reflexivity; apply map_fst_unsel.
  Qed.

  (* from ANY state: the script starts with newdocument, which replaces the current document *)
  Theorem run_script_of (s : state) (p : problem) :
    wf p = true -> run_from s (script_of p) = mkState (Some (doc_of p)) None false false.
  Proof.
    intros W. unfold run_from.
    change (script_of p) with (NewDoc (p_kind p) :: script_tail p).
    cbn [fold_left exec]. unfold init. fold (run_from (mkState (Some (empty_doc (p_kind p))) None false false) (script_tail p)).
    rewrite run_builder by apply script_tail_builder.
    rewrite fold_script_tail by exact W. reflexivity.
  Qed.

  Theorem build_script_of (p : problem) : wf p = true -> build (script_of p) = Some p.
  Proof.
    intros W. unfold build, run. rewrite run_script_of by exact W. cbn. rewrite problem_of_doc_of. reflexivity.
  Qed.

  Theorem build_after_anything (cs : list cmd) (p : problem) : wf p = true -> build (cs ++ script_of p) = Some p.
  Proof.
    intros W. unfold build, run, run_from. rewrite fold_left_app.
    fold (run_from (fold_left exec cs no_doc) (script_of p)).
    rewrite run_script_of by exact W. cbn. rewrite problem_of_doc_of. reflexivity.
  Qed.

  Theorem new_document_resets (cs : list cmd) (k : kind) : run (cs ++ [NewDoc k]) = init k.
  Proof. unfold run, run_from. rewrite fold_left_app. reflexivity. Qed.

  Theorem open_replaces (cs : list cmd) (p : problem) (path : string) : run (cs ++ [OpenDoc p path]) = opened p path.
  Proof. unfold run, run_from. rewrite fold_left_app. reflexivity. Qed.

  Theorem close_forgets (cs : list cmd) : run (cs ++ [CloseDoc]) = no_doc.
  Proof. unfold run, run_from. rewrite fold_left_app. reflexivity. Qed.
End Build.
