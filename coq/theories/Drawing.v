(* Drawing.v — executable model of the geometry editing core of femm::FemmProblem
   (cfemm/libfemm/FemmProblem.cpp) for nodes, straight segments and block labels, driven as the
   Lua commands of cfemm/femmcli/LuaCommonCommands.cpp drive it (property C16).

   Arc segments are NOT modelled (addArcSegment, createRadius, the arc branches of addNode,
   addSegment, enforcePSLG and of the copy/move routines): the drawings of the model contain no
   arc; arcs are covered on the implementation side only (tools/props/c16.py).  Magnetics-only
   label attributes (MagDir) are not modelled either: the harness drives an electrostatics
   document.

   Part 1 (Section Core) is written over a record [Geo F] of geometric oracles — one field per
   C++ helper that looks at coordinates (CNode::GetDistance, shortestDistanceFromSegment, abs of
   a complex difference, the geometric part of getIntersection, the bounding-box tolerance, the
   coordinate transformations) and the comparison [<].  The combinatorial theorems of
   DrawingProofs.v hold for EVERY such record.  Part 2 (Section Formulas) instantiates the
   oracles with the formulas of the C++ over an [Arith F]; with [FA] the result is
   bit-comparable with the implementation, with [RA] it is the real-number reading.

   One switch: [fx : bool] selects how deleteSelectedNodes removes the segments of a deleted point
   ([false]: ToggleSelect(), the code before findings/C16-F1-fix.diff; [true]: IsSelected = true, the
   repaired code).  The correspondence runs a probe on the implementation and evaluates the variant
   the working tree exhibits.

   Two ghost flags are carried in the state (they do not exist in the C++):
   [d_oof]    the fuel of the recursive addSegment ran out (the model's answer is then void);
   [d_dsplit] some addNode call split two segments that share an end point (this is the only
              way the code creates a duplicated segment, see DrawingProofs.v).
   No proofs in this file. *)
From Coq Require Import ZArith List Bool Arith.
From XF Require Import Arith.
Import ListNotations.

(* ------------------------------------------------------------------------------------- *)
(* entities: CNode.h, CSegment.h, CBlockLabel.h.  [prop] stands for the property fields that
   the editing code only copies (BoundaryMarker(Name), InConductor(Name), MaxSideLength,
   Hidden, BlockType(Name), ...); [grp] is InGroup, [sel] is IsSelected. *)
Record node {F : Type} := mkNode { nx : F; ny : F; nsel : bool; ngrp : nat; nprop : nat }.
Record seg := mkSeg { s0 : nat; s1 : nat; ssel : bool; sgrp : nat; sprop : nat }.
Record lab {F : Type} := mkLab { lx : F; ly : F; lsel : bool; lgrp : nat; larea : F; lprop : nat }.
Record drawing {F : Type} := mkDrawing {
  d_nodes : list (@node F); d_segs : list seg; d_labs : list (@lab F);
  d_oof : bool; d_dsplit : bool }.
Arguments mkNode {F}. Arguments mkLab {F}. Arguments mkDrawing {F}.

Record Geo (F : Type) := mkGeo {
  g_zero : F;                                    (* 0. (default tol, out-of-range lookups) *)
  g_lt : F -> F -> bool;                         (* a < b on double *)
  g_is0 : F -> bool;                             (* tol == 0 *)
  g_fabs : F -> F;
  g_dist : F * F -> F * F -> F;                  (* CNode/CBlockLabel::GetDistance: entity, query *)
  g_segdist : F * F -> F * F -> F * F -> F;      (* shortestDistanceFromSegment: query, end n0, end n1 *)
  g_cabs : F * F -> F * F -> F;                  (* abs(a - b), CComplex *)
  g_tol1 : F;                                    (* 1.e-08 *)
  g_bbtol : F * F -> list (F * F) -> F;          (* abs(p1-p0)*CLOSE_ENOUGH of the bounding box *)
  g_dmin : F -> F;                               (* x * 1.e-05 *)
  g_twice : F -> F;                              (* 2. * x *)
  g_isect : F * F -> F * F -> F * F -> F * F -> option (F * F);   (* getIntersection after the
                                                    common-end-point tests: new ends, old ends *)
  g_translate : F -> F -> F * F -> F * F;
  g_rotate : F * F -> F * F -> F * F -> F * F;   (* centre, z = exp(I t PI/180), point *)
  g_scale : F -> F -> F -> F * F -> F * F;
  g_scale_area : F -> F -> F;                    (* MaxArea *= (sf*sf) *)
  g_mirror_axis : F -> F -> F -> F -> option ((F * F) * (F * F));   (* (x, p/|p|) or None if |p| == 0 *)
  g_mirror : F * F -> F * F -> F * F -> F * F;   (* x, p, point *)
  g_times : nat -> F -> F;                       (* ((double)(nc+1)) * inc *)
  g_ofnat : nat -> F }.
Arguments g_zero {F}. Arguments g_lt {F}. Arguments g_is0 {F}. Arguments g_fabs {F}.
Arguments g_dist {F}. Arguments g_segdist {F}. Arguments g_cabs {F}. Arguments g_tol1 {F}.
Arguments g_bbtol {F}. Arguments g_dmin {F}. Arguments g_twice {F}. Arguments g_isect {F}.
Arguments g_translate {F}. Arguments g_rotate {F}. Arguments g_scale {F}.
Arguments g_scale_area {F}. Arguments g_mirror_axis {F}. Arguments g_mirror {F}.
Arguments g_times {F}. Arguments g_ofnat {F}.

(* the Lua-level commands (LuaCommonCommands.cpp), as harness/h_drawing.cpp issues them.
   [mode]: 0 nodes, 1 segments, 2 block labels, 3 arc segments, 4 group (femmenums.h EditMode);
   any other value is EditMode::Invalid and the command does nothing.
   Rotations carry z = exp(I*t*PI/180) (libm) computed on the implementation side. *)
Inductive op {F : Type} :=
| OAddNode (x y : F) | OAddSegment (x0 y0 x1 y1 : F) | OAddLabel (x y : F)
| OSelectNode (x y : F) | OSelectSegment (x y : F) | OSelectLabel (x y : F)
| OSelectGroup (g : nat) | OSetGroup (g : nat) | OClearSelected
| OSetNodeProp (k g : nat) | OSetSegProp (k g : nat) | OSetLabelProp (k g : nat)
| ODeleteSelected | ODeleteSelectedNodes | ODeleteSelectedSegments | ODeleteSelectedLabels
| OMoveTranslate (dx dy : F) (mode : nat)
| OMoveRotate (cx cy zr zi : F) (mode : nat)
| OScale (bx by_ sf : F) (mode : nat)
| OCopyTranslate (dx dy : F) (n mode : nat)
| OCopyRotate (cx cy : F) (zs : list (F * F)) (mode : nat)
| OMirror (x0 y0 x1 y1 : F) (mode : nat).

Section Core.
  Context {F : Type} (G : Geo F).
  Local Notation pt := (F * F)%type.
  Local Notation nodeT := (@node F).
  Local Notation labT := (@lab F).
  Local Notation drawingT := (@drawing F).
  Local Notation opT := (@op F).

  Definition npt (n : nodeT) : pt := (nx n, ny n).
  Definition lpt (l : labT) : pt := (lx l, ly l).

  (* field updates *)
  Definition set_nodes (st : drawingT) (l : list nodeT) : drawingT :=
    mkDrawing l (d_segs st) (d_labs st) (d_oof st) (d_dsplit st).
  Definition set_segs (st : drawingT) (l : list seg) : drawingT :=
    mkDrawing (d_nodes st) l (d_labs st) (d_oof st) (d_dsplit st).
  Definition set_labs (st : drawingT) (l : list labT) : drawingT :=
    mkDrawing (d_nodes st) (d_segs st) l (d_oof st) (d_dsplit st).
  Definition set_oof (st : drawingT) : drawingT :=
    mkDrawing (d_nodes st) (d_segs st) (d_labs st) true (d_dsplit st).

  Definition nsetsel (b : bool) (n : nodeT) : nodeT := mkNode (nx n) (ny n) b (ngrp n) (nprop n).
  Definition nsetpt (p : pt) (n : nodeT) : nodeT := mkNode (fst p) (snd p) (nsel n) (ngrp n) (nprop n).
  Definition ssetsel (b : bool) (s : seg) : seg := mkSeg (s0 s) (s1 s) b (sgrp s) (sprop s).
  Definition sset0 (k : nat) (s : seg) : seg := mkSeg k (s1 s) (ssel s) (sgrp s) (sprop s).
  Definition sset1 (k : nat) (s : seg) : seg := mkSeg (s0 s) k (ssel s) (sgrp s) (sprop s).
  Definition lsetsel (b : bool) (l : labT) : labT := mkLab (lx l) (ly l) b (lgrp l) (larea l) (lprop l).
  Definition lsetpt (p : pt) (l : labT) : labT := mkLab (fst p) (snd p) (lsel l) (lgrp l) (larea l) (lprop l).
  Definition lsetarea (a : F) (l : labT) : labT := mkLab (lx l) (ly l) (lsel l) (lgrp l) a (lprop l).

  (* CNode(x,y) / CSegment() / C?BlockLabel() with their default attributes *)
  Definition new_node (p : pt) : nodeT := mkNode (fst p) (snd p) false 0 0.
  Definition new_seg (a b : nat) : seg := mkSeg a b false 0 0.
  Definition new_lab (p : pt) : labT := mkLab (fst p) (snd p) false 0 (g_zero G) 0.

  (* nodelist[i]: an out-of-range index is undefined behaviour in the C++; the model reads an
     unselected node at the origin (never reached from well-formed drawings) *)
  Definition dflt_node : nodeT := mkNode (g_zero G) (g_zero G) false 0 0.
  Definition node_at (nodes : list nodeT) (i : nat) : nodeT := nth i nodes dflt_node.
  Definition pt_at (nodes : list nodeT) (i : nat) : pt := npt (node_at nodes i).

  Fixpoint upd_nth {T} (l : list T) (i : nat) (f : T -> T) : list T :=
    match l, i with
    | [], _ => []
    | h :: t, O => f h :: t
    | h :: t, S i' => h :: upd_nth t i' f
    end.

  Definition empty : drawingT := mkDrawing [] [] [] false false.

  (* FemmProblem::unselectAll *)
  Definition unselectAll (st : drawingT) : drawingT :=
    mkDrawing (map (nsetsel false) (d_nodes st)) (map (ssetsel false) (d_segs st))
              (map (lsetsel false) (d_labs st)) (d_oof st) (d_dsplit st).

  (* FemmProblem::closestNode / ClosestNode (the two are the same loop): d0 = dist(node 0);
     for i = 0..: if (d1 < d0) {d0 = d1; idx = i};  -1 on an empty list is rendered as 0
     (the callers only compare the two results, or test for emptiness first) *)
  Fixpoint argmin_from (ds : list F) (i best : nat) (d0 : F) : nat :=
    match ds with
    | [] => best
    | d1 :: r => if g_lt G d1 d0 then argmin_from r (S i) i d1 else argmin_from r (S i) best d0
    end.
  Definition argmin (ds : list F) : nat :=
    match ds with [] => 0 | d0 :: _ => argmin_from ds 0 0 d0 end.
  Definition closestNode (st : drawingT) (q : pt) : nat :=
    argmin (map (fun n => g_dist G (npt n) q) (d_nodes st)).
  Definition seg_dist (nodes : list nodeT) (q : pt) (s : seg) : F :=
    g_segdist G q (pt_at nodes (s0 s)) (pt_at nodes (s1 s)).
  Definition closestSegment (st : drawingT) (q : pt) : nat :=
    argmin (map (seg_dist (d_nodes st) q) (d_segs st)).
  Definition closestLabel (st : drawingT) (q : pt) : nat :=
    argmin (map (fun l => g_dist G (lpt l) q) (d_labs st)).

  (* the tolerance computed by luaAddNode / luaAddBlocklabel, and by addSegment / enforcePSLG
     when tol == 0: 1e-8 for fewer than two nodes, else diagonal of the nodes' bounding box
     times CLOSE_ENOUGH *)
  Definition auto_tol (nodes : list nodeT) : F :=
    match nodes with
    | [] | [_] => g_tol1 G
    | n0 :: rest => g_bbtol G (npt n0) (map npt rest)
    end.

  (* ---- FemmProblem::addNode(std::unique_ptr<CNode>&&, double d) ---------------------- *)
  Definition near_node (q : pt) (d : F) (n : nodeT) : bool := g_lt G (g_dist G (npt n) q) d.
  Definition near_lab (q : pt) (d : F) (l : labT) : bool := g_lt G (g_dist G (lpt l) q) d.
  (* fabs(shortestDistanceFromSegment(x,y,i)) < d *)
  Definition on_seg (nodes : list nodeT) (q : pt) (d : F) (s : seg) : bool :=
    g_lt G (g_fabs G (seg_dist nodes q s)) d.
  Definition seg_share (s t : seg) : bool :=
    Nat.eqb (s0 s) (s0 t) || Nat.eqb (s0 s) (s1 t) || Nat.eqb (s1 s) (s0 t) || Nat.eqb (s1 s) (s1 t).
  Fixpoint any_share (l : list seg) : bool :=
    match l with [] => false | s :: r => existsb (seg_share s) r || any_share r end.

  Definition addNode (st : drawingT) (nd : nodeT) (d : F) : drawingT :=
    let q := npt nd in
    if existsb (near_node q d) (d_nodes st) then st          (* too close to an existing node *)
    else if existsb (near_lab q d) (d_labs st) then st       (* on top of a block label *)
    else
      let k := length (d_nodes st) in                        (* nodelist.size()-1 after push_back *)
      let nodes' := d_nodes st ++ [nd] in
      (* for (i=0,k=linelist.size(); i<k; i++) if (on segment i)
           { segm = clone(i); linelist[i]->n1 = new; segm->n0 = new; push_back(segm); } *)
      let hit := on_seg nodes' q d in
      let segs' := map (fun s => if hit s then sset1 k s else s) (d_segs st)
                   ++ map (sset0 k) (filter hit (d_segs st)) in
      mkDrawing nodes' segs' (d_labs st) (d_oof st)
                (d_dsplit st || any_share (filter hit (d_segs st))).

  (* ---- FemmProblem::addBlockLabel(std::unique_ptr<CBlockLabel>&&, double d) ---------- *)
  Definition addBlockLabel (st : drawingT) (lb : labT) (d : F) : drawingT :=
    let q := lpt lb in
    if existsb (near_node q d) (d_nodes st) then st
    else if existsb (fun s => g_lt G (seg_dist (d_nodes st) q s) d) (d_segs st) then st
    else if existsb (near_lab q d) (d_labs st) then st
    else set_labs st (d_labs st ++ [lb]).

  (* ---- FemmProblem::deleteSelectedSegments / deleteSelectedBlockLabels ---------------- *)
  Definition deleteSelectedSegments (st : drawingT) : drawingT :=
    set_segs st (filter (fun s => negb (ssel s)) (d_segs st)).
  Definition deleteSelectedLabels (st : drawingT) : drawingT :=
    set_labs st (filter (fun l => negb (lsel l)) (d_labs st)).

  (* ---- FemmProblem::getIntersection(n0,n1,segm,&xi,&yi) ------------------------------- *)
  Definition getIntersection (st : drawingT) (n0 n1 : nat) (s : seg) : option pt :=
    if Nat.eqb n0 (s0 s) || Nat.eqb n0 (s1 s) || Nat.eqb n1 (s0 s) || Nat.eqb n1 (s1 s) then None
    else g_isect G (pt_at (d_nodes st) n0) (pt_at (d_nodes st) n1)
                   (pt_at (d_nodes st) (s0 s)) (pt_at (d_nodes st) (s1 s)).

  Fixpoint intersections (st : drawingT) (n0 n1 : nat) (l : list seg) : list pt :=
    match l with
    | [] => []
    | s :: r => match getIntersection st n0 n1 s with
                | Some p => p :: intersections st n0 n1 r
                | None => intersections st n0 n1 r
                end
    end.

  (* the node loop at the end of addSegment: first i (other than n0, n1) with d < dmin *)
  Definition passes_through (nodes : list nodeT) (n0 n1 : nat) (dmin : F) (i : nat) : bool :=
    if Nat.eqb i n0 || Nat.eqb i n1 then false
    else
      let p := pt_at nodes i in
      let d := g_segdist G p (pt_at nodes n0) (pt_at nodes n1) in
      let d := if g_lt G (g_cabs G p (pt_at nodes n0)) dmin then g_twice G dmin else d in
      let d := if g_lt G (g_cabs G p (pt_at nodes n1)) dmin then g_twice G dmin else d in
      g_lt G d dmin.
  Fixpoint find_first (f : nat -> bool) (i n : nat) : option nat :=
    match n with
    | O => None
    | S n' => if f i then Some i else find_first f (S i) n'
    end.

  Definition toggle_seg (st : drawingT) (k : nat) : drawingT :=
    set_segs st (upd_nth (d_segs st) k (fun s => ssetsel (negb (ssel s)) s)).

  (* ---- FemmProblem::addSegment(n0,n1,parsegm,tol); the recursion runs on fuel --------- *)
  Fixpoint addSegment (fuel : nat) (st : drawingT) (n0 n1 : nat) (par : option seg) (tol : F)
    : drawingT :=
    match fuel with
    | O => set_oof st
    | S fuel' =>
      if Nat.eqb n0 n1 then st                                   (* degenerate *)
      else if existsb (fun s => (Nat.eqb (s0 s) n0 && Nat.eqb (s1 s) n1)
                                || (Nat.eqb (s0 s) n1 && Nat.eqb (s1 s) n0)) (d_segs st)
      then st                                                    (* already in the list *)
      else
        let proto := match par with
                     | Some p => mkSeg n0 n1 false (sgrp p) (sprop p)
                     | None => new_seg n0 n1
                     end in
        let newnodes := intersections st n0 n1 (d_segs st) in
        let t := if g_is0 G tol then auto_tol (d_nodes st) else tol in
        let st1 := fold_left (fun s p => addNode s (new_node p) t) newnodes st in
        let st2 := set_segs st1 (d_segs st1 ++ [proto]) in
        let st3 := unselectAll st2 in
        let nodes := d_nodes st3 in
        let dmin := if g_is0 G tol then g_dmin G (g_cabs G (pt_at nodes n1) (pt_at nodes n0)) else tol in
        let k := length (d_segs st3) - 1 in
        match find_first (passes_through nodes n0 n1 dmin) 0 (length nodes) with
        | None => st3
        | Some i =>
            let st4 := deleteSelectedSegments (toggle_seg st3 k) in
            let par' := match par with Some _ => Some proto | None => None end in
            let st5 := addSegment fuel' st4 n0 i par' dmin in
            addSegment fuel' st5 i n1 par' dmin
        end
    end.

  (* ---- FemmProblem::deleteSelectedNodes ----------------------------------------------- *)
  Definition touches (i : nat) (s : seg) : bool := Nat.eqb (s0 s) i || Nat.eqb (s1 s) i.
  Fixpoint remove_nth {T} (l : list T) (i : nat) : list T :=
    match l, i with
    | [], _ => []
    | _ :: t, O => t
    | h :: t, S i' => h :: remove_nth t i'
    end.
  Definition dec_above (i : nat) (s : seg) : seg :=
    mkSeg (if Nat.ltb i (s0 s) then s0 s - 1 else s0 s) (if Nat.ltb i (s1 s) then s1 s - 1 else s1 s)
          (ssel s) (sgrp s) (sprop s).
  (* body of the do-loop for a selected node i.
     [fx = false] is the code as it stands: "first remove all lines that contain the point" is done by
     linelist[j]->ToggleSelect() followed by deleteSelectedSegments(), which UN-selects (and keeps) a
     segment that was already selected.  [fx = true] is the repaired code
     (findings/C16-F1-fix.diff): IsSelected = true.  The correspondence (tools/props/c16.py) decides
     which of the two the working tree is. *)
  Variable fx : bool.
  Definition delete_node_at (st : drawingT) (i : nat) : drawingT :=
    let st1 := set_segs st (map (fun s => if touches i s then ssetsel (if fx then true else negb (ssel s)) s else s)
                                (d_segs st)) in
    let st2 := deleteSelectedSegments st1 in
    let st3 := set_nodes st2 (remove_nth (d_nodes st2) i) in
    set_segs st3 (map (dec_above i) (d_segs st3)).
  Fixpoint delete_nodes_loop (fuel i : nat) (st : drawingT) : drawingT :=
    match fuel with
    | O => st
    | S fuel' =>
      if Nat.ltb i (length (d_nodes st)) then
        if nsel (node_at (d_nodes st) i) then delete_nodes_loop fuel' i (delete_node_at st i)
        else delete_nodes_loop fuel' (S i) st
      else st
    end.
  (* every iteration removes a node or advances i: |nodelist| iterations suffice *)
  Definition deleteSelectedNodes (st : drawingT) : drawingT :=
    delete_nodes_loop (length (d_nodes st)) 0 st.

  (* ---- FemmProblem::enforcePSLG(tol = 0) ---------------------------------------------- *)
  Definition enforcePSLG (fuel : nat) (st : drawingT) : drawingT :=
    let old := d_nodes st in
    let d := auto_tol old in                     (* tol == 0: size <= 1 -> 1e-8, else bounding box *)
    let st0 := mkDrawing [] [] [] (d_oof st) (d_dsplit st) in
    let st1 := fold_left (fun s nd => addNode s nd d) old st0 in
    let st2 := fold_left (fun s ln =>
                 addSegment fuel s (closestNode s (pt_at old (s0 ln))) (closestNode s (pt_at old (s1 ln)))
                            (Some ln) d) (d_segs st) st1 in
    let st3 := fold_left (fun s lb => addBlockLabel s lb d) (d_labs st) st2 in
    unselectAll st3.

  (* ---- translateMove / rotateMove / scaleMove before their enforcePSLG ---------------- *)
  Definition mode_nodes (m : nat) : bool := Nat.eqb m 0 || Nat.eqb m 4.
  Definition mode_lines (m : nat) : bool := Nat.eqb m 1 || Nat.eqb m 4.
  Definition mode_labels (m : nat) : bool := Nat.eqb m 2 || Nat.eqb m 4.
  Definition mode_arcs (m : nat) : bool := Nat.eqb m 3 || Nat.eqb m 4.
  Definition mode_valid (m : nat) : bool := Nat.leb m 4.

  (* for selected lines: nodelist[n0]->IsSelected = nodelist[n1]->IsSelected = true *)
  Definition select_ends (st : drawingT) : drawingT :=
    set_nodes st (fold_left (fun ns s => if ssel s then upd_nth (upd_nth ns (s0 s) (nsetsel true)) (s1 s) (nsetsel true)
                                         else ns) (d_segs st) (d_nodes st)).
  Definition move_raw (fn : pt -> pt) (fl : labT -> labT) (m : nat) (st : drawingT) : drawingT :=
    let st1 := if mode_lines m then select_ends st else st in
    let processNodes := Nat.eqb m 0 || mode_lines m || mode_arcs m in
    let st2 := if mode_labels m
               then set_labs st1 (map (fun l => if lsel l then fl l else l) (d_labs st1)) else st1 in
    if processNodes
    then set_nodes st2 (map (fun n => if nsel n then nsetpt (fn (npt n)) n else n) (d_nodes st2))
    else st2.

  (* ---- one pass (one value of nc) of translateCopy / rotateCopy / mirrorCopy ---------- *)
  (* range-for over the list as it is when the loop starts (defined behaviour of the C++
     only as long as push_back does not reallocate: defect D4) *)
  Definition copy_node (fn : pt -> pt) (n : nodeT) : nodeT := nsetsel false (nsetpt (fn (npt n)) n).
  Definition copy_lines (fn : pt -> pt) (st : drawingT) : drawingT :=
    fold_left (fun s ln =>
      if ssel ln then
        let a := copy_node fn (node_at (d_nodes s) (s0 ln)) in
        let b := copy_node fn (node_at (d_nodes s) (s1 ln)) in
        let k := length (d_nodes s) in
        mkDrawing (d_nodes s ++ [a; b]) (d_segs s ++ [mkSeg k (S k) false (sgrp ln) (sprop ln)])
                  (d_labs s) (d_oof s) (d_dsplit s)
      else s) (d_segs st) st.
  Definition copy_pass (fn : pt -> pt) (fl : labT -> labT) (m : nat) (st : drawingT) : drawingT :=
    let st1 := if mode_nodes m
               then set_nodes st (d_nodes st ++ map (copy_node fn) (filter nsel (d_nodes st))) else st in
    let st2 := if mode_lines m then copy_lines fn st1 else st1 in
    if mode_labels m
    then set_labs st2 (d_labs st2 ++ map (fun l => lsetsel false (fl l)) (filter lsel (d_labs st2)))
    else st2.

  Definition translateCopy_raw (dx dy : F) (n m : nat) (st : drawingT) : drawingT :=
    fold_left (fun s nc =>
      let fn := g_translate G (g_times G nc dx) (g_times G nc dy) in
      copy_pass fn (fun l => lsetpt (fn (lpt l)) l) m s) (seq 0 n) st.
  Definition rotateCopy_raw (c : pt) (zs : list pt) (m : nat) (st : drawingT) : drawingT :=
    fold_left (fun s z =>
      let fn := g_rotate G c z in
      copy_pass fn (fun l => lsetpt (fn (lpt l)) l) m s) zs st.

  (* ---- the commands ------------------------------------------------------------------- *)
  Definition toggle_node (st : drawingT) (k : nat) : drawingT :=
    set_nodes st (upd_nth (d_nodes st) k (fun n => nsetsel (negb (nsel n)) n)).
  Definition toggle_lab (st : drawingT) (k : nat) : drawingT :=
    set_labs st (upd_nth (d_labs st) k (fun l => lsetsel (negb (lsel l)) l)).

  Definition step (fuel : nat) (st : drawingT) (o : opT) : drawingT :=
    match o with
    | OAddNode x y => addNode st (new_node (x, y)) (auto_tol (d_nodes st))
    | OAddSegment x0 y0 x1 y1 =>
        addSegment fuel st (closestNode st (x0, y0)) (closestNode st (x1, y1)) None (g_zero G)
    | OAddLabel x y => addBlockLabel st (new_lab (x, y)) (auto_tol (d_nodes st))
    | OSelectNode x y => toggle_node st (closestNode st (x, y))
    | OSelectSegment x y => toggle_seg st (closestSegment st (x, y))
    | OSelectLabel x y => toggle_lab st (closestLabel st (x, y))
    | OSelectGroup g =>
        mkDrawing (map (fun n => if Nat.eqb (ngrp n) g then nsetsel true n else n) (d_nodes st))
                  (map (fun s => if Nat.eqb (sgrp s) g then ssetsel true s else s) (d_segs st))
                  (map (fun l => if Nat.eqb (lgrp l) g then lsetsel true l else l) (d_labs st))
                  (d_oof st) (d_dsplit st)
    | OSetGroup g =>
        unselectAll
          (mkDrawing (map (fun n => if nsel n then mkNode (nx n) (ny n) (nsel n) g (nprop n) else n) (d_nodes st))
                     (map (fun s => if ssel s then mkSeg (s0 s) (s1 s) (ssel s) g (sprop s) else s) (d_segs st))
                     (map (fun l => if lsel l then mkLab (lx l) (ly l) (lsel l) g (larea l) (lprop l) else l) (d_labs st))
                     (d_oof st) (d_dsplit st))
    | OClearSelected => unselectAll st
    | OSetNodeProp k g =>
        set_nodes st (map (fun n => if nsel n then mkNode (nx n) (ny n) (nsel n) g k else n) (d_nodes st))
    | OSetSegProp k g =>
        set_segs st (map (fun s => if ssel s then mkSeg (s0 s) (s1 s) (ssel s) g k else s) (d_segs st))
    | OSetLabelProp k g =>
        set_labs st (map (fun l => if lsel l then mkLab (lx l) (ly l) (lsel l) g (g_ofnat G k) k else l) (d_labs st))
    | ODeleteSelected =>
        deleteSelectedLabels (deleteSelectedNodes (deleteSelectedSegments st))
    | ODeleteSelectedNodes => deleteSelectedNodes st
    | ODeleteSelectedSegments => deleteSelectedSegments st
    | ODeleteSelectedLabels => deleteSelectedLabels st
    | OMoveTranslate dx dy m =>
        if mode_valid m then
          let fn := g_translate G dx dy in
          enforcePSLG fuel (move_raw fn (fun l => lsetpt (fn (lpt l)) l) m st)
        else st
    | OMoveRotate cx cy zr zi m =>
        if mode_valid m then
          let fn := g_rotate G (cx, cy) (zr, zi) in
          enforcePSLG fuel (move_raw fn (fun l => lsetpt (fn (lpt l)) l) m st)
        else st
    | OScale bx by_ sf m =>
        if mode_valid m then
          let fn := g_scale G bx by_ sf in
          enforcePSLG fuel (move_raw fn (fun l => lsetarea (g_scale_area G sf (larea l)) (lsetpt (fn (lpt l)) l)) m st)
        else st
    | OCopyTranslate dx dy n m =>
        if mode_valid m then enforcePSLG fuel (translateCopy_raw dx dy n m st) else st
    | OCopyRotate cx cy zs m =>
        if mode_valid m then enforcePSLG fuel (rotateCopy_raw (cx, cy) zs m st) else st
    | OMirror x0 y0 x1 y1 m =>
        if mode_valid m then
          match g_mirror_axis G x0 y0 x1 y1 with
          | None => st                                           (* if (abs(p)==0) return; *)
          | Some (x, p) =>
              let fn := g_mirror G x p in
              enforcePSLG fuel (copy_pass fn (fun l => lsetpt (fn (lpt l)) l) m st)
          end
        else st
    end.

  Definition run (fuel : nat) (ops : list opT) (st : drawingT) : drawingT :=
    fold_left (step fuel) ops st.

  (* all intermediate states, for the correspondence *)
  Fixpoint trace (fuel : nat) (ops : list opT) (st : drawingT) : list drawingT :=
    match ops with
    | [] => []
    | o :: r => let st' := step fuel st o in st' :: trace fuel r st'
    end.

  Definition dump (st : drawingT) :=
    (map (fun n => (nx n, ny n, nsel n, ngrp n, nprop n)) (d_nodes st),
     map (fun s => (s0 s, s1 s, ssel s, sgrp s, sprop s)) (d_segs st),
     map (fun l => (lx l, ly l, lsel l, lgrp l, larea l, lprop l)) (d_labs st),
     d_oof st, d_dsplit st).
End Core.

(* ------------------------------------------------------------------------------------- *)
(* Part 2: the oracles as the C++ computes them *)
Section Formulas.
  Context {F : Type} (A : Arith F).
  Local Notation "x +. y" := (aadd A x y) (at level 50, left associativity).
  Local Notation "x -. y" := (asub A x y) (at level 50, left associativity).
  Local Notation "x *. y" := (amul A x y) (at level 40, left associativity).
  Local Notation "x /. y" := (adiv A x y) (at level 40, left associativity).
  Local Notation zero := (azero A).
  Local Notation one := (aone A).
  Local Notation pt := (F * F)%type.

  (* CNode::GetDistance(xo,yo) = sqrt((x-xo)*(x-xo) + (y-yo)*(y-yo)) *)
  Definition f_dist (p q : pt) : F :=
    asqrt A ((fst p -. fst q) *. (fst p -. fst q) +. (snd p -. snd q) *. (snd p -. snd q)).

  (* FemmProblem::shortestDistanceFromSegment(p,q,segm) *)
  Definition f_segdist (pq a b : pt) : F :=
    let p := fst pq in let q := snd pq in
    let x0 := fst a in let y0 := snd a in let x1 := fst b in let y1 := snd b in
    let t := ((p -. x0) *. (x1 -. x0) +. (q -. y0) *. (y1 -. y0)) /.
             ((x1 -. x0) *. (x1 -. x0) +. (y1 -. y0) *. (y1 -. y0)) in
    let t := if altb A one t then one else t in
    let t := if altb A t zero then zero else t in
    let x2 := x0 +. t *. (x1 -. x0) in
    let y2 := y0 +. t *. (y1 -. y0) in
    asqrt A ((p -. x2) *. (p -. x2) +. (q -. y2) *. (q -. y2)).

  (* abs(const CComplex&), femmcomplex.cpp *)
  Definition f_cabs1 (z : pt) : F :=
    if aeqb A (fst z) zero && aeqb A (snd z) zero then zero
    else if altb A (aabs A (snd z)) (aabs A (fst z))
    then aabs A (fst z) *. asqrt A (one +. (snd z /. fst z) *. (snd z /. fst z))
    else aabs A (snd z) *. asqrt A (one +. (fst z /. snd z) *. (fst z /. snd z)).
  Definition f_cabs (a b : pt) : F := f_cabs1 (csub A a b).

  (* p0 = p1 = first node; widen by the others; abs(p1-p0)*CLOSE_ENOUGH *)
  Fixpoint f_bbox (lo hi : pt) (l : list pt) : pt * pt :=
    match l with
    | [] => (lo, hi)
    | p :: r =>
        let lo1 := if altb A (fst p) (fst lo) then (fst p, snd lo) else lo in
        let hi1 := if altb A (fst hi) (fst p) then (fst p, snd hi) else hi in
        let lo2 := if altb A (snd p) (snd lo1) then (fst lo1, snd p) else lo1 in
        let hi2 := if altb A (snd hi1) (snd p) then (fst hi1, snd p) else hi1 in
        f_bbox lo2 hi2 r
    end.
  Definition f_bbtol (p0 : pt) (rest : list pt) : F :=
    let '(lo, hi) := f_bbox p0 p0 rest in f_cabs hi lo *. adec A 1 (-6).

  (* the part of getIntersection after the common-end-point tests; q0,q1 the ends of the
     prospective line (nodes n0,n1), p0,p1 the ends of the existing segment *)
  Definition f_isect (q0 q1 p0 p1 : pt) : option pt :=
    let ee := amin A (f_cabs p1 p0) (f_cabs q1 q0) *. adec A 1 (-8) in
    let r0 := cdiv A (csub A q0 p0) (csub A p1 p0) in
    let r1 := cdiv A (csub A q1 p0) (csub A p1 p0) in
    if aleb A (fst r0) zero && aleb A (fst r1) zero then None
    else if aleb A one (fst r0) && aleb A one (fst r1) then None
    else if aleb A (snd r0) zero && aleb A (snd r1) zero then None
    else if aleb A zero (snd r0) && aleb A zero (snd r1) then None
    else
      let z := snd r0 /. (snd r0 -. snd r1) in
      let x := (one -. z) *. fst r0 +. z *. fst r1 in
      if altb A x ee || altb A (one -. ee) x then None
      else Some ((one -. z) *. fst q0 +. z *. fst q1, (one -. z) *. snd q0 +. z *. snd q1).

  Definition f_translate (dx dy : F) (p : pt) : pt := (fst p +. dx, snd p +. dy).
  (* x = (x-c)*z + c *)
  Definition f_rotate (c z p : pt) : pt := cadd A (cmul A (csub A p c) z) c.
  Definition f_scale (bx by_ sf : F) (p : pt) : pt :=
    (bx +. sf *. (fst p -. bx), by_ +. sf *. (snd p -. by_)).
  (* CComplex x = x0 + I*y0;  p = (x1-x0) + I*(y1-y0);  if (abs(p)==0) return;  p /= abs(p) *)
  Definition f_mirror_axis (x0 y0 x1 y1 : F) : option (pt * pt) :=
    let x := (x0 +. zero *. y0, one *. y0) in
    let p := ((x1 -. x0) +. zero *. (y1 -. y0), one *. (y1 -. y0)) in
    let a := f_cabs1 p in
    if aeqb A a zero then None else Some (x, (fst p /. a, snd p /. a)).
  (* y = (y-x)/p;  y = p*y.Conj() + x *)
  Definition f_mirror (x p y : pt) : pt :=
    let y1 := cdiv A (csub A y x) p in
    cadd A (cmul A p (cconj A y1)) x.

  Definition ofnat (n : nat) : F := aofZ A (Z.of_nat n).

  Definition geoA : Geo F := {|
    g_zero := zero;
    g_lt := altb A;
    g_is0 := fun x => aeqb A x zero;
    g_fabs := aabs A;
    g_dist := f_dist;
    g_segdist := f_segdist;
    g_cabs := f_cabs;
    g_tol1 := adec A 1 (-8);
    g_bbtol := f_bbtol;
    g_dmin := fun x => x *. adec A 1 (-5);
    g_twice := fun x => aofZ A 2 *. x;
    g_isect := f_isect;
    g_translate := f_translate;
    g_rotate := f_rotate;
    g_scale := f_scale;
    g_scale_area := fun sf a => a *. (sf *. sf);
    g_mirror_axis := f_mirror_axis;
    g_mirror := f_mirror;
    g_times := fun nc inc => ofnat (S nc) *. inc;
    g_ofnat := ofnat |}.
End Formulas.

(* recursion budget used by the correspondence: one unit per level of the recursive split *)
Definition FUEL : nat := 200.
