(* Properties_C13.v — theorem statements for C13 (integrals are additive and agree with geometry
   and terminals). *)
From Coq Require Import ZArith List Bool Arith Lia Reals Lra Permutation.
From XF Require Import Arith Sparse SparseProofs Integrals IntegralsProofs Sums MeshCheck MeshCheckProofs.
Import ListNotations.

(* the selection after ANY sequence of block-selection commands depends only on the parity of the
   number of times each label was picked: selection order and repeated selection are irrelevant *)
Theorem C13_selection_depends_on_parity_only : forall (ls : list nat) (sel : list bool) (k : nat),
  Forall (fun l => (l < length sel)%nat) ls ->
  selected (toggles sel ls) k = if Nat.odd (count_occ_nat ls k) then negb (selected sel k) else selected sel k.
Proof. exact selected_toggles. Qed.
Print Assumptions C13_selection_depends_on_parity_only.

Theorem C13_selection_order_independent : forall ls1 ls2 sel k,
  Forall (fun l => (l < length sel)%nat) ls1 -> Forall (fun l => (l < length sel)%nat) ls2 ->
  (forall j, Nat.odd (count_occ_nat ls1 j) = Nat.odd (count_occ_nat ls2 j)) ->
  selected (toggles sel ls1) k = selected (toggles sel ls2) k.
Proof. exact selection_order_independent. Qed.
Print Assumptions C13_selection_order_independent.

Local Open Scope R_scope.
(* the block integral is the sum of the selected elements' terms ... *)
Theorem C13_block_integral_is_sum : forall (sel : list bool) (els : list (nat * R)),
  block_integral RA sel els = sel_sum (selected sel) els.
Proof. exact block_integral_sum. Qed.
Print Assumptions C13_block_integral_is_sum.

(* ... hence additive over disjoint selections and independent of the element order *)
Theorem C13_integral_additive : forall (s1 s2 s12 : nat -> bool) (els : list (nat * R)),
  (forall l, s1 l && s2 l = false) -> (forall l, s12 l = s1 l || s2 l) ->
  sel_sum s12 els = sel_sum s1 els + sel_sum s2 els.
Proof. exact integral_additive. Qed.
Print Assumptions C13_integral_additive.

Theorem C13_integral_order_independent : forall sel (els1 els2 : list (nat * R)),
  Permutation els1 els2 -> sel_sum sel els1 = sel_sum sel els2.
Proof. exact integral_perm. Qed.
Print Assumptions C13_integral_order_independent.

(* block area = geometric area: for any edge-manifold set of elements (e.g. the elements of the
   selected blocks) the doubled element areas sum to the shoelace sum over its boundary edges *)
Theorem C13_area_is_shoelace_of_boundary : forall (X : list pt) (ts : list tri),
  NoDup (all_dedges ts) -> zsum (area2 X) ts = zsum (cross X) (boundary_spec ts).
Proof. exact green. Qed.
Print Assumptions C13_area_is_shoelace_of_boundary.

(* energy and terminals: when the assembled rows hold at the free nodes, v.(K v) collects only the
   constrained nodes, and equipotential conductor nodes contribute V_c times the conductor's total
   reaction: W = 1/2 sum_c V_c Q_c *)
Theorem C13_energy_from_reactions : forall (v r : nat -> R) (free : nat -> bool) (n : nat),
  (forall i, (i < n)%nat -> free i = true -> r i = 0) ->
  rsum (fun i => v i * r i) n = rsum (fun i => if free i then 0 else v i * r i) n.
Proof. exact energy_from_reactions. Qed.
Print Assumptions C13_energy_from_reactions.

Theorem C13_conductor_term : forall (v r : nat -> R) (inc : nat -> bool) (Vc : R) (n : nat),
  (forall i, (i < n)%nat -> inc i = true -> v i = Vc) ->
  rsum (fun i => if inc i then v i * r i else 0) n = Vc * rsum (fun i => if inc i then r i else 0) n.
Proof. exact conductor_term. Qed.
Print Assumptions C13_conductor_term.
