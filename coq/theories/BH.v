(* BH.v — executable model of the nonlinear B-H curve code of the magnetics solver
   (cfemm/libfemm/CMaterialProp.cpp, class CMMaterialProp / CMSolverMaterialProp) for the
   magnetostatic case omega = 0, and of CComplexFullMatrix::GaussSolve
   (cfemm/libfemm/fullmatrix.cpp) which GetSlopes uses.

   Hdata, slope, L.M and L.b are CComplex in the C++; they are pairs (re, im) here and every
   operator is the one femmcomplex.cpp defines (operation order kept, so that the binary64
   reading [FA] is bit-comparable with the g++ build).  No proofs in this file. *)
From Coq Require Import ZArith List Bool Arith.
From XF Require Import Arith.
Import ListNotations.

Section BH.
  Context {F : Type} (A : Arith F).
  Local Notation "x +. y" := (aadd A x y) (at level 50, left associativity).
  Local Notation "x -. y" := (asub A x y) (at level 50, left associativity).
  Local Notation "x *. y" := (amul A x y) (at level 40, left associativity).
  Local Notation "x /. y" := (adiv A x y) (at level 40, left associativity).
  Local Notation zero := (azero A).
  Local Notation one := (aone A).
  Local Notation "'#' k" := (aofZ A k) (at level 9, k at level 9).
  Local Notation C := (F * F)%type.                    (* CComplex *)
  Local Notation "x +: y" := (cadd A x y) (at level 50, left associativity).
  Local Notation "x -: y" := (csub A x y) (at level 50, left associativity).

  Definition czero : C := (zero, zero).
  Definition cofd (x : F) : C := (x, zero).             (* CComplex(double) / operator=(double) *)
  (* operator*( double x, const CComplex& y ) *)
  Definition dmulc (x : F) (y : C) : C := (x *. fst y, x *. snd y).
  (* CComplex::operator*( double z ) *)
  Definition cmuld (y : C) (z : F) : C := (fst y *. z, snd y *. z).
  (* CComplex::operator/( double z ) *)
  Definition cdivd (y : C) (z : F) : C := (fst y /. z, snd y /. z).
  (* CComplex::operator+( double z ) *)
  Definition caddd (y : C) (z : F) : C := (fst y +. z, snd y).
  (* operator/( double x, const CComplex& z ) : the reciprocal, then both parts times x *)
  Definition ddivc (x : F) (z : C) : C := let y := cinv A z in (fst y *. x, snd y *. x).
  (* abs( const CComplex& x ) *)
  Definition cabs (x : C) : F :=
    if aeqb A (fst x) zero && aeqb A (snd x) zero then zero
    else if altb A (aabs A (snd x)) (aabs A (fst x))
      then aabs A (fst x) *. asqrt A (one +. (snd x /. fst x) *. (snd x /. fst x))
      else aabs A (snd x) *. asqrt A (one +. (fst x /. snd x) *. (fst x /. snd x)).
  (* CComplex::operator==(int 0) *)
  Definition ceq0 (x : C) : bool := aeqb A (fst x) zero && aeqb A (snd x) zero.

  (* ---------------------------------------------------------------------------------- *)
  (* CComplexFullMatrix::GaussSolve (fullmatrix.cpp:183)                                  *)
  (* ---------------------------------------------------------------------------------- *)
  Local Notation row := (list (F * F)).
  Local Notation matrix := (list (list (F * F))).

  Fixpoint lset {T} (l : list T) (i : nat) (v : T) : list T :=
    match l, i with
    | [], _ => []
    | _ :: t, O => v :: t
    | h :: t, S i' => h :: lset t i' v
    end.

  Definition lswap {T} (d : T) (l : list T) (i q : nat) : list T :=
    lset (lset l i (nth q l d)) q (nth i l d).

  (* for(j=i,max=0; j<n; j++) if (abs(M[j][i])>abs(max)) { max=M[j][i]; q=j; } *)
  Fixpoint pivot_scan (col : nat) (rows : matrix) (j : nat) (mx : C) (q : nat) : C * nat :=
    match rows with
    | [] => (mx, q)
    | r :: rows' =>
        let e := nth col r czero in
        if altb A (cabs mx) (cabs e) then pivot_scan col rows' (S j) e j
        else pivot_scan col rows' (S j) mx q
    end.

  (* one row j>i of the elimination: f=M[j][i]/M[i][i]; b[j]=b[j]-f*b[i];
     for (k=i;k<n;k++) M[j][k]-=(f*M[i][k]);  columns k<i are left as they are *)
  Fixpoint row_sub (f : C) (rj ri : row) : row :=
    match rj, ri with
    | x :: rj', y :: ri' => (x -: cmul A f y) :: row_sub f rj' ri'
    | _, _ => rj
    end.

  Definition elim_row (i : nat) (ri : row) (bi : C) (rb : row * C) : row * C :=
    let '(rj, bj) := rb in
    let f := cdiv A (nth i rj czero) (nth i ri czero) in
    (firstn i rj ++ row_sub f (skipn i rj) (skipn i ri), bj -: cmul A f bi).

  (* forward phase from column i on; [steps] = n - i.  None <-> "return false" *)
  Fixpoint gauss_fwd (steps i : nat) (M : matrix) (b : row) (q : nat) : bool * matrix * row :=
    match steps with
    | O => (true, M, b)
    | S steps' =>
        let '(mx, q') := pivot_scan i (skipn i M) i czero q in
        if ceq0 mx then (false, M, b)
        else
          let M1 := lswap [] M i q' in
          let b1 := lswap czero b i q' in
          let ri := nth i M1 [] in
          let bi := nth i b1 czero in
          let low := map (elim_row i ri bi) (combine (skipn (S i) M1) (skipn (S i) b1)) in
          gauss_fwd steps' (S i) (firstn (S i) M1 ++ map fst low) (firstn (S i) b1 ++ map snd low) q'
    end.

  (* for(j=n-1,f=0; j>i; j--) f+=M[i][j]*b[j];  b[i]=(b[i]-f)/M[i][i];  rows given from the
     last one upwards, [xs] = the already final b[i+1..n-1] *)
  Fixpoint backsub (irows : list (nat * row * C)) (xs : row) : row :=
    match irows with
    | [] => xs
    | (i, r, bi) :: rest =>
        let f := fold_left (fun f mx => f +: cmul A (fst mx) (snd mx))
                           (rev (combine (skipn (S i) r) xs)) czero in
        backsub rest (cdiv A (bi -: f) (nth i r czero) :: xs)
    end.

  Definition gauss_solve (M : matrix) (b : row) : bool * row :=
    let n := length M in
    let '(ok, U, c) := gauss_fwd n 0 M b 0 in
    if ok then (true, backsub (rev (combine (combine (seq 0 n) U) c)) [])
    else (false, c).

  (* ---------------------------------------------------------------------------------- *)
  (* CMMaterialProp::GetSlopes(0) (CMaterialProp.cpp:127)                                  *)
  (* ---------------------------------------------------------------------------------- *)
  Definition Bn (Bd : list F) (i : nat) : F := nth i Bd zero.
  Definition Hn (Hd : row) (i : nat) : C := nth i Hd czero.

  (* a row of L after Wipe() and the assignments of lines 206-229 *)
  Definition sparse_row (n : nat) (es : list (nat * F)) : row :=
    map (fun k => match find (fun e => Nat.eqb (fst e) k) es with
                  | Some e => cofd (snd e) | None => czero end) (seq 0 n).

  Definition sys_row (n : nat) (Bd : list F) (i : nat) : row :=
    if Nat.eqb i 0 then
      let l1 := Bn Bd 1 -. Bn Bd 0 in
      sparse_row n [(0, #4 /. l1); (1, #2 /. l1)]
    else if Nat.eqb i (n - 1) then
      let l1 := Bn Bd (n - 1) -. Bn Bd (n - 2) in
      sparse_row n [(n - 1, #4 /. l1); (n - 2, #2 /. l1)]
    else
      let l1 := Bn Bd i -. Bn Bd (i - 1) in
      let l2 := Bn Bd (i + 1) -. Bn Bd i in
      sparse_row n [(i - 1, #2 /. l1); (i, #4 *. (l1 +. l2) /. (l1 *. l2)); (i + 1, #2 /. l2)].

  Definition sys_rhs (n : nat) (Bd : list F) (Hd : row) (i : nat) : C :=
    if Nat.eqb i 0 then
      let l1 := Bn Bd 1 -. Bn Bd 0 in
      cdivd (dmulc #6 (Hn Hd 1 -: Hn Hd 0)) (l1 *. l1)
    else if Nat.eqb i (n - 1) then
      let l1 := Bn Bd (n - 1) -. Bn Bd (n - 2) in
      cdivd (dmulc #6 (Hn Hd (n - 1) -: Hn Hd (n - 2))) (l1 *. l1)
    else
      let l1 := Bn Bd i -. Bn Bd (i - 1) in
      let l2 := Bn Bd (i + 1) -. Bn Bd i in
      cdivd (dmulc #6 (Hn Hd i -: Hn Hd (i - 1))) (l1 *. l1) +:
      cdivd (dmulc #6 (Hn Hd (i + 1) -: Hn Hd i)) (l2 *. l2).

  Definition spline_system (Bd : list F) (Hd : row) : matrix * row :=
    let n := length Bd in
    (map (sys_row n Bd) (seq 0 n), map (sys_rhs n Bd Hd) (seq 0 n)).

  (* the test of lines 239-272 on one segment: true <-> "CurveOK=false" *)
  Definition seg_bad (d0 d1 u0 u1 L : F) : bool :=
    let c0 := d0 in
    let c1 := aneg A (#2 *. (#2 *. d0 *. L +. d1 *. L +. #3 *. u0 -. #3 *. u1)) /. (L *. L) in
    let c2 := (#3 *. (d0 *. L +. d1 *. L +. #2 *. u0 -. #2 *. u1)) /. (L *. L *. L) in
    let m1 := aneg A one in
    let disc := c1 *. c1 -. #4 *. c0 *. c2 in
    let '(X0, X1) :=
      if aeqb A c2 zero then
        (if aneb A c1 zero then aneg A c0 /. c1 else m1, m1)
      else if altb A zero disc then
        let s := asqrt A disc in
        (aneg A (c1 +. s) /. (#2 *. c2), (aneg A c1 +. s) /. (#2 *. c2))
      else (m1, m1) in
    (aleb A zero X0 && aleb A X0 L) || (aleb A zero X1 && aleb A X1 L).

  Fixpoint curve_bad (Bd : list F) (Hd Sd : row) : bool :=
    match Bd, Hd, Sd with
    | b0 :: ((b1 :: _) as Bd'), h0 :: ((h1 :: _) as Hd'), s0 :: ((s1 :: _) as Sd') =>
        (* the C++ loop does not break: every segment is tested, the flags are or-ed *)
        let rest := curve_bad Bd' Hd' Sd' in
        seg_bad (fst s0) (fst s1) (fst h0) (fst h1) (b1 -. b0) || rest
    | _, _, _ => false
    end.

  (* 3-point moving average, lines 280-289: end points stay, interior points are replaced by
     the average of the OLD neighbours *)
  Fixpoint smooth3 {T} (avg : T -> T -> T -> T) (prev : T) (l : list T) : list T :=
    match l with
    | x :: ((y :: _) as t) => avg prev x y :: smooth3 avg x t
    | _ => l
    end.
  Definition smooth {T} (avg : T -> T -> T -> T) (l : list T) : list T :=
    match l with
    | x :: t => x :: smooth3 avg x t
    | [] => []
    end.
  Definition avgF (a b c : F) : F := (a +. b +. c) /. #3.
  Definition avgC (a b c : C) : C := cdivd (a +: b +: c) #3.

  (* lines 324-338: LamType==0 && LamFill!=1, points 1..n-1 *)
  Definition lam_point (lamfill muo : F) (bh : F * C) : F * C :=
    let '(b, h) := bh in
    let mu := caddd (ddivc (lamfill *. b) h) ((one -. lamfill) *. muo) in
    let b' := cabs (cmul A mu h) in
    (b', ddivc b' mu).
  Definition lam_fix (lamfill muo : F) (Bd : list F) (Hd : row) : list F * row :=
    match Bd, Hd with
    | b0 :: Bt, h0 :: Ht =>
        let p := map (lam_point lamfill muo) (combine Bt Ht) in
        (b0 :: map fst p, h0 :: map snd p)
    | _, _ => (Bd, Hd)
    end.

  Record slopes_result := mkSR {
    rB : list F; rH : row; rS : row;
    rsmooth : nat;          (* number of smoothing passes *)
    rgauss : bool;          (* GaussSolve's return value in the last pass (ignored by the C++) *)
    rdone : bool }.         (* false: fuel exhausted before CurveOK *)

  (* while(CurveOK!=true) { ... }  — one unit of fuel per pass *)
  Fixpoint slopes_loop (fuel : nat) (lam0 : bool) (lamfill muo : F) (processed : bool)
           (Bd : list F) (Hd : row) (passes : nat) : slopes_result :=
    match fuel with
    | O => mkSR Bd Hd [] passes true false
    | S fuel' =>
        let '(M, rhs) := spline_system Bd Hd in
        let '(gok, Sd) := gauss_solve M rhs in
        if curve_bad Bd Hd Sd then
          slopes_loop fuel' lam0 lamfill muo processed (smooth avgF Bd) (smooth avgC Hd) (S passes)
        else if negb processed && lam0 && aneb A lamfill one then
          let '(Bd', Hd') := lam_fix lamfill muo Bd Hd in
          slopes_loop fuel' lam0 lamfill muo true Bd' Hd' passes
        else mkSR Bd Hd Sd passes gok true
    end.

  (* lam0 = (LamType==0);  mu_x = Bdata[1] / (muo*abs(Hdata[1])) is returned separately *)
  Definition get_slopes (fuel : nat) (lam0 : bool) (lamfill muo : F) (Bd : list F) (Hd : row)
    : slopes_result := slopes_loop fuel lam0 lamfill muo false Bd Hd 0.
  Definition first_mu (muo : F) (Bd : list F) (Hd : row) : F :=
    Bn Bd 1 /. (muo *. cabs (Hn Hd 1)).

  (* ---------------------------------------------------------------------------------- *)
  (* evaluation: GetH, GetdHdB, GetEnergy, GetCoEnergy, GetBHProps                        *)
  (* ---------------------------------------------------------------------------------- *)
  Record mat := mkMat { mB : list F; mH : row; mS : row; mMux : F; mMuo : F }.
  Definition lastB (m : mat) : F := last (mB m) zero.
  Definition lastH (m : mat) : C := last (mH m) czero.
  Definition lastS (m : mat) : C := last (mS m) czero.

  (* the cubic of CMSolverMaterialProp::GetH(double) (CMaterialProp.cpp:976-982) *)
  Definition hseg (b b0 b1 : F) (h0 h1 s0 s1 : C) : C :=
    let l := b1 -. b0 in
    let z := (b -. b0) /. l in
    let z2 := z *. z in
    dmulc (one -. #3 *. z2 +. #2 *. z2 *. z) h0 +:
    dmulc (z *. (one -. #2 *. z +. z2) *. l) s0 +:
    dmulc (z2 *. (#3 -. #2 *. z)) h1 +:
    dmulc (z2 *. (z -. one) *. l) s1.

  (* CMMaterialProp::GetdHdB (CMaterialProp.cpp:476-481) *)
  Definition dhseg (b b0 b1 : F) (h0 h1 s0 s1 : C) : C :=
    let l := b1 -. b0 in
    let z := (b -. b0) /. l in
    cdivd (dmulc (#6 *. z *. (z -. one)) h0) l +:
    dmulc (one -. #4 *. z +. #3 *. z *. z) s0 +:
    cdivd (dmulc (#6 *. z *. (one -. z)) h1) l +:
    dmulc (z *. (#3 *. z -. #2)) s1.

  (* the walk for(i=0;i<BHpoints-1;i++) if((b>=Bdata[i]) && (b<=Bdata[i+1])) ... of the
     evaluators; [f] is the segment formula, [dflt] what is returned when no segment matches *)
  Fixpoint seg_scan {T} (f : F -> F -> C -> C -> C -> C -> T) (dflt : T) (b : F)
           (Bd : list F) (Hd Sd : row) : T :=
    match Bd, Hd, Sd with
    | b0 :: ((b1 :: _) as Bd'), h0 :: ((h1 :: _) as Hd'), s0 :: ((s1 :: _) as Sd') =>
        if aleb A b0 b && aleb A b b1 then f b0 b1 h0 h1 s0 s1
        else seg_scan f dflt b Bd' Hd' Sd'
    | _, _, _ => dflt
    end.

  (* CMSolverMaterialProp::GetH(double B) (CMaterialProp.cpp:960) *)
  Definition getH (m : mat) (B : F) : C :=
    let b := aabs A B in
    if Nat.eqb (length (mB m)) 0 then cofd (b /. (mMux m *. mMuo m))
    else if altb A (lastB m) b then lastH m +: cmuld (lastS m) (b -. lastB m)
    else seg_scan (fun b0 b1 h0 h1 s0 s1 => hseg b b0 b1 h0 h1 s0 s1) czero b (mB m) (mH m) (mS m).

  (* CMMaterialProp::GetdHdB(double B) (CMaterialProp.cpp:461) *)
  Definition getdHdB (m : mat) (B : F) : C :=
    let b := aabs A B in
    if Nat.eqb (length (mB m)) 0 then cofd (b /. (mMux m *. mMuo m))
    else if altb A (lastB m) b then lastS m
    else seg_scan (fun b0 b1 h0 h1 s0 s1 => dhseg b b0 b1 h0 h1 s0 s1) czero b (mB m) (mH m) (mS m).

  (* CMMaterialProp::GetEnergy(double x) (CMaterialProp.cpp:537) *)
  Definition eseg (b b0 b1 h0 h1 dh0 dh1 : F) : F :=
    let l := b1 -. b0 in
    let z := (b -. b0) /. l in
    let z2 := z *. z in
    (dh0 *. l *. l *. (#6 +. z *. (#(-8) +. #3 *. z)) *. z2) /. #12 +.
    (h0 *. l *. z *. (#2 +. (#(-2) +. z) *. z2)) /. #2 -.
    (h1 *. l *. (#(-2) +. z) *. z2 *. z) /. #2 +.
    (dh1 *. l *. l *. (#(-4) +. #3 *. z) *. z2 *. z) /. #12.
  Definition efull (b0 b1 h0 h1 dh0 dh1 : F) : F :=
    ((b0 -. b1) *. ((b0 -. b1) *. (dh0 -. dh1) -. #6 *. (h0 +. h1))) /. #12.

  Fixpoint energy_scan (b nrg : F) (Bd : list F) (Hd Sd : row) : F :=
    match Bd, Hd, Sd with
    | b0 :: ((b1 :: _) as Bd'), h0 :: ((h1 :: _) as Hd'), s0 :: ((s1 :: _) as Sd') =>
        if aleb A b0 b && aleb A b b1 then
          nrg +. eseg b b0 b1 (fst h0) (fst h1) (fst s0) (fst s1)
        else energy_scan b (nrg +. efull b0 b1 (fst h0) (fst h1) (fst s0) (fst s1)) Bd' Hd' Sd'
    | _, _, _ =>
        (* off the scale: extrapolate (the lists are down to their last element here) *)
        let h0 := fst (last Hd czero) in
        let dh0 := fst (last Sd czero) in
        let b0 := last Bd zero in
        nrg +. ((b -. b0) *. (b *. dh0 -. b0 *. dh0 +. #2 *. h0)) /. #2
    end.

  Definition getEnergy (m : mat) (x : F) : F :=
    let b := aabs A x in
    if Nat.eqb (length (mB m)) 0 then zero
    else energy_scan b zero (mB m) (mH m) (mS m).

  (* CMMaterialProp::GetH(const CComplex x) const for x = CComplex(xr) (CMaterialProp.cpp:493),
     then Re(): this is CMMaterialProp::GetH(const double) const, used by GetCoEnergy.
     x, Hdata and slope are const objects in that function, so the non-const member operators
     CComplex::operator/(double) and operator*(double) are not viable: the double operand is
     converted to CComplex and the (const CComplex&, const CComplex&) friends are called, i.e.
     p = x * (reciprocal of CComplex(b)) and slope*CComplex(b-Blast). *)
  Definition getH_base (m : mat) (xr : F) : F :=
    let x := cofd xr in
    let b := cabs x in
    if Nat.eqb (length (mB m)) 0 || aeqb A b zero then zero
    else
      let p := cdiv A x (cofd b) in
      if altb A (lastB m) b then
        fst (cmul A p (lastH m +: cmul A (lastS m) (cofd (b -. lastB m))))
      else
        fst (seg_scan (fun b0 b1 h0 h1 s0 s1 => cmul A p (hseg b b0 b1 h0 h1 s0 s1))
                      czero b (mB m) (mH m) (mS m)).

  (* CMMaterialProp::GetCoEnergy *)
  Definition getCoEnergy (m : mat) (b : F) : F :=
    aabs A b *. getH_base m b -. getEnergy m b.

  (* CMSolverMaterialProp::GetBHProps(double B, CComplex &v, CComplex &dv), then the real
     parts as the (double&,double&) overload returns them (CMaterialProp.cpp:997-1057) *)
  Definition half : F := adec A 5 (-1).
  Definition bhprops_of (b : F) (h dh : C) : C * C :=
    (cdivd h b, dmulc half (cdivd dh (b *. b) -: cdivd h (b *. b *. b))).
  Definition getBHProps (m : mat) (B : F) : F * F :=
    let b := aabs A B in
    let '(v, dv) :=
      if Nat.eqb (length (mB m)) 0 then (cofd (mMux m), czero)
      else if aeqb A b zero then (nth 0 (mS m) czero, czero)
      else if altb A (lastB m) b then
        bhprops_of b (lastH m +: cmuld (lastS m) (b -. lastB m)) (lastS m)
      else
        seg_scan (fun b0 b1 h0 h1 s0 s1 =>
                    bhprops_of b (hseg b b0 b1 h0 h1 s0 s1) (dhseg b b0 b1 h0 h1 s0 s1))
                 (czero, czero) b (mB m) (mH m) (mS m) in
    (fst v, fst dv).

  (* what the harness prints for one sample point *)
  Definition sample (m : mat) (b : F) : list F :=
    let h := getH m b in let d := getdHdB m b in let '(v, dv) := getBHProps m b in
    [fst h; snd h; fst d; snd d; getEnergy m b; getCoEnergy m b; v; dv].

  (* one harness case: GetSlopes(0) on the table, then the samples *)
  Definition run_case (fuel : nat) (lam0 : bool) (lamfill muo : F) (Bd : list F) (Hd : row)
             (bs : list F) : (nat * bool * bool) * (list F * row * row) * F * list (list F) :=
    let r := get_slopes fuel lam0 lamfill muo Bd Hd in
    let mux := first_mu muo Bd Hd in
    let m := mkMat (rB r) (rH r) (rS r) mux muo in
    ((rsmooth r, rgauss r, rdone r), (rB r, rH r, rS r), mux, map (sample m) bs).
End BH.
